package proxy

import (
	"fmt"
	"strings"
	"testing"

	"go.minekube.com/gate/pkg/edition/java/forge"
	"go.minekube.com/gate/pkg/edition/java/proto/packet"
	"go.minekube.com/gate/pkg/edition/java/proto/packet/plugin"
	"go.minekube.com/gate/pkg/edition/java/proto/state"
	"go.minekube.com/gate/pkg/edition/java/proxy/message"
	"go.minekube.com/gate/pkg/edition/java/proxy/phase"
	"go.minekube.com/gate/pkg/edition/java/proxy/zzverif/bfs"
	"go.minekube.com/gate/pkg/edition/java/proxy/zzverif/vrt"
	"go.minekube.com/gate/pkg/gate/proto"
	"go.minekube.com/gate/pkg/util/uuid"
)

// ---------------------------------------------------------------------------------------------
// Rig: one player, two backends A and B over recording connections, the real client session handler.
// Every client message carries its send index in the body, so deliveries can be attributed.

const (
	c24Chan    = "x:y"     // not registered with the proxy: forwarded without an event
	c24RegChan = "my:chan" // registered with the proxy: forwarded through PluginMessageEvent
)

// c24Indexed: channels whose messages carry a send index (minecraft:register is a plugin message like any
// other for the configuration-phase queue).
func c24Indexed(ch string) bool {
	return ch == c24Chan || ch == c24RegChan || ch == plugin.RegisterChannel
}

type c24Rig struct {
	mode     string // "config" | "play"
	w        *g7World
	client   *g7Conn
	backends map[string]*g7Conn
	scs      map[string]*serverConnection
	player   *connectedPlayer
	cfg      *clientConfigSessionHandler
	play     *clientPlaySessionHandler
	protocol proto.Protocol
	st       *state.Registry
	sent     int    // number of indexed messages sent so far
	joining  string // backend whose JoinGame handling is in progress ("" = none)
	// global delivery log across backends, in real order
	log []c24Delivery
}

type c24Delivery struct {
	backend string
	idx     int
}

func c24Body(idx int, size int) []byte {
	if size < 2 {
		size = 2
	}
	b := make([]byte, size)
	b[0], b[1] = byte(idx>>8), byte(idx)
	return b
}

// c24NewRig: mode "config" | "play"; the config phase also starts as "config-current" (a re-configuration
// by the player's CURRENT server A: nothing in flight) and "config-none" (no server connection at all yet).
func c24NewRig(mode string) *c24Rig {
	variant := mode
	if strings.HasPrefix(mode, "config") {
		mode = "config"
	}
	r := &c24Rig{mode: mode, w: g7NewWorld(), backends: map[string]*g7Conn{}, scs: map[string]*serverConnection{}}
	ci, _ := message.ChannelIdentifierFrom(c24RegChan)
	r.w.Proxy.ChannelRegistrar().Register(ci)
	// a subscriber that lets registered-channel messages pass (keeps this check independent of what the
	// event's default result is)
	g7On(r.w.Events, func(e *PluginMessageEvent) { e.SetForward(true) })
	protocol, st := g7Modern, state.Config
	if mode == "play" {
		protocol, st = g7Legacy, state.Play
	}
	r.client = g7NewConn("client", protocol, st)
	if mode == "play" {
		r.client.connType = phase.LegacyForge
	}
	r.player = r.w.player("Alice", uuid.OfflinePlayerUUID("Alice"), r.client, true)
	r.protocol, r.st = protocol, st
	r.newBackend("A", st)
	r.newBackend("B", st)
	switch mode {
	case "config":
		switch variant {
		case "config":
			r.setInFlight("A")
		case "config-current":
			a := r.scs["A"]
			a.completedJoin.Store(true)
			r.player.mu.Lock()
			r.player.connectedServer_ = a
			r.player.mu.Unlock()
		case "config-none":
		}
		r.cfg = newClientConfigSessionHandler(r.player)
		r.client.handler = r.cfg
	case "play":
		// as after a completed first join on A: legacy Forge client whose handshake is complete
		a := r.scs["A"]
		a.connPhase = phase.VanillaBackendPhase
		a.completedJoin.Store(true)
		r.player.mu.Lock()
		r.player.connectedServer_ = a
		r.player.connPhase = phase.CompleteLegacyForgeHandshakeClientPhase
		r.player.mu.Unlock()
		r.play = newClientPlaySessionHandler(r.player)
		r.play.spawned.Store(true)
		r.client.handler = r.play
	}
	return r
}

// newBackend registers (once) server srv<n> and opens a fresh serverConnection to it over a fresh recording conn.
func (r *c24Rig) newBackend(n string, st *state.Registry) {
	srv := r.w.Proxy.server("srv" + n)
	if srv == nil {
		srv = r.w.server("srv"+n, []byte{10, 0, 1, byte(1 + len(r.scs))}, 25565)
	}
	bc := g7NewConn(n, r.protocol, st)
	bc.onWrite = func(c *g7Conn, w g7Write) {
		if pm, ok := w.Pkt.(*plugin.Message); ok && c24Indexed(pm.Channel) && len(pm.Data) >= 2 {
			r.log = append(r.log, c24Delivery{n, int(pm.Data[0])<<8 | int(pm.Data[1])})
		}
	}
	// A write the proxy attempts on a backend connection that the server switch closed concurrently is a
	// delivery attempt to the departing backend, not a queueing fault: it counts as that message's delivery.
	bc.onClosedWrite = func(c *g7Conn, w g7Write) {
		if pm, ok := w.Pkt.(*plugin.Message); ok && c24Indexed(pm.Channel) && len(pm.Data) >= 2 {
			r.log = append(r.log, c24Delivery{n + "(closed)", int(pm.Data[0])<<8 | int(pm.Data[1])})
		}
	}
	r.backends[n] = bc
	sc := newServerConnection(srv, nil, r.player)
	sc.connection = bc
	r.scs[n] = sc
}

func (r *c24Rig) setInFlight(n string) {
	r.player.mu.Lock()
	r.player.connInFlight = r.scs[n]
	r.player.mu.Unlock()
}

func (r *c24Rig) handler() interface{ HandlePacket(*proto.PacketContext) } {
	if r.mode == "config" {
		return r.cfg
	}
	return r.play
}

// sendMsg: the client read loop hands one plugin message to the active handler.
func (r *c24Rig) sendRaw(channel string, body []byte) {
	msg := &plugin.Message{Channel: channel, Data: body}
	r.handler().HandlePacket(&proto.PacketContext{Direction: proto.ServerBound, Protocol: r.client.protocol, PacketID: 0x17, Packet: msg})
}

func (r *c24Rig) sendIndexed(channel string, size int) int {
	r.sent++
	r.sendRaw(channel, c24Body(r.sent, size))
	return r.sent
}

// fmlHandshake: the client walks through the legacy Forge handshake (ClientHello, ModList, 4x Ack); the last
// Ack completes it.
func (r *c24Rig) fmlHandshake() {
	for _, d := range []int{forge.ClientHelloDiscriminator, forge.ModListDiscriminator, forge.AckDiscriminator, forge.AckDiscriminator, forge.AckDiscriminator, forge.AckDiscriminator} {
		r.sendRaw(forge.LegacyHandshakeChannel, []byte{byte(d), 0})
	}
}

// join: what backendTransitionSessionHandler.handleJoinGame does around handleBackendJoinGame.
func (r *c24Rig) join(n string) error {
	r.beginJoin(n)
	return r.endJoin()
}

// beginJoin: a fresh connection to n is in flight and its JoinGame handling has started: the connected
// server is cleared and the old backend connection closed (first half of handleJoinGame).
func (r *c24Rig) beginJoin(n string) {
	// a connection attempt always runs over a fresh serverConnection / backend connection
	r.newBackend(n, state.Play)
	dest := r.scs[n]
	dest.connPhase = phase.UnknownBackendPhase
	r.joining = n
	r.player.mu.Lock()
	r.player.connInFlight = dest
	existing := r.player.connectedServer_
	r.player.connectedServer_ = nil
	r.player.mu.Unlock()
	if existing != nil {
		existing.disconnect()
	}
}

// endJoin: second half of handleJoinGame: handleBackendJoinGame on the client's play handler, then the
// destination becomes the connected server.
func (r *c24Rig) endJoin() error {
	dest := r.scs[r.joining]
	r.joining = ""
	jg := c24JoinGame()
	if err := r.play.handleBackendJoinGame(c24JoinCtx(r, jg), jg, dest); err != nil {
		return err
	}
	r.player.setConnectedServer(dest)
	return nil
}

// hasLiveBackend: the player has a connected server whose connection is open (the only situation in which
// the play handler accepts ordinary plugin messages at all).
func (r *c24Rig) hasLiveBackend() bool {
	sc := r.player.connectedServer()
	return sc != nil && sc.conn() != nil
}

func strPtr(s string) *string { return &s }

func c24JoinGame() *packet.JoinGame {
	return &packet.JoinGame{EntityID: 7, Gamemode: 0, Dimension: 0, LevelType: strPtr("default"), MaxPlayers: 20}
}
func c24JoinCtx(r *c24Rig, jg *packet.JoinGame) *proto.PacketContext {
	return &proto.PacketContext{Direction: proto.ClientBound, Protocol: r.client.protocol, Packet: jg}
}

func (r *c24Rig) queueLen() (n, bytes int) {
	if r.mode == "config" {
		r.cfg.mu.Lock()
		defer r.cfg.mu.Unlock()
		return r.cfg.mu.pluginMessages.Len(), r.cfg.mu.pluginMessagesBytes
	}
	r.play.mu.Lock()
	defer r.play.mu.Unlock()
	return r.play.mu.loginPluginMessages.Len(), r.play.mu.loginPluginMessagesBytes
}

func (r *c24Rig) disconnected() bool { return r.client.ctx.Err() != nil }

// ---------------------------------------------------------------------------------------------
// Oracle, straight from the statement. Independent of what the implementation regards as "ready":
//   once      no message is delivered twice (to any backend)
//   order     a message is never delivered while an earlier-sent message is still waiting in the proxy
//             ("... in the order sent, before any plugin message sent afterwards")
//   early     nothing is delivered to a backend that is not ready yet (config phase)
//   drained   after the backend became ready / the join completed nothing sent before is still waiting
//   bounded   the buffer never holds more than 1024 messages / 4 MiB

type c24Model struct {
	delivered map[int]string // idx -> backend
	dropped   map[int]bool   // discarded by an overflow disconnect (don't-care afterwards)
}

func c24CheckLog(log []c24Delivery, sent int, dropped map[int]bool) (kind, desc string) {
	seen := map[int]string{}
	maxSeen := 0
	for i, d := range log {
		if prev, dup := seen[d.idx]; dup {
			return "delivered-twice", fmt.Sprintf("message #%d delivered to %s and again to %s (delivery %d of %v)", d.idx, prev, d.backend, i, log)
		}
		seen[d.idx] = d.backend
		if d.idx < maxSeen {
			return "overtaken", fmt.Sprintf("message #%d was delivered after the later-sent #%d (deliveries: %v)", d.idx, maxSeen, log)
		}
		if d.idx > maxSeen {
			maxSeen = d.idx
		}
	}
	return "", ""
}

// ---------------------------------------------------------------------------------------------
// Histories

type c24Op string

func c24ConfigOps() []c24Op {
	// chreg = a minecraft:register message; bigmsg = a 64 KiB message (byte accounting across flushes)
	return []c24Op{"msg", "regmsg", "readyA", "switchB", "readyB", "chreg", "bigmsg"}
}
func c24PlayOps() []c24Op {
	// joinB/joinA = the whole JoinGame handling in one step; beginB .. endB = the same split where
	// backendTransitionSessionHandler.handleJoinGame has cleared the connected server (and closed the old
	// backend) but handleBackendJoinGame has not run yet: the player has NO connected backend, B is in flight.
	// backendgone = the connected backend's connection is closed while it stays the connected server.
	return []c24Op{"msg", "regmsg", "reset", "fml", "flush", "joinB", "beginB", "endB", "backendgone", "joinA"}
}

type c24State struct {
	target  string          // config: backend in flight
	ready   map[string]bool // config: backends that were flushed to
	pending []int           // model: messages the proxy must still be holding
}

func c24Run(mode string, h []c24Op) bfs.Outcome {
	r := c24NewRig(mode)
	m := c24State{target: "A", ready: map[string]bool{}}
	if mode == "config-none" {
		m.target = ""
	}
	if strings.HasPrefix(mode, "config") {
		mode = "config" // (violation keys and the oracle do not depend on how the phase started)
	}
	fail := func(kind, format string, a ...any) bfs.Outcome {
		return bfs.Outcome{FailKey: mode + "/" + kind, FailDesc: fmt.Sprintf("history %v\n", h) + fmt.Sprintf(format, a...)}
	}
	for step, op := range h {
		before := len(r.log)
		live := mode != "play" || r.hasLiveBackend() // before the step
		var err error
		var perr any
		panicked, pv := vrt.Catch(func() {
			switch op {
			case "msg":
				r.sendIndexed(c24Chan, 2)
			case "regmsg":
				r.sendIndexed(c24RegChan, 2)
			case "chreg":
				r.sendIndexed(plugin.RegisterChannel, 2)
			case "bigmsg":
				r.sendIndexed(c24Chan, 64<<10)
			case "readyA":
				err = r.cfg.flushQueuedPluginMessagesTo(r.scs["A"])
			case "readyB":
				err = r.cfg.flushQueuedPluginMessagesTo(r.scs["B"])
			case "switchB":
				r.setInFlight("B")
			case "reset":
				r.player.SendLegacyForgeHandshakeResetPacket()
			case "fml":
				r.fmlHandshake()
			case "flush":
				r.play.FlushQueuedPluginMessages()
			case "joinA":
				err = r.join("A")
			case "joinB":
				err = r.join("B")
			case "beginB":
				r.beginJoin("B")
			case "endB":
				err = r.endJoin()
			case "backendgone":
				r.player.connectedServer().disconnect()
			}
		})
		if panicked {
			perr = pv
			return fail("panic", "step %d (%s): panic: %v", step, op, perr)
		}
		if err != nil {
			return fail("error", "step %d (%s): %v", step, op, err)
		}
		newDeliv := r.log[before:]
		// once / order over the whole log
		if kind, desc := c24CheckLog(r.log, r.sent, nil); kind != "" {
			return fail(kind, "step %d (%s): %s", step, op, desc)
		}
		// model bookkeeping: what must be waiting in the proxy
		switch op {
		case "msg", "regmsg", "chreg", "bigmsg":
			// play phase: without a connected, open backend the handler discards ordinary plugin messages by
			// design (as Velocity does) - those are outside the statement
			if live {
				m.pending = append(m.pending, r.sent)
			}
		case "switchB":
			m.target = "B"
		}
		for _, d := range newDeliv {
			if mode == "config" {
				// early: a delivery to X is legal only once X has been declared ready (this step included)
				if !(m.ready[d.backend] || string(op) == "ready"+d.backend) {
					return fail("delivered-before-ready", "step %d (%s): message #%d written to backend %s which is not ready", step, op, d.idx, d.backend)
				}
			}
			var still []int
			for _, idx := range m.pending {
				if idx < d.idx {
					return fail("overtaken", "step %d (%s): message #%d was delivered (to %s) while the earlier-sent #%d is still held back by the proxy", step, op, d.idx, d.backend, idx)
				}
				if idx != d.idx {
					still = append(still, idx)
				}
			}
			m.pending = still
		}
		switch {
		case mode == "config" && (op == "readyA" || op == "readyB"):
			b := strings.TrimPrefix(string(op), "ready")
			m.ready[b] = true
			if len(m.pending) != 0 {
				return fail("not-drained", "step %d (%s): backend %s is ready, messages %v sent before are still undelivered", step, op, b, m.pending)
			}
		case mode == "config" && (op == "msg" || op == "regmsg" || op == "chreg" || op == "bigmsg") && m.ready[m.target]:
			if len(m.pending) != 0 {
				return fail("not-delivered-when-ready", "step %d (%s): backend %s is ready, message(s) %v were not delivered", step, op, m.target, m.pending)
			}
		case mode == "play" && (op == "joinA" || op == "joinB" || op == "endB" || (op == "flush" && live)):
			if len(m.pending) != 0 {
				return fail("not-drained", "step %d (%s): messages %v sent before are still undelivered", step, op, m.pending)
			}
		}
		n, b := r.queueLen()
		if n > maxQueuedLoginPluginMessages || b > maxQueuedLoginPluginMessageBytes {
			return fail("unbounded", "step %d: queue holds %d messages / %d bytes", step, n, b)
		}
		// every message that is neither delivered nor discarded by an overflow must still be held
		if len(m.pending) > n && !r.disconnected() {
			return fail("lost", "step %d (%s): message(s) %v were sent to a ready-to-be backend, are not delivered anywhere and the proxy no longer holds them (queue length %d)", step, op, m.pending, n)
		}
	}
	// state key: history-determined observable state
	n, _ := r.queueLen()
	conn := "-"
	if sc := r.player.connectedServer(); sc != nil {
		conn = sc.server.info.Name()
		if sc.conn() == nil {
			conn += "(closed)"
		}
	}
	key := fmt.Sprintf("%v|q=%d|pend=%v|target=%s|ready=%v|A=%d|B=%d|phase=%T|conn=%s|joining=%s", r.log, n, m.pending, m.target, m.ready, len(r.backends["A"].writes), len(r.backends["B"].writes), r.player.phase(), conn, r.joining)
	return bfs.Outcome{Key: key, Obs: fmt.Sprint(r.log)}
}

func c24Enabled(mode string) func(h []c24Op, op c24Op) bool {
	return func(h []c24Op, op c24Op) bool {
		if !strings.HasPrefix(mode, "config") {
			joining, gone := false, false
			for _, o := range h {
				switch o {
				case "beginB":
					joining = true
				case "endB":
					joining, gone = false, false
				case "joinA", "joinB":
					gone = false
				case "backendgone":
					gone = true
				}
			}
			switch op {
			case "beginB", "joinA", "joinB":
				return !joining
			case "endB":
				return joining
			case "backendgone":
				return !joining && !gone
			}
			return true
		}
		target := "A"
		if mode == "config-none" {
			target = ""
		}
		ready := map[c24Op]bool{}
		for _, o := range h {
			if o == "switchB" {
				target = "B"
			}
			if o == "readyA" || o == "readyB" {
				ready[o] = true
			}
		}
		switch op {
		case "readyA":
			return target == "A" && !ready["readyA"]
		case "readyB":
			return target == "B" && !ready["readyB"]
		case "switchB":
			return target != "B"
		}
		return true
	}
}

// ---------------------------------------------------------------------------------------------
// Caps: exact boundaries of the 1024-message / 4 MiB limits.

type c24CapCase struct {
	Mode string `json:"mode"`
	Name string `json:"name"`
	// Rounds > 1: the buffer is filled (Sizes/Count, which must stay within the caps), drained by the backend
	// becoming ready, and filled again for a NEW not-yet-ready backend - the caps apply to what is buffered,
	// not to what ever passed through the buffer
	Rounds int   `json:"rounds,omitempty"`
	Sizes  []int `json:"sizes,omitempty"` // explicit message sizes
	Count  int   `json:"count,omitempty"` // or: Count messages of 2 bytes
	// expectation from the statement
	WantDisconnectAt int `json:"want_disconnect_at"` // 1-based index of the message that must disconnect; 0 = none
}

func c24CapCases() []c24CapCase {
	const MiB = 1 << 20
	var out []c24CapCase
	for _, mode := range []string{"config", "play"} {
		for _, n := range []int{1, 1023, 1024} {
			out = append(out, c24CapCase{Mode: mode, Name: fmt.Sprintf("count-%d", n), Count: n})
		}
		out = append(out, c24CapCase{Mode: mode, Name: "count-1025", Count: 1025, WantDisconnectAt: 1025})
		out = append(out, c24CapCase{Mode: mode, Name: "count-1030", Count: 1030, WantDisconnectAt: 1025})
		out = append(out,
			c24CapCase{Mode: mode, Name: "bytes-4x1MiB", Sizes: []int{MiB, MiB, MiB, MiB}},
			c24CapCase{Mode: mode, Name: "bytes-4x1MiB+2", Sizes: []int{MiB, MiB, MiB, MiB, 2}, WantDisconnectAt: 5},
			c24CapCase{Mode: mode, Name: "bytes-5x1MiB", Sizes: []int{MiB, MiB, MiB, MiB, MiB}, WantDisconnectAt: 5},
			c24CapCase{Mode: mode, Name: "bytes-one-4MiB", Sizes: []int{4 * MiB}},
			c24CapCase{Mode: mode, Name: "bytes-one-4MiB+1", Sizes: []int{4*MiB + 1}, WantDisconnectAt: 1},
			c24CapCase{Mode: mode, Name: "bytes-4MiB-2+2", Sizes: []int{4*MiB - 2, 2}},
			c24CapCase{Mode: mode, Name: "bytes-4MiB-2+3", Sizes: []int{4*MiB - 2, 3}, WantDisconnectAt: 2},
			c24CapCase{Mode: mode, Name: "2-rounds-count-1024", Count: 1024, Rounds: 2},
			c24CapCase{Mode: mode, Name: "2-rounds-one-4MiB", Sizes: []int{4 * MiB}, Rounds: 2},
			c24CapCase{Mode: mode, Name: "3-rounds-3MiB", Sizes: []int{MiB, 2 * MiB}, Rounds: 3},
		)
	}
	return out
}

func c24RunCap(c c24CapCase) (kind, desc string) {
	r := c24NewRig(c.Mode)
	if c.Mode == "play" {
		r.player.SendLegacyForgeHandshakeResetPacket() // handshake incomplete: messages are held back
	}
	sizes := c.Sizes
	if sizes == nil {
		for i := 0; i < c.Count; i++ {
			sizes = append(sizes, 2)
		}
	}
	if c.Rounds > 1 {
		return c24RunCapRounds(c, r, sizes)
	}
	disconnectedAt := 0
	for i, sz := range sizes {
		r.sendIndexed(c24Chan, sz)
		n, b := r.queueLen()
		if n > maxQueuedLoginPluginMessages || b > maxQueuedLoginPluginMessageBytes {
			return "unbounded", fmt.Sprintf("%s: after message %d the buffer holds %d messages / %d bytes", c.Name, i+1, n, b)
		}
		if disconnectedAt == 0 && r.disconnected() {
			disconnectedAt = i + 1
		}
		if len(r.log) != 0 {
			return "delivered-before-ready", fmt.Sprintf("%s: message delivered before the backend was ready: %v", c.Name, r.log)
		}
	}
	if disconnectedAt != c.WantDisconnectAt {
		return "cap-boundary", fmt.Sprintf("%s: player disconnected at message %d, the caps (1024 messages, 4 MiB) demand %d (0 = never)", c.Name, disconnectedAt, c.WantDisconnectAt)
	}
	if c.WantDisconnectAt == 0 {
		// everything must come out once, in order, when the backend becomes ready
		var err error
		if c.Mode == "config" {
			err = r.cfg.flushQueuedPluginMessagesTo(r.scs["A"])
		} else {
			err = r.join("B")
		}
		if err != nil {
			return "error", fmt.Sprintf("%s: %v", c.Name, err)
		}
		if len(r.log) != len(sizes) {
			return "lost", fmt.Sprintf("%s: %d messages buffered, %d delivered when the backend became ready", c.Name, len(sizes), len(r.log))
		}
		for i, d := range r.log {
			if d.idx != i+1 {
				return "overtaken", fmt.Sprintf("%s: delivery %d is message #%d", c.Name, i, d.idx)
			}
		}
		if n, b := r.queueLen(); n != 0 || b != 0 {
			return "not-drained", fmt.Sprintf("%s: after the flush the buffer still accounts %d messages / %d bytes", c.Name, n, b)
		}
	} else {
		// "instead of buffering further": nothing may be accepted into the buffer after the overflow
		r.sendIndexed(c24Chan, 2)
		if n, _ := r.queueLen(); n != 0 {
			return "buffers-after-overflow", fmt.Sprintf("%s: %d message(s) buffered after the overflow disconnect", c.Name, n)
		}
	}
	return "", ""
}

// c24RunCapRounds: fill - drain - fill again. Config: the target becomes ready, then a fresh connection to
// the other server is in flight; play: JoinGame of the next server, then a new handshake reset.
func c24RunCapRounds(c c24CapCase, r *c24Rig, sizes []int) (kind, desc string) {
	total := 0
	target := "A"
	for round := 1; round <= c.Rounds; round++ {
		if round > 1 {
			target = map[string]string{"A": "B", "B": "A"}[target]
			if c.Mode == "config" {
				r.newBackend(target, state.Config)
				r.setInFlight(target)
			} else {
				r.player.SendLegacyForgeHandshakeResetPacket()
			}
		}
		for i, sz := range sizes {
			r.sendIndexed(c24Chan, sz)
			if r.disconnected() {
				return "cap-boundary", fmt.Sprintf("%s: round %d: player disconnected at message %d although the buffer held only this round's %d messages (within the caps); the earlier rounds were drained", c.Name, round, i+1, len(sizes))
			}
		}
		var err error
		if c.Mode == "config" {
			err = r.cfg.flushQueuedPluginMessagesTo(r.scs[target])
		} else {
			err = r.join(map[string]string{"A": "B", "B": "A"}[target])
		}
		if err != nil {
			return "error", fmt.Sprintf("%s: round %d: %v", c.Name, round, err)
		}
		total += len(sizes)
		if len(r.log) != total {
			return "lost", fmt.Sprintf("%s: round %d: %d messages sent so far, %d delivered", c.Name, round, total, len(r.log))
		}
		if n, b := r.queueLen(); n != 0 || b != 0 {
			return "not-drained", fmt.Sprintf("%s: round %d: after the flush the buffer still accounts %d messages / %d bytes", c.Name, round, n, b)
		}
	}
	if kind, desc := c24CheckLog(r.log, r.sent, nil); kind != "" {
		return kind, c.Name + ": " + desc
	}
	return "", ""
}

// ---------------------------------------------------------------------------------------------

type c24Replay struct {
	Kind    string      `json:"kind"` // history | cap
	Mode    string      `json:"mode"`
	History []c24Op     `json:"history,omitempty"`
	Cap     *c24CapCase `json:"cap,omitempty"`
}

func TestVerif(t *testing.T) {
	vrt.Run(t, "C24", func(r *vrt.R) {
		var rp c24Replay
		if r.ReplayInto(&rp) {
			switch rp.Kind {
			case "":
				c24SchedRun(r) // a recorded schedule (sched.ReplayData)
			case "cap":
				if kind, desc := c24RunCap(*rp.Cap); kind != "" {
					r.Violation(rp.Cap.Mode+"/"+kind, desc, rp)
				}
			default:
				if out := c24Run(rp.Mode, rp.History); out.FailKey != "" {
					r.Violation(out.FailKey, out.FailDesc, rp)
				}
			}
			return
		}
		depth := map[string]int{"config": 6, "config-current": 5, "config-none": 5, "play": 5}
		if r.Thorough() {
			depth = map[string]int{"config": 8, "config-current": 7, "config-none": 7, "play": 7}
		}
		for _, mode := range []string{"config", "config-current", "config-none", "play"} {
			mode := mode
			ops := c24ConfigOps()
			if mode == "play" {
				ops = c24PlayOps()
			}
			res := bfs.Explore(bfs.Config[c24Op]{Name: mode, Ops: ops, Depth: depth[mode], Shard: r.Shard, NShards: r.NShards, Deadline: r.DeadlineTime(),
				Enabled: c24Enabled(mode),
				Run:     func(h []c24Op) bfs.Outcome { return c24Run(mode, h) }})
			for k, f := range res.Failures {
				r.Violation(k, f.Desc, c24Replay{Kind: "history", Mode: mode, History: f.History})
			}
			res.Failures = nil
			res.Merge(r, "history:"+mode)
		}
		for i, c := range c24CapCases() {
			if !r.Mine(i) {
				continue
			}
			c := c
			r.Eval(1)
			r.Class("cap:" + c.Mode)
			r.Distinct("cap|" + c.Mode + "|" + c.Name)
			if kind, desc := c24RunCap(c); kind != "" {
				r.Violation(c.Mode+"/"+kind, desc, c24Replay{Kind: "cap", Mode: c.Mode, Cap: &c})
			}
		}
		c24SchedRun(r)
	})
}
