package gate

// C35 — live config apply is atomic, validated and CAS-versioned. Shared helpers: a Gate built
// in-package around a real jproxy.Proxy (fake authenticator: no RSA key generation), the
// candidate alphabet, and the reference model (a register holding one configuration content
// plus its version identity), written from the property statement.

import (
	"context"
	"encoding/json"
	"errors"
	"fmt"
	"time"

	"go.minekube.com/gate/pkg/edition/java/auth"
	liteconfig "go.minekube.com/gate/pkg/edition/java/lite/config"
	jproxy "go.minekube.com/gate/pkg/edition/java/proxy"
	"go.minekube.com/gate/pkg/gate/config"
	"go.minekube.com/gate/pkg/util/configutil"
)

type fakeAuth struct{}

func (fakeAuth) PublicKey() []byte                            { return []byte{1} }
func (fakeAuth) Verify(a, b []byte) (bool, error)             { return false, errors.New("fake") }
func (fakeAuth) DecryptSharedSecret(b []byte) ([]byte, error) { return nil, errors.New("fake") }
func (fakeAuth) GenerateServerID(b []byte) (string, error)    { return "", errors.New("fake") }
func (fakeAuth) SetHasJoinedURLFn(fn auth.HasJoinedURLFn)     {}
func (fakeAuth) AuthenticateJoin(context.Context, string, string, string) (auth.Response, error) {
	return nil, errors.New("fake")
}

func route(host, backend string, ttl time.Duration) liteconfig.Route {
	return liteconfig.Route{Host: []string{host}, Backend: []string{backend}, CachePingTTL: configutil.Duration(ttl)}
}

var initialProto *config.Config

func initialConfig() *config.Config {
	if initialProto != nil {
		return freshCopy(initialProto)
	}
	c := config.DefaultConfig
	c.Config.Status.Favicon = "data:image/png;base64,AAAA" // instead of 5 KB of base64 in every JSON encode
	c.Config.Bind = "127.0.0.1:25565"
	c.Config.Lite.Enabled = true
	c.Config.Lite.Routes = []liteconfig.Route{route("play.example.test", "backend.example.test:25565", 30*time.Second)}
	initialProto = cloneCfg(&c)
	return freshCopy(initialProto)
}

var contentCache = map[string]string{}

// contentOf returns the JSON content of a candidate kind ("" = the initial configuration).
func contentOf(kind string) string {
	if c, ok := contentCache[kind]; ok {
		return c
	}
	var c string
	if kind == "" {
		c = content(initialConfig())
	} else {
		c = content(buildCandidate(kind))
	}
	contentCache[kind] = c
	return c
}

func cloneCfg(c *config.Config) *config.Config {
	b, err := json.Marshal(c)
	if err != nil {
		panic(err)
	}
	var out config.Config
	if err := json.Unmarshal(b, &out); err != nil {
		panic(err)
	}
	return &out
}

// freshCopy copies the struct by value and gives it its own route slices (the only parts the
// harness or the code under test ever write to); immutable parts (motd, maps never written) are
// shared with the prototype. Much cheaper than a JSON round trip per operation.
func freshCopy(p *config.Config) *config.Config {
	c := *p
	if p.Config.Lite.Routes != nil {
		rs := make([]liteconfig.Route, len(p.Config.Lite.Routes))
		for i, r := range p.Config.Lite.Routes {
			rs[i] = r
			rs[i].Host = append([]string(nil), r.Host...)
			rs[i].Backend = append([]string(nil), r.Backend...)
		}
		c.Config.Lite.Routes = rs
	}
	return &c
}

func content(c *config.Config) string {
	b, err := json.Marshal(c)
	if err != nil {
		return "<unmarshalable " + err.Error() + ">"
	}
	return string(b)
}

func routesOf(c any) string {
	b, _ := json.Marshal(c)
	return string(b)
}

// candidate kinds. The attributes valid / routeOnly are facts of how the candidate is BUILT.
const (
	cSame     = "same"           // content identical to the initial configuration (fresh object)
	cR1       = "routes-1"       // valid, only lite.routes differ
	cR2       = "routes-2"       // valid, only lite.routes differ (two routes)
	cInvalidR = "invalid-routes" // only routes differ, but a route has no backend
	cInvalidS = "bad-strategy"   // only routes differ, unknown strategy
	cBind     = "bind-changed"   // valid, a non-route field differs
	cBindR1   = "bind+routes-1"  // valid, routes and a non-route field differ
	cBadBind  = "invalid-bind"   // non-route field differs and is invalid
	cLiteOff  = "lite-disabled"  // valid classic config: lite switched off
	cNil      = "nil"
	// a change in each OTHER part of the configuration (valid; one with routes changed as well)
	cAPI      = "api-enabled"  // top-level api section
	cHealth   = "health-bind"  // top-level healthService section
	cConnect  = "connect-name" // top-level connect section
	cNoReload = "noAutoReload" // top-level scalar
	cQuota    = "quota-burst"  // nested java setting
	cAPIR1    = "api-enabled+routes-1"
)

var candidateKinds = []string{cSame, cR1, cR2, cInvalidR, cInvalidS, cBind, cBindR1, cBadBind, cLiteOff, cNil, cAPI, cHealth, cConnect, cNoReload, cQuota, cAPIR1}

type candInfo struct {
	valid     bool
	routeOnly bool // differs from the INITIAL config at most in lite.routes (all accepted states share the rest)
}

var candFacts = map[string]candInfo{
	cSame: {true, true}, cR1: {true, true}, cR2: {true, true},
	cInvalidR: {false, true}, cInvalidS: {false, true},
	cBind: {true, false}, cBindR1: {true, false}, cBadBind: {false, false}, cLiteOff: {true, false},
	cAPI: {true, false}, cHealth: {true, false}, cConnect: {true, false}, cNoReload: {true, false}, cQuota: {true, false}, cAPIR1: {true, false},
}

func buildCandidate(kind string) *config.Config {
	if kind == cNil {
		return nil
	}
	c := initialConfig()
	r1 := []liteconfig.Route{route("play.example.test", "backend-1.example.test:25565", time.Minute)}
	switch kind {
	case cR1:
		c.Config.Lite.Routes = r1
	case cR2:
		c.Config.Lite.Routes = []liteconfig.Route{route("play.example.test", "backend-2.example.test:25565", 0), route("*.example.test", "10.0.0.2:25565", 0)}
	case cInvalidR:
		c.Config.Lite.Routes = []liteconfig.Route{{Host: []string{"play.example.test"}}}
	case cInvalidS:
		c.Config.Lite.Routes = r1
		c.Config.Lite.Routes[0].Strategy = "not-a-strategy"
	case cBind:
		c.Config.Bind = "127.0.0.1:25566"
	case cBindR1:
		c.Config.Bind = "127.0.0.1:25566"
		c.Config.Lite.Routes = r1
	case cBadBind:
		c.Config.Bind = "no-port"
	case cAPI:
		c.API.Enabled = !c.API.Enabled
	case cHealth:
		c.HealthService.Bind = "127.0.0.1:9191"
	case cConnect:
		c.Connect.Name = "other-endpoint"
	case cNoReload:
		c.NoAutoReload = !c.NoAutoReload
	case cQuota:
		c.Config.Quota.Logins.Burst++
	case cAPIR1:
		c.API.Enabled = !c.API.Enabled
		c.Config.Lite.Routes = r1
	case cLiteOff:
		c.Config.Lite.Enabled = false
		c.Config.Servers = map[string]string{"s1": "localhost:25566"}
		c.Config.Try = []string{"s1"}
	}
	return c
}

func newGate() (*Gate, error) {
	cfg := initialConfig()
	g := &Gate{}
	g.currentConfig.Store(cfg)
	p, err := jproxy.New(jproxy.Options{Config: &cfg.Config, Authenticator: fakeAuth{}})
	if err != nil {
		return nil, err
	}
	g.javaProxy = p
	return g, nil
}

// ---- reference model: a register of configuration content with a version identity ----

type model struct {
	cur string // content of the published configuration
}

type outcome struct {
	Applied, Unchanged, CASFailed bool
}

// apply is the statement: only valid candidates that differ from the current configuration
// solely in Lite routes are applied; an identical candidate is a no-op; everything else is
// rejected and changes nothing. withVersion: a conditional apply whose expected version is not
// the current one does not succeed.
func (m *model) apply(kind string, withVersion, versionIsCurrent bool) outcome {
	if withVersion && !versionIsCurrent {
		return outcome{CASFailed: true}
	}
	if kind == cNil {
		return outcome{}
	}
	cc := contentOf(kind)
	if cc == m.cur {
		return outcome{Unchanged: true}
	}
	f := candFacts[kind]
	if !f.valid || !f.routeOnly {
		return outcome{}
	}
	m.cur = cc
	return outcome{Applied: true}
}

func (o outcome) String() string {
	switch {
	case o.Applied:
		return "applied"
	case o.Unchanged:
		return "unchanged"
	case o.CASFailed:
		return "cas-failed"
	}
	return "rejected"
}

// resultOutcome maps the real result to the statement's vocabulary. A conditional apply that
// neither applied nor reported unchanged and was given a non-current version counts as
// cas-failed; the reason code of a rejection is not part of the statement.
func resultOutcome(res LiveConfigResult, withVersion, versionIsCurrent bool) outcome {
	switch {
	case res.Applied:
		return outcome{Applied: true}
	case res.Unchanged:
		return outcome{Unchanged: true}
	case withVersion && !versionIsCurrent:
		return outcome{CASFailed: true}
	}
	return outcome{}
}

// versionBook checks "the version string changes exactly when the content changes": the
// relation content <-> version observed anywhere in one execution must be a bijection.
type versionBook struct {
	byContent map[string]string
	byVersion map[string]string
}

func newBook() *versionBook {
	return &versionBook{byContent: map[string]string{}, byVersion: map[string]string{}}
}

func (b *versionBook) see(content, version string) string {
	if version == "" {
		return "empty version string"
	}
	if v, ok := b.byContent[content]; ok && v != version {
		return fmt.Sprintf("same content has two versions %.12s / %.12s", v, version)
	}
	if c, ok := b.byVersion[version]; ok && c != content {
		return fmt.Sprintf("version %.12s names two different contents", version)
	}
	b.byContent[content] = version
	b.byVersion[version] = content
	return ""
}

func hashStr(s string) uint32 {
	var h uint32 = 2166136261
	for i := 0; i < len(s); i++ {
		h = (h ^ uint32(s[i])) * 16777619
	}
	return h
}
