package gate

// C35 pass "sched": 2-3 concurrent appliers and a snapshot reader under the controlled
// scheduler (pkg/gate and pkg/edition/java/proxy instrumented); every schedule within the
// preemption bound. Oracle: the recorded call/return history is linearizable with respect to
// the register+version model (brute force over all orders compatible with real time).

import (
	"context"
	"encoding/json"
	"fmt"
	"sort"
	"strings"
	"testing"

	"gopkg.in/yaml.v3"

	"go.minekube.com/gate/pkg/edition/java/proxy/zzverif/sched"
	"go.minekube.com/gate/pkg/edition/java/proxy/zzverif/schedrun"
	"go.minekube.com/gate/pkg/edition/java/proxy/zzverif/vrt"
	pb "go.minekube.com/gate/pkg/internal/api/gen/minekube/gate/v1"
)

// call is one completed operation of one thread.
type call struct {
	thread    string
	kind      string // apply | apply-if | snapshot
	cand      string
	ver       string // expected version given to apply-if
	call, ret int
	// results
	res      LiveConfigResult
	snap     string // snapshot: content
	snapVer  string
	proxyRts string // snapshot: proxy routes read lock-free just before ConfigSnapshot
	// api: the call went through ConfigHandlerImpl.ApplyConfig; the handler only tells success
	// (applied or unchanged) from failure
	api   bool
	apiOK bool
}

type rec struct {
	x     *sched.X
	clock int
	calls []*call
}

func (l *rec) tick() int { l.clock++; return l.clock }

func (l *rec) apply(g *Gate, thread, cand string) {
	c := &call{thread: thread, kind: "apply", cand: cand, call: l.tick()}
	c.res = g.ApplyLiveConfig(buildCandidate(cand))
	c.ret = l.tick()
	l.calls = append(l.calls, c)
}

func (l *rec) applyIf(g *Gate, thread, cand, ver string) {
	c := &call{thread: thread, kind: "apply-if", cand: cand, ver: ver, call: l.tick()}
	c.res = g.ApplyLiveConfigIfVersion(buildCandidate(cand), ver)
	c.ret = l.tick()
	l.calls = append(l.calls, c)
}

// apiApply runs the REAL API handler: a conditional apply of candidate `cand` (as an RFC 7396
// merge patch of its routes, or as a complete YAML payload) with if_match = ver.
func (l *rec) apiApply(h *ConfigHandlerImpl, thread, cand, ver string, fullPayload bool) {
	req := &pb.ApplyConfigRequest{IfMatch: ver}
	cfg := buildCandidate(cand)
	if fullPayload {
		b, err := yaml.Marshal(cfg)
		if err != nil {
			l.x.Fail("harness/api-payload", "%v", err)
			return
		}
		req.Input = &pb.ApplyConfigRequest_Config{Config: string(b)}
	} else {
		b, err := json.Marshal(map[string]any{"config": map[string]any{"lite": map[string]any{"routes": cfg.Config.Lite.Routes}}})
		if err != nil {
			l.x.Fail("harness/api-payload", "%v", err)
			return
		}
		req.Input = &pb.ApplyConfigRequest_MergePatch{MergePatch: string(b)}
	}
	c := &call{thread: thread, kind: "apply-if", cand: cand, ver: ver, api: true, call: l.tick()}
	resp, err := h.ApplyConfig(context.Background(), req)
	c.ret = l.tick()
	c.apiOK = err == nil
	if resp != nil {
		c.res.Version = resp.Version
	}
	l.calls = append(l.calls, c)
}

// apiVersion is GetConfig through the handler: the version a client would send as if_match.
func (l *rec) apiVersion(h *ConfigHandlerImpl) string {
	gc, err := h.GetConfig(context.Background(), &pb.GetConfigRequest{})
	if err != nil {
		l.x.Fail("GetConfig/error", "%v", err)
		return ""
	}
	return gc.Version
}

func (l *rec) snapshot(g *Gate, thread string) {
	c := &call{thread: thread, kind: "snapshot", call: l.tick()}
	pc := g.Java().Config()
	c.proxyRts = routesOf(pc.Lite.Routes)
	sched.Yield()
	snap, ver, err := g.ConfigSnapshot()
	c.ret = l.tick()
	if err != nil {
		l.x.Fail("ConfigSnapshot/error", "%v", err)
		return
	}
	c.snap, c.snapVer = content(snap), ver
	l.calls = append(l.calls, c)
}

// linearizable searches an order of the calls that respects real time (a.ret < b.call => a
// before b) and reproduces every result on the sequential model.
func linearizable(calls []*call, initial string, book *versionBook) (bool, string) {
	n := len(calls)
	used := make([]bool, n)
	var order []int
	// ver2content: versions whose content is known from snapshots, extended tentatively with the
	// versions successful applies returned (each must name the content published at that point)
	var try func(m model, known map[string]string) bool
	try = func(m model, known map[string]string) bool {
		if len(order) == n {
			return true
		}
		for i := 0; i < n; i++ {
			if used[i] {
				continue
			}
			ok := true
			for j := 0; j < n; j++ { // every call that returned before i was called must already be placed
				if !used[j] && j != i && calls[j].ret < calls[i].call {
					ok = false
					break
				}
			}
			if !ok {
				continue
			}
			c := calls[i]
			m2 := m
			k2 := known
			switch c.kind {
			case "snapshot":
				if c.snap != m2.cur {
					continue
				}
			default:
				withVer := c.kind == "apply-if"
				isCur := withVer && known[c.ver] == m2.cur
				want := m2.apply(c.cand, withVer, isCur)
				if c.api {
					if (want.Applied || want.Unchanged) != c.apiOK {
						continue
					}
				} else if resultOutcome(c.res, withVer, isCur) != want {
					continue
				}
				if (want.Applied || want.Unchanged) && c.res.Version != "" {
					if have, seen := known[c.res.Version]; seen && have != m2.cur {
						continue
					} else if !seen {
						dup := false
						for _, cont := range known {
							if cont == m2.cur {
								dup = true // that content already has another version
							}
						}
						if dup {
							continue
						}
						k2 = make(map[string]string, len(known)+1)
						for a, b := range known {
							k2[a] = b
						}
						k2[c.res.Version] = m2.cur
					}
				}
			}
			used[i] = true
			order = append(order, i)
			if try(m2, k2) {
				return true
			}
			order = order[:len(order)-1]
			used[i] = false
		}
		return false
	}
	if try(model{cur: initial}, book.byVersion) {
		names := make([]string, n)
		for k, i := range order {
			names[k] = describe(calls[i])
		}
		return true, strings.Join(names, " ; ")
	}
	return false, ""
}

func describe(c *call) string {
	switch c.kind {
	case "snapshot":
		return fmt.Sprintf("%s:snapshot->%x", c.thread, hashStr(c.snap))
	case "apply":
		return fmt.Sprintf("%s:apply(%s)->%s", c.thread, c.cand, resultWord(c.res))
	}
	if c.api {
		w := "refused"
		if c.apiOK {
			w = "ok"
		}
		return fmt.Sprintf("%s:api-apply-if(%s)->%s", c.thread, c.cand, w)
	}
	return fmt.Sprintf("%s:apply-if(%s)->%s", c.thread, c.cand, resultWord(c.res))
}

func resultWord(r LiveConfigResult) string {
	switch {
	case r.Applied:
		return "applied"
	case r.Unchanged:
		return "unchanged"
	}
	return "not-applied"
}

// finish is the end-of-execution oracle.
func (l *rec) finish(g *Gate, contents map[string]bool) {
	x := l.x
	initial := contentOf("")
	book := newBook()
	// version book from everything observed + a final snapshot
	fsnap, fver, err := g.ConfigSnapshot()
	if err != nil {
		x.Fail("ConfigSnapshot/error", "%v", err)
		return
	}
	if why := book.see(content(fsnap), fver); why != "" {
		x.Fail("version/not-a-function-of-content", "%s", why)
	}
	for _, c := range l.calls {
		if c.kind == "snapshot" {
			if why := book.see(c.snap, c.snapVer); why != "" {
				x.Fail("version/not-a-function-of-content", "%s", why)
			}
			if !contents[c.snap] {
				x.Fail("published-config/not-a-complete-candidate", "snapshot content is none of the complete candidates: %.300s", c.snap)
			}
			ok := false
			for k := range contents {
				if strings.Contains(k, strings.TrimSuffix(strings.TrimPrefix(c.proxyRts, "["), "]")) {
					ok = true
				}
			}
			if !ok {
				x.Fail("proxy-routes/not-a-complete-candidate", "proxy routes %s belong to no candidate", c.proxyRts)
			}
		}
	}
	// v0 is known to the threads as the version of the initial content
	book.see(initial, l.x.Value("v0", func() any { return "" }).(string))
	if !contents[content(fsnap)] {
		x.Fail("published-config/not-a-complete-candidate", "final content is none of the complete candidates")
	}
	if got, want := routesOf(g.Java().Config().Lite.Routes), routesOf(fsnap.Config.Lite.Routes); got != want {
		x.Fail("proxy-routes/differ-from-published-config", "at quiescence proxy routes %s, published %s", got, want)
	}
	// the final snapshot is one more read that happens after everything
	all := append([]*call{}, l.calls...)
	all = append(all, &call{thread: "end", kind: "snapshot", snap: content(fsnap), call: l.tick(), ret: l.tick()})
	ok, _ := linearizable(all, initial, book)
	if !ok {
		var ds []string
		for _, c := range all {
			ds = append(ds, fmt.Sprintf("[%d,%d]%s", c.call, c.ret, describe(c)))
		}
		x.Fail("history/not-linearizable", "no sequential order of the register+version model explains: %s", strings.Join(ds, " "))
		return
	}
	var outs []string
	for _, c := range l.calls {
		outs = append(outs, describe(c))
		if c.api {
			apiTally[describe(c)]++
		}
	}
	sort.Strings(outs)
	x.Outcome(strings.Join(outs, ",") + "=>" + fmt.Sprintf("%x", hashStr(content(fsnap))))
}

// apiTally counts, over all executions of this shard, how the calls through the real API handler
// ended (evidence that both "handler wins" and "handler loses" were explored).
var apiTally = map[string]int{}

func candidateContents(kinds ...string) map[string]bool {
	m := map[string]bool{contentOf(""): true}
	for _, k := range kinds {
		m[contentOf(k)] = true
	}
	return m
}

func setup(x *sched.X) (*Gate, *rec, string) {
	g, err := newGate()
	if err != nil {
		x.Fail("harness/new-gate", "%v", err)
		return nil, nil, ""
	}
	_, v0, err := g.ConfigSnapshot()
	if err != nil {
		x.Fail("ConfigSnapshot/error", "%v", err)
	}
	x.Value("v0", func() any { return v0 })
	return g, &rec{x: x}, v0
}

func TestVerif(t *testing.T) {
	vrt.Run(t, "C35", func(r *vrt.R) {
		defer func() {
			for k, n := range apiTally {
				r.ClassN("sched:"+k, n)
			}
		}()
		schedrun.Run(r, []schedrun.Scenario{
			{Name: "two-appliers-one-reader", Quick: 2, Thorough: 3, Body: func(x *sched.X) {
				g, l, _ := setup(x)
				if g == nil {
					return
				}
				x.Go("a1", func() { l.apply(g, "a1", cR1) })
				x.Go("a2", func() { l.apply(g, "a2", cR2) })
				x.Go("rd", func() { l.snapshot(g, "rd"); l.snapshot(g, "rd") })
				x.AtEnd(func() { l.finish(g, candidateContents(cR1, cR2)) })
			}},
			{Name: "two-cas-same-version-one-reader", Quick: 2, Thorough: 3, Body: func(x *sched.X) {
				g, l, v0 := setup(x)
				if g == nil {
					return
				}
				x.Go("c1", func() { l.applyIf(g, "c1", cR1, v0) })
				x.Go("c2", func() { l.applyIf(g, "c2", cR2, v0) })
				x.Go("rd", func() { l.snapshot(g, "rd") })
				x.AtEnd(func() {
					n := 0
					for _, c := range l.calls {
						if c.res.Applied {
							n++
						}
					}
					if n != 1 {
						x.Fail("apply-if/cas-winners", "%d of two conditional applies with the same expected version were applied, want exactly 1", n)
					}
					l.finish(g, candidateContents(cR1, cR2))
				})
			}},
			{Name: "cas-vs-plain-vs-invalid", Quick: 1, Thorough: 2, Body: func(x *sched.X) {
				g, l, v0 := setup(x)
				if g == nil {
					return
				}
				x.Go("c1", func() { l.applyIf(g, "c1", cR1, v0); l.applyIf(g, "c1", cSame, v0) })
				x.Go("a2", func() { l.apply(g, "a2", cR2) })
				x.Go("bad", func() { l.apply(g, "bad", cInvalidR); l.apply(g, "bad", cBindR1) })
				x.Go("rd", func() { l.snapshot(g, "rd") })
				x.AtEnd(func() { l.finish(g, candidateContents(cR1, cR2, cSame)) })
			}},
			{Name: "read-own-version-then-cas", Quick: 2, Thorough: 3, Body: func(x *sched.X) {
				g, l, _ := setup(x)
				if g == nil {
					return
				}
				// each client does what the API does: snapshot, then conditional apply with that version
				client := func(name, cand string) func() {
					return func() {
						_, v, err := g.ConfigSnapshot()
						if err != nil {
							x.Fail("ConfigSnapshot/error", "%v", err)
							return
						}
						l.applyIf(g, name, cand, v)
					}
				}
				x.Go("c1", client("c1", cR1))
				x.Go("c2", client("c2", cR2))
				x.Go("c3", client("c3", cSame))
				x.AtEnd(func() { l.finish(g, candidateContents(cR1, cR2, cSame)) })
			}},
			// The REAL API handler (ConfigHandlerImpl.ApplyConfig, if_match obtained through
			// GetConfig) against writers that do not go through the handler and therefore not
			// through its applyMu: the config-file watcher (Gate.ApplyLiveConfig) and a direct
			// conditional applier. The handler's compare and its swap must be one atomic step:
			// scheduling points lie between its ConfigSnapshot and its apply.
			{Name: "api-handler-vs-watcher", Quick: 2, Thorough: 3, Body: func(x *sched.X) {
				g, l, _ := setup(x)
				if g == nil {
					return
				}
				h := NewConfigHandler(g, "")
				v := l.apiVersion(h)
				x.Go("api", func() { l.apiApply(h, "api", cR1, v, false) })
				x.Go("watcher", func() { l.apply(g, "watcher", cR2) })
				x.AtEnd(func() { l.finish(g, candidateContents(cR1, cR2)) })
			}},
			{Name: "api-handler-vs-direct-cas", Quick: 2, Thorough: 3, Body: func(x *sched.X) {
				g, l, v0 := setup(x)
				if g == nil {
					return
				}
				h := NewConfigHandler(g, "")
				v := l.apiVersion(h)
				x.Go("api", func() { l.apiApply(h, "api", cR1, v, true) })
				x.Go("cas", func() { l.applyIf(g, "cas", cR2, v0) })
				x.AtEnd(func() {
					n := 0
					for _, c := range l.calls {
						if c.res.Applied || c.api && c.apiOK {
							n++
						}
					}
					if n != 1 {
						x.Fail("apply-if/cas-winners", "%d of two conditional applies (API handler, direct) with the same expected version succeeded, want exactly 1", n)
					}
					l.finish(g, candidateContents(cR1, cR2))
				})
			}},
			{Name: "api-handler-vs-api-handler", Quick: 1, Thorough: 2, Body: func(x *sched.X) {
				g, l, _ := setup(x)
				if g == nil {
					return
				}
				h := NewConfigHandler(g, "")
				x.Go("api1", func() { l.apiApply(h, "api1", cR1, l.apiVersion(h), false) })
				x.Go("api2", func() { l.apiApply(h, "api2", cR2, l.apiVersion(h), true) })
				x.AtEnd(func() { l.finish(g, candidateContents(cR1, cR2)) })
			}},
		})
	})
}
