package gate

// C35, part "api" of pass main — the OTHER entry points that reach the same state as
// Gate.ApplyLiveConfig[IfVersion]: the config API handler (ConfigHandlerImpl.ApplyConfig with a
// complete YAML payload or an RFC 7396 merge patch, if_match precondition, persist) and the file
// reload path (strict file image over the defaults -> Validate -> ApplyLiveConfig, mirroring the
// callback setupAutoConfigReload hands to reload.Watch). The candidates of these entry points are
// DECODED documents (nil collections where a document omits a member, defaults filled in by
// newConfigCandidate), not struct copies of the running configuration, and the Gate is built from
// a configuration loaded the way gate.Start loads it (LoadConfig over a file image).
//
// Model (from the statement): the published configuration is a register; only its Lite routes can
// ever change. A request succeeds only if (conditional) its expected version is the current one,
// its document decodes strictly, validates, and differs from the current configuration solely in
// Lite routes (or not at all); everything else fails and leaves configuration, version, proxy
// routes and the persisted file untouched.

import (
	"context"
	"encoding/json"
	"fmt"
	"os"
	"path/filepath"
	"strings"

	"github.com/spf13/viper"
	"gopkg.in/yaml.v3"

	liteconfig "go.minekube.com/gate/pkg/edition/java/lite/config"
	jproxy "go.minekube.com/gate/pkg/edition/java/proxy"
	"go.minekube.com/gate/pkg/edition/java/proxy/zzverif/bfs"
	"go.minekube.com/gate/pkg/edition/java/proxy/zzverif/vrt"
	"go.minekube.com/gate/pkg/gate/config"
	pb "go.minekube.com/gate/pkg/internal/api/gen/minekube/gate/v1"
)

// aop is one operation of the api part.
type aop struct {
	Src     string `json:"src"`  // cfg (complete payload) | patch (merge patch) | file (reload path) | noinput
	Kind    string `json:"kind"` // see apiKinds
	Ver     string `json:"ver"`  // if_match: current | stale | empty ("" for file: unconditional)
	Persist bool   `json:"persist,omitempty"`
}

func (o aop) String() string {
	p := ""
	if o.Persist {
		p = ",persist"
	}
	if o.Src == "file" {
		return fmt.Sprintf("file(%s)", o.Kind)
	}
	return fmt.Sprintf("api-%s(%s,if_match=%s%s)", o.Src, o.Kind, o.Ver, p)
}

const apiFileTemplate = "config:\n  bind: %s\n  lite:\n    enabled: true\n    routes:\n%s%s"

// route lists as a client would write them (YAML flow of a list item), keyed by kind
var apiRoutes = map[string]string{
	"r0":          "- host: play.example.test\n  backend: backend.example.test:25565\n  cachePingTTL: 30s\n",
	"r1":          "- host: play.example.test\n  backend: backend-1.example.test:25565\n  cachePingTTL: 1m0s\n",
	"r2":          "- host: play.example.test\n  backend: backend-2.example.test:25565\n- host: '*.example.test'\n  backend: [10.0.0.2:25565, 10.0.0.3:25565]\n  strategy: round-robin\n",
	// r0 with ONE more member of Route set (round-4 seed C35-4: a route comparison that skips a member makes the
	// proxy keep its old routes while the gate publishes the new ones) - every member of liteconfig.Route that
	// r0/r1/r2 do not already vary, and the deprecated realIP against its replacement
	"r0fbA":     "- host: play.example.test\n  backend: backend.example.test:25565\n  cachePingTTL: 30s\n  fallback:\n    version:\n      name: old\n      protocol: 1\n",
	"r0fbB":     "- host: play.example.test\n  backend: backend.example.test:25565\n  cachePingTTL: 30s\n  fallback:\n    version:\n      name: new\n      protocol: 1\n",
	"r0realip":  "- host: play.example.test\n  backend: backend.example.test:25565\n  cachePingTTL: 30s\n  realIP: true\n",
	"r0shield":  "- host: play.example.test\n  backend: backend.example.test:25565\n  cachePingTTL: 30s\n  tcpShieldRealIP: true\n",
	"r0pp":      "- host: play.example.test\n  backend: backend.example.test:25565\n  cachePingTTL: 30s\n  proxyProtocol: true\n",
	"r0mvh":     "- host: play.example.test\n  backend: backend.example.test:25565\n  cachePingTTL: 30s\n  modifyVirtualHost: true\n",
	"noBackend":   "- host: play.example.test\n",
	"badStrategy": "- host: play.example.test\n  backend: backend-1.example.test:25565\n  strategy: not-a-strategy\n",
}

type apiFact struct {
	routes    string // key into apiRoutes; "" = the routes are not touched
	bind      bool   // a non-route member (bind) is changed too
	unknown   bool   // the document carries an unknown member: must not decode
	garbage   bool   // not a document at all
	valid     bool
	routeOnly bool
}

var apiKinds = map[string]apiFact{
	"same":        {valid: true, routeOnly: true},
	"r0":          {routes: "r0", valid: true, routeOnly: true},
	"r1":          {routes: "r1", valid: true, routeOnly: true},
	"r2":          {routes: "r2", valid: true, routeOnly: true},
	"r0fbA":       {routes: "r0fbA", valid: true, routeOnly: true},
	"r0fbB":       {routes: "r0fbB", valid: true, routeOnly: true},
	"r0realip":    {routes: "r0realip", valid: true, routeOnly: true},
	"r0shield":    {routes: "r0shield", valid: true, routeOnly: true},
	"r0pp":        {routes: "r0pp", valid: true, routeOnly: true},
	"r0mvh":       {routes: "r0mvh", valid: true, routeOnly: true},
	"noBackend":   {routes: "noBackend", routeOnly: true},
	"badStrategy": {routes: "badStrategy", routeOnly: true},
	"bind":        {bind: true, valid: true},
	"bind+r1":     {routes: "r1", bind: true, valid: true},
	"unknown+r1":  {routes: "r1", unknown: true},
	"garbage":     {garbage: true},
}

// apiFieldKinds are applied through the handler (payload and patch) with the current version only
var apiFieldKinds = []string{"r0fbA", "r0fbB", "r0realip", "r0shield", "r0pp", "r0mvh"}

var apiKindOrder = []string{"same", "r0", "r1", "r2", "noBackend", "badStrategy", "bind", "bind+r1", "unknown+r1", "garbage"}

func indent(s, pad string) string {
	var sb strings.Builder
	for _, l := range strings.Split(strings.TrimRight(s, "\n"), "\n") {
		sb.WriteString(pad + l + "\n")
	}
	return sb.String()
}

func routesAny(key string) any {
	var v any
	if err := yaml.Unmarshal([]byte(apiRoutes[key]), &v); err != nil {
		panic(err)
	}
	return v
}

// expectedRoutes is the JSON rendering of the decoded route list (the same rendering the
// observer applies to the published routes).
func expectedRoutes(key string) string {
	var rs []liteconfig.Route
	if err := yaml.Unmarshal([]byte(apiRoutes[key]), &rs); err != nil {
		panic(err)
	}
	return routesOf(rs)
}

func apiOps(withFile bool) []aop {
	var ops []aop
	for _, src := range []string{"cfg", "patch"} {
		for _, k := range apiKindOrder {
			ops = append(ops, aop{Src: src, Kind: k, Ver: "current"})
		}
		// a precondition that does not hold: with a candidate that would otherwise be applied /
		// be a no-op / be rejected anyway
		for _, k := range []string{"r1", "r2", "same", "bind"} {
			ops = append(ops, aop{Src: src, Kind: k, Ver: "stale"}, aop{Src: src, Kind: k, Ver: "empty"})
		}
		for _, k := range apiFieldKinds {
			ops = append(ops, aop{Src: src, Kind: k, Ver: "current"})
		}
	}
	ops = append(ops, aop{Src: "patch", Kind: "r1", Ver: "current", Persist: true}, aop{Src: "cfg", Kind: "bind+r1", Ver: "current", Persist: true},
		aop{Src: "patch", Kind: "noBackend", Ver: "current", Persist: true}, aop{Src: "cfg", Kind: "r2", Ver: "stale", Persist: true})
	ops = append(ops, aop{Src: "noinput", Kind: "same", Ver: "current"})
	if withFile {
		for _, k := range apiKindOrder {
			ops = append(ops, aop{Src: "file", Kind: k})
		}
		ops = append(ops, aop{Src: "file", Kind: "missing-file"})
	}
	return ops
}

var apiDir string

var startupProto *config.Config

// startupConfig loads the template file the way gate.Start does (LoadConfig over Viper); later
// calls hand out a copy with its own route slices (nothing else is ever written; a JSON/YAML
// clone would normalise exactly the nil-vs-empty differences this part is about).
func startupConfig() (*config.Config, error) {
	if startupProto != nil {
		return freshCopy(startupProto), nil
	}
	c, err := loadStartupConfig()
	if err != nil {
		return nil, err
	}
	startupProto = c
	return freshCopy(startupProto), nil
}

func loadStartupConfig() (*config.Config, error) {
	path := filepath.Join(apiDir, "startup.yml")
	if err := os.WriteFile(path, []byte(fmt.Sprintf(apiFileTemplate, "127.0.0.1:25565", indent(apiRoutes["r0"], "      "), "")), 0o600); err != nil {
		return nil, err
	}
	v := viper.New()
	v.SetConfigFile(path)
	return LoadConfig(v)
}

func newGateFrom(cfg *config.Config) (*Gate, error) {
	g := &Gate{}
	g.currentConfig.Store(cfg)
	p, err := jproxy.New(jproxy.Options{Config: &cfg.Config, Authenticator: fakeAuth{}})
	if err != nil {
		return nil, err
	}
	g.javaProxy = p
	return g, nil
}

// withoutRoutes is the JSON content of everything but the Lite routes.
func withoutRoutes(c *config.Config) string {
	cc := *c
	cc.Config.Lite.Routes = nil
	return content(&cc)
}

func runAPI(flavour string, h []aop) bfs.Outcome {
	var g *Gate
	var err error
	switch flavour {
	case "api-startup":
		var cfg *config.Config
		if cfg, err = startupConfig(); err == nil {
			g, err = newGateFrom(cfg)
		}
	default:
		g, err = newGate()
	}
	if err != nil {
		return fail("harness/new-gate", "%v", err)
	}
	persistPath := filepath.Join(apiDir, "persist.yml")
	const sentinel = "sentinel: not yet persisted\n"
	if err := os.WriteFile(persistPath, []byte(sentinel), 0o600); err != nil {
		return fail("harness/persist-file", "%v", err)
	}
	handler := NewConfigHandler(g, persistPath)
	ctx := context.Background()

	snap0, v0, err := g.ConfigSnapshot()
	if err != nil {
		return fail("ConfigSnapshot/error", "initial: %v", err)
	}
	rest0 := withoutRoutes(snap0)
	cur := routesOf(snap0.Config.Lite.Routes) // model register: the published routes
	if cur != expectedRoutes("r0") {
		return fail("harness/initial-routes", "initial routes %s, expected %s", cur, expectedRoutes("r0"))
	}
	book := newBook()
	curVer, staleVer := v0, ""

	observe := func(where string, withGetConfig bool) *bfs.Outcome {
		snap, ver, err := g.ConfigSnapshot()
		if err != nil {
			o := fail("ConfigSnapshot/error", "%s: %v", where, err)
			return &o
		}
		if got := routesOf(snap.Config.Lite.Routes); got != cur {
			o := fail("published-config/differs-from-model", "%s: published routes are not those of the last accepted candidate\n got  %.300s\n want %.300s", where, got, cur)
			return &o
		}
		if got := withoutRoutes(snap); got != rest0 {
			o := fail("published-config/non-route-setting-changed", "%s: a setting outside lite.routes changed\n got  %.400s\n want %.400s", where, got, rest0)
			return &o
		}
		if why := book.see(content(snap), ver); why != "" {
			o := fail("version/not-a-function-of-content", "%s: %s", where, why)
			return &o
		}
		if got := routesOf(g.Java().Config().Lite.Routes); got != cur {
			o := fail("proxy-routes/differ-from-published-config", "%s: proxy routes %s, published %s", where, got, cur)
			return &o
		}
		if withGetConfig { // only after the last operation of a history (every prefix is a history of its own)
			gc, err := handler.GetConfig(ctx, &pb.GetConfigRequest{})
			if err != nil {
				o := fail("GetConfig/error", "%s: %v", where, err)
				return &o
			}
			if gc.Version != ver {
				o := fail("GetConfig/version-differs-from-snapshot", "%s: GetConfig version %.12s, ConfigSnapshot version %.12s", where, gc.Version, ver)
				return &o
			}
		}
		if ver != curVer {
			staleVer, curVer = curVer, ver
		}
		return nil
	}
	if o := observe("initial", false); o != nil {
		return *o
	}

	for i, o := range h {
		where := fmt.Sprintf("op %d %v", i, o)
		f, known := apiKinds[o.Kind]
		if !known && o.Kind != "missing-file" {
			return fail("harness/unknown-kind", "%s", o.Kind)
		}
		conditional := o.Src != "file"
		ver, isCur := "", false
		switch o.Ver {
		case "current":
			ver, isCur = curVer, true
		case "stale":
			ver = staleVer
			if ver == "" {
				ver = strings.Repeat("0", 64)
			}
		}
		// ---- the statement's verdict ----
		want := outcome{}
		newCur := cur
		switch {
		case conditional && !isCur:
			want = outcome{CASFailed: true}
		case o.Src == "noinput", o.Kind == "missing-file", f.garbage, f.unknown:
			// nothing that decodes strictly as a configuration: rejected
		case !f.bind && (f.routes == "" || expectedRoutes(f.routes) == cur):
			want = outcome{Unchanged: true}
		case f.valid && f.routeOnly:
			want = outcome{Applied: true}
			newCur = expectedRoutes(f.routes)
		}
		// ---- build the document ----
		bind := "127.0.0.1:25565"
		if f.bind {
			bind = "127.0.0.1:25566"
		}
		persistBefore, _ := os.ReadFile(persistPath)
		var ok bool
		var respVersion string
		var callErr error
		if pk, pv := vrt.Catch(func() {
			switch o.Src {
			case "file":
				path := filepath.Join(apiDir, "reload.yml")
				switch {
				case o.Kind == "missing-file":
					_ = os.Remove(path)
				case f.garbage:
					_ = os.WriteFile(path, []byte(":\n\t- {"), 0o600)
				default:
					rk := f.routes
					if rk == "" { // routes untouched: whatever is published now, as a client would leave it
						rk = "r0"
						for k := range apiRoutes {
							if expectedRoutes(k) == cur {
								rk = k
							}
						}
					}
					extra := ""
					if f.unknown {
						extra = "  zzVerifUnknown: true\n"
					}
					_ = os.WriteFile(path, []byte(fmt.Sprintf(apiFileTemplate, bind, indent(apiRoutes[rk], "      "), extra)), 0o600)
				}
				// the body of the callback setupAutoConfigReload registers with reload.Watch
				cfg, err := loadLiveConfigCandidate(viper.New(), path)
				if err != nil {
					callErr = err
					return
				}
				if _, errs := cfg.Validate(); len(errs) != 0 {
					callErr = fmt.Errorf("invalid")
					return
				}
				res := g.ApplyLiveConfig(cfg)
				ok = res.Code == "applied" || res.Code == "unchanged"
				if !ok {
					callErr = fmt.Errorf("%s", res.Code)
				}
				respVersion = res.Version
			default:
				req := &pb.ApplyConfigRequest{IfMatch: ver, Persist: o.Persist}
				switch o.Src {
				case "cfg":
					payload := "{{{ not yaml"
					if !f.garbage {
						gc, err := handler.GetConfig(ctx, &pb.GetConfigRequest{})
						if err != nil {
							callErr = err
							return
						}
						var doc map[string]any
						if err := yaml.Unmarshal([]byte(gc.Payload), &doc); err != nil {
							callErr = fmt.Errorf("harness: GetConfig payload is not YAML: %w", err)
							return
						}
						cfgDoc := doc["config"].(map[string]any)
						if f.routes != "" {
							cfgDoc["lite"].(map[string]any)["routes"] = routesAny(f.routes)
						}
						if f.bind {
							cfgDoc["bind"] = bind
						}
						if f.unknown {
							cfgDoc["zzVerifUnknown"] = true
						}
						b, err := yaml.Marshal(doc)
						if err != nil {
							callErr = err
							return
						}
						payload = string(b)
					}
					req.Input = &pb.ApplyConfigRequest_Config{Config: payload}
				case "patch":
					patch := `{"config":`
					if !f.garbage {
						cfgPatch := map[string]any{}
						if f.routes != "" {
							cfgPatch["lite"] = map[string]any{"routes": routesAny(f.routes)}
						}
						if f.bind {
							cfgPatch["bind"] = bind
						}
						if f.unknown {
							cfgPatch["zzVerifUnknown"] = true
						}
						b, err := json.Marshal(map[string]any{"config": cfgPatch})
						if err != nil {
							callErr = err
							return
						}
						patch = string(b)
					}
					req.Input = &pb.ApplyConfigRequest_MergePatch{MergePatch: patch}
				}
				resp, err := handler.ApplyConfig(ctx, req)
				callErr = err
				ok = err == nil
				if resp != nil {
					respVersion = resp.Version
				}
			}
		}); pk {
			return fail("apply/panic", "%s: panic %v", where, pv)
		}
		// ---- compare ----
		wantOK := want.Applied || want.Unchanged
		if ok != wantOK {
			key := "api/outcome-differs"
			switch {
			case ok && want.CASFailed:
				key = "api/succeeded-with-stale-version"
			case ok:
				key = "api/accepted-what-must-be-rejected"
			case want.Applied:
				key = "api/rejected-valid-route-only-candidate"
			case want.Unchanged:
				key = "api/rejected-unchanged-configuration"
			}
			if o.Src == "file" {
				key = "file" + strings.TrimPrefix(key, "api")
			}
			return fail(key, "%s: succeeded=%v (error: %v), statement says %v; published routes before: %.200s", where, ok, callErr, want, cur)
		}
		cur = newCur
		if !ok && o.Persist {
			if after, _ := os.ReadFile(persistPath); string(after) != string(persistBefore) {
				return fail("api/rejected-request-persisted", "%s: the request failed (%v) but the config file was rewritten", where, callErr)
			}
		}
		if ob := observe(where, i == len(h)-1); ob != nil {
			return *ob
		}
		if ok && respVersion != "" && respVersion != curVer {
			return fail("api/response-version-not-current", "%s: success reports version %.12s, the published configuration has %.12s", where, respVersion, curVer)
		}
	}
	staleRoutes := "none"
	if staleVer != "" {
		staleRoutes = fmt.Sprintf("%x", hashStr(book.byVersion[staleVer]))
	}
	return bfs.Outcome{Key: fmt.Sprintf("%x|%s", hashStr(cur), staleRoutes), Obs: fmt.Sprintf("%x", hashStr(cur))}
}

func apiPart(r *vrt.R, tmp string) {
	apiDir = tmp
	type plan struct {
		name  string
		depth int
		file  bool
	}
	plans := []plan{{"api-startup", 3, true}, {"api-struct", 2, false}}
	if r.Thorough() {
		plans = []plan{{"api-startup", 4, true}, {"api-struct", 3, false}}
	}
	for _, p := range plans {
		p := p
		res := bfs.Explore(bfs.Config[aop]{Name: p.name, Ops: apiOps(p.file), Depth: p.depth,
			Shard: r.Shard, NShards: r.NShards, Deadline: r.DeadlineTime(),
			Run: func(h []aop) bfs.Outcome { return runAPI(p.name, h) }})
		res.Merge(r, p.name)
	}
}

func replayAPI(r *vrt.R, tmp string) {
	apiDir = tmp
	var rp bfs.ReplayData[aop]
	r.ReplayInto(&rp)
	r.Eval(1)
	if out := runAPI(rp.Scenario, rp.History); out.FailKey != "" {
		r.Violation(rp.Scenario+"/"+out.FailKey, out.FailDesc, rp)
	}
}
