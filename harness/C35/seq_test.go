package gate

import (
	"fmt"
	"strings"
	"testing"

	"go.minekube.com/gate/pkg/edition/java/proxy/zzverif/bfs"
	"go.minekube.com/gate/pkg/edition/java/proxy/zzverif/vrt"
	"go.minekube.com/gate/pkg/gate/config"
)

// sop is one sequential operation.
type sop struct {
	Op   string `json:"op"`   // apply | apply-if | mutate-last-candidate | snapshot-scribble
	Cand string `json:"cand"` // candidate kind
	Ver  string `json:"ver"`  // for apply-if: current | stale | garbage | empty
}

func (o sop) String() string {
	if o.Op == "apply-if" {
		return fmt.Sprintf("apply-if(%s,%s)", o.Cand, o.Ver)
	}
	if o.Op == "apply" {
		return fmt.Sprintf("apply(%s)", o.Cand)
	}
	return o.Op
}

func seqOps() []sop {
	var ops []sop
	for _, k := range candidateKinds {
		ops = append(ops, sop{"apply", k, ""})
	}
	for _, k := range candidateKinds {
		for _, v := range []string{"current", "stale", "garbage", "empty"} {
			ops = append(ops, sop{"apply-if", k, v})
		}
	}
	return append(ops, sop{"mutate-last-candidate", "", ""}, sop{"snapshot-scribble", "", ""})
}

func fail(key, f string, a ...any) bfs.Outcome {
	return bfs.Outcome{FailKey: key, FailDesc: fmt.Sprintf(f, a...)}
}

func runSeq(h []sop) bfs.Outcome {
	g, err := newGate()
	if err != nil {
		return fail("harness/new-gate", "%v", err)
	}
	m := &model{cur: content(initialConfig())}
	book := newBook()
	_, v0, err := g.ConfigSnapshot()
	if err != nil {
		return fail("ConfigSnapshot/error", "initial snapshot: %v", err)
	}
	staleVer := "" // version of the previously published content ("" = none yet)
	curVer := v0
	var lastCand *config.Config

	// observe checks every read-side view against the model
	observe := func(where string) *bfs.Outcome {
		snap, ver, err := g.ConfigSnapshot()
		if err != nil {
			o := fail("ConfigSnapshot/error", "%s: %v", where, err)
			return &o
		}
		if c := content(snap); c != m.cur {
			o := fail("published-config/differs-from-model", "%s: ConfigSnapshot content is not the last accepted candidate\n got  %.300s\n want %.300s", where, c, m.cur)
			return &o
		}
		if why := book.see(content(snap), ver); why != "" {
			o := fail("version/not-a-function-of-content", "%s: %s", where, why)
			return &o
		}
		pc := g.Java().Config()
		if got, want := routesOf(pc.Lite.Routes), routesOf(snap.Config.Lite.Routes); got != want {
			o := fail("proxy-routes/differ-from-published-config", "%s: proxy routes %s, published %s", where, got, want)
			return &o
		}
		if ver != curVer {
			staleVer, curVer = curVer, ver
		}
		return nil
	}
	if o := observe("initial"); o != nil {
		return *o
	}
	for i, o := range h {
		where := fmt.Sprintf("op %d %v", i, o)
		switch o.Op {
		case "apply", "apply-if":
			cand := buildCandidate(o.Cand)
			withVer := o.Op == "apply-if"
			ver, isCur := "", false
			if withVer {
				switch o.Ver {
				case "current":
					ver, isCur = curVer, true
				case "stale":
					ver = staleVer
					if ver == "" {
						ver = "0000000000000000000000000000000000000000000000000000000000000000"
					}
				case "garbage":
					ver = curVer[:len(curVer)-1] + "x"
				case "empty":
					ver = ""
				}
			}
			before := m.cur
			want := m.apply(o.Cand, withVer, isCur)
			var res LiveConfigResult
			if pk, pv := vrt.Catch(func() {
				if withVer {
					res = g.ApplyLiveConfigIfVersion(cand, ver)
				} else {
					res = g.ApplyLiveConfig(cand)
				}
			}); pk {
				return fail("apply/panic", "%s: panic %v", where, pv)
			}
			got := resultOutcome(res, withVer, isCur)
			if got != want {
				key := "apply/outcome-differs"
				switch {
				case got.Applied && !want.Applied:
					key = "apply/applied-what-must-be-rejected"
					if want.CASFailed {
						key = "apply-if/succeeded-with-stale-version"
					}
				case want.Applied:
					key = "apply/rejected-valid-route-only-candidate"
				}
				return fail(key, "%s: result %+v (%v), statement says %v; content before: %.200s", where, res, got, want, before)
			}
			if got.Applied && cand != nil {
				lastCand = cand
			}
			if (got.Applied || got.Unchanged) && res.Version != "" {
				if why := book.see(m.cur, res.Version); why != "" {
					return fail("version/not-a-function-of-content", "%s: result version: %s", where, why)
				}
			}
			if got.CASFailed && res.Version != "" && res.Version != curVer {
				return fail("apply-if/reported-version-not-current", "%s: precondition failure reports version %.12s, current is %.12s", where, res.Version, curVer)
			}
		case "mutate-last-candidate":
			// the caller keeps (and later edits) the object it handed in: the published
			// configuration is a snapshot and must not move
			if lastCand != nil && len(lastCand.Config.Lite.Routes) > 0 {
				lastCand.Config.Lite.Routes[0].Host[0] = "mutated.example.test"
				lastCand.Config.Lite.Routes[0].Backend[0] = "mutated:1"
				lastCand.Config.Bind = "mutated:1"
			}
		case "snapshot-scribble":
			if snap, _, err := g.ConfigSnapshot(); err == nil {
				snap.Config.Bind = "scribbled:1"
				if len(snap.Config.Lite.Routes) > 0 {
					snap.Config.Lite.Routes[0].Backend[0] = "scribbled:1"
				}
			}
		}
		if o := observe(where); o != nil {
			return *o
		}
	}
	stale := "none"
	if staleVer != "" {
		stale = book.byVersion[staleVer]
	}
	return bfs.Outcome{Key: fmt.Sprintf("%x|%x|%v", hashStr(m.cur), hashStr(stale), lastCand != nil && content(lastCand) == m.cur), Obs: fmt.Sprintf("%x", hashStr(m.cur))}
}

func TestVerif(t *testing.T) {
	vrt.Run(t, "C35", func(r *vrt.R) {
		var peek struct {
			Scenario string `json:"scenario"`
		}
		if r.ReplayInto(&peek) && strings.HasPrefix(peek.Scenario, "api-") {
			replayAPI(r, t.TempDir())
			return
		}
		var rp bfs.ReplayData[sop]
		if r.ReplayInto(&rp) {
			r.Eval(1)
			if out := runSeq(rp.History); out.FailKey != "" {
				r.Violation(rp.Scenario+"/"+out.FailKey, out.FailDesc, rp)
			}
			return
		}
		// candidate facts are what the harness claims they are (guards the model's inputs)
		if r.Shard == 0 {
			init := initialConfig()
			for k, f := range candFacts {
				c := buildCandidate(k)
				_, errs := c.Validate()
				if (len(errs) == 0) != f.valid {
					r.Violation("harness/candidate-validity", fmt.Sprintf("candidate %s: Validate errs=%v, harness says valid=%v", k, errs, f.valid), nil)
				}
				a, b := cloneCfg(init), cloneCfg(c)
				a.Config.Lite.Routes, b.Config.Lite.Routes = nil, nil
				if (content(a) == content(b)) != f.routeOnly {
					r.Violation("harness/candidate-route-only", fmt.Sprintf("candidate %s: routeOnly=%v does not match its construction", k, f.routeOnly), nil)
				}
			}
		}
		depth := 4
		if r.Thorough() {
			depth = 6
		}
		res := bfs.Explore(bfs.Config[sop]{Name: "sequential", Ops: seqOps(), Depth: depth,
			Shard: r.Shard, NShards: r.NShards, Deadline: r.DeadlineTime(), Run: runSeq})
		res.Merge(r, "sequential")

		// the API handler and the file reload path as entry points (api_test.go)
		apiPart(r, t.TempDir())
	})
}
