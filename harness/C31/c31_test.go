package c31

// C31 — once a Lite route is chosen the backend receives [PROXY header iff enabled] + the
// client's handshake (unchanged unless a rewrite option applies) + every further client byte,
// and the client receives every backend byte.
//
// Engine: enum over REAL loopback TCP. Seam: proxy.New (Lite mode) + Proxy.HandleConn(conn) on a
// connection accepted by a harness listener; routes point at harness backends on 127.0.0.1:0.
// Termination is EOF driven: the backend writes its bytes at accept, the client writes its
// bytes, reads exactly the number of bytes the backend sent (io.ReadFull) and half-closes; the
// proxy's client->backend copy ends on that EOF, Forward closes both sides, the backend reads to
// EOF. No oracle depends on a timer; a 60 s watchdog per case only turns a hang into
// exhaustive:false.

import (
	"bytes"
	"encoding/binary"
	"fmt"
	"io"
	"net"
	"strconv"
	"strings"
	"sync/atomic"
	"syscall"
	"testing"
	"time"

	proxyproto "github.com/pires/go-proxyproto"
	jconfig "go.minekube.com/gate/pkg/edition/java/config"
	"go.minekube.com/gate/pkg/edition/java/lite"
	liteconfig "go.minekube.com/gate/pkg/edition/java/lite/config"
	"go.minekube.com/gate/pkg/edition/java/proxy"
	"go.minekube.com/gate/pkg/edition/java/proxy/zzverif/vrt"
)

// ---------------------------------------------------------------- reference wire format

func varint(v int) []byte {
	var out []byte
	u := uint32(v)
	for {
		if u&^0x7F == 0 {
			return append(out, byte(u))
		}
		out = append(out, byte(u&0x7F)|0x80)
		u >>= 7
	}
}

// padded varint (non-canonical, still legal on the wire)
func varintPadded(v int) []byte {
	b := varint(v)
	b[len(b)-1] |= 0x80
	return append(b, 0x00)
}

func hsPayload(protoV int, addr string, port int, next int, paddedFields bool) []byte {
	vi := varint
	if paddedFields {
		vi = varintPadded
	}
	var p []byte
	p = append(p, 0x00) // packet id
	p = append(p, vi(protoV)...)
	p = append(p, varint(len(addr))...)
	p = append(p, addr...)
	p = append(p, byte(port>>8), byte(port))
	p = append(p, vi(next)...)
	return p
}

func frame(payload []byte, paddedLen bool) []byte {
	if paddedLen {
		return append(varintPadded(len(payload)), payload...)
	}
	return append(varint(len(payload)), payload...)
}

func readVarint(b []byte) (v, n int, ok bool) {
	for sh := 0; n < len(b) && n < 5; sh += 7 {
		c := b[n]
		n++
		v |= int(c&0x7F) << sh
		if c&0x80 == 0 {
			return int(int32(uint32(v))), n, true // a VarInt is a signed 32-bit number
		}
	}
	return 0, 0, false
}

type hsFields struct {
	proto, port, next int
	addr              string
	frameLen          int // bytes consumed by the whole frame
}

func parseHandshakeFrame(b []byte) (h hsFields, err error) {
	l, n, ok := readVarint(b)
	if !ok || n+l > len(b) {
		return h, fmt.Errorf("short frame (len %d, have %d)", l, len(b)-n)
	}
	p := b[n : n+l]
	h.frameLen = n + l
	id, k, ok := readVarint(p)
	if !ok || id != 0 {
		return h, fmt.Errorf("packet id %d", id)
	}
	p = p[k:]
	if h.proto, k, ok = readVarint(p); !ok {
		return h, fmt.Errorf("protocol")
	}
	p = p[k:]
	sl, k, ok := readVarint(p)
	if !ok || k+sl > len(p) {
		return h, fmt.Errorf("address")
	}
	h.addr = string(p[k : k+sl])
	p = p[k+sl:]
	if len(p) < 2 {
		return h, fmt.Errorf("port")
	}
	h.port = int(p[0])<<8 | int(p[1])
	p = p[2:]
	if h.next, k, ok = readVarint(p); !ok || k != len(p) {
		return h, fmt.Errorf("next state / trailing bytes")
	}
	return h, nil
}

// parseProxyHeader: independent PROXY v1/v2 parser; returns source, destination and length.
func parseProxyHeader(b []byte) (src, dst string, n int, err error) {
	sig2 := []byte{0x0D, 0x0A, 0x0D, 0x0A, 0x00, 0x0D, 0x0A, 0x51, 0x55, 0x49, 0x54, 0x0A}
	if bytes.HasPrefix(b, []byte("PROXY ")) {
		i := bytes.Index(b, []byte("\r\n"))
		if i < 0 {
			return "", "", 0, fmt.Errorf("v1 header without CRLF")
		}
		f := strings.Split(string(b[:i]), " ")
		if len(f) != 6 {
			return "", "", 0, fmt.Errorf("v1 header fields %q", f)
		}
		return net.JoinHostPort(f[2], f[4]), net.JoinHostPort(f[3], f[5]), i + 2, nil
	}
	if bytes.HasPrefix(b, sig2) {
		if len(b) < 16 {
			return "", "", 0, fmt.Errorf("short v2 header")
		}
		if b[12] != 0x21 {
			return "", "", 0, fmt.Errorf("v2 version/command byte %#x, want 0x21 (PROXY)", b[12])
		}
		l := int(binary.BigEndian.Uint16(b[14:16]))
		if len(b) < 16+l {
			return "", "", 0, fmt.Errorf("short v2 body")
		}
		body := b[16 : 16+l]
		switch b[13] {
		case 0x11:
			if l < 12 {
				return "", "", 0, fmt.Errorf("v2 tcp4 body %d", l)
			}
			src = net.JoinHostPort(net.IP(body[0:4]).String(), strconv.Itoa(int(binary.BigEndian.Uint16(body[8:10]))))
			dst = net.JoinHostPort(net.IP(body[4:8]).String(), strconv.Itoa(int(binary.BigEndian.Uint16(body[10:12]))))
		case 0x21:
			if l < 36 {
				return "", "", 0, fmt.Errorf("v2 tcp6 body %d", l)
			}
			src = net.JoinHostPort(net.IP(body[0:16]).String(), strconv.Itoa(int(binary.BigEndian.Uint16(body[32:34]))))
			dst = net.JoinHostPort(net.IP(body[16:32]).String(), strconv.Itoa(int(binary.BigEndian.Uint16(body[34:36]))))
		default:
			return "", "", 0, fmt.Errorf("v2 family/protocol byte %#x", b[13])
		}
		return src, dst, 16 + l, nil
	}
	return "", "", 0, fmt.Errorf("no PROXY header (stream starts with % x)", b[:min(len(b), 16)])
}

// refClean as in the statement of C29 (Forge / TCPShield suffix and surrounding dots removed).
func refClean(h string) string {
	if i := strings.IndexByte(h, 0); i >= 0 {
		h = h[:i]
	}
	if i := strings.Index(h, "///"); i >= 0 {
		h = h[:i]
	}
	return strings.Trim(h, ".")
}

// refRewriteHost: the host part of the address (where the cleaned host sits) becomes the
// backend host; dots around it and every suffix stay.
func refRewriteHost(addr, backendHost string) string {
	cl := refClean(addr)
	if cl == "" {
		return addr
	}
	i := strings.Index(addr, cl)
	return addr[:i] + backendHost + addr[i+len(cl):]
}

// ---------------------------------------------------------------- case

type opts struct {
	ProxyProtocol, ModifyVirtualHost, TCPShield, CachePing bool
}

func (o opts) idx() int {
	n := 0
	for i, b := range []bool{o.ProxyProtocol, o.ModifyVirtualHost, o.TCPShield, o.CachePing} {
		if b {
			n |= 1 << i
		}
	}
	return n
}

type hsSpec struct {
	Name      string
	Suffix    string // appended to the route host: Forge / TCPShield / dots
	Prefix    string
	Upper     bool // upper-case the host
	Proto     int
	Port      int
	Next      int
	PadFields bool
	PadLen    bool
	PadTo     int  // "{PAD}" in Suffix becomes as many 'x' as make the whole server address this many bytes long
	Few       bool // added by the quantifier audit: combined with 3 stream pairs instead of all
}

type c31Case struct {
	Opt     int      `json:"opt"`
	HS      string   `json:"hs"`
	Client  string   `json:"client"`
	Backend string   `json:"backend"`
	SameSeg bool     `json:"same_segment"`
	Front   string   `json:"front,omitempty"`   // "" = tcp4 | tcp6 | pp4 | pp6 (how the client reaches the proxy)
	BV      string   `json:"backends,omitempty"` // "" = single | failover | v6 | hostname (the route's backend list)
	Status  bool     `json:"status,omitempty"`  // next state 1: a status ping instead of a login
	// the backend finishes first: it sends its bytes and half-closes at once; the client sends its later chunks only
	// after it has read every backend byte (default: the client sends everything, reads, and half-closes first)
	BackendFirst bool `json:"backend_finishes_first,omitempty"`
	Chunks  []string `json:"-"`
}

// fronts: how the client connection reaches Proxy.HandleConn.
//   tcp4 / tcp6: a plain TCP connection from 127.0.0.1 / ::1
//   pp4 / pp6:   a TCP connection from a trusted load balancer that announces the real client with a PROXY v1
//                header; the accepted connection is wrapped with go-proxyproto (policy USE) exactly like the
//                proxy's own listener does, so conn.RemoteAddr() is the announced client, not the TCP peer
var fronts = []string{"tcp4", "tcp6", "pp4", "pp6"}

var ppLine = map[string]string{
	"pp4": "PROXY TCP4 203.0.113.7 198.51.100.1 4242 25565\r\n",
	"pp6": "PROXY TCP6 2001:db8::7 2001:db8::1 4242 25565\r\n",
}
var ppClient = map[string]string{"pp4": "203.0.113.7:4242", "pp6": "[2001:db8::7]:4242"}

// backend variants: the backend list of the route.
//   single:   [127.0.0.1:B4]
//   failover: [127.0.0.2:D (bound, not listening: refuses), 127.0.0.1:B4] - the second one gets the connection
//   v6:       [[::1]:B6]
//   hostname: [localhost:B4], and TCPShield real-IP is switched on through the deprecated realIP option
//   closer-first (status pings only): [127.0.0.1:C (accepts, closes without answering), 127.0.0.1:B4] - the first
//             backend gets the handshake and fails the status exchange, the second one answers
var backendVariants = []string{"single", "failover", "v6", "hostname", "closer-first"}

func bvHost(bv string) string {
	switch bv {
	case "v6":
		return "::1"
	case "hostname":
		return "localhost"
	}
	return "127.0.0.1"
}

type stream struct {
	Name   string
	Chunks [][]byte
}

func big(n int, seed byte) []byte {
	b := make([]byte, n)
	for i := range b {
		b[i] = byte(i*7) ^ seed ^ byte(i>>8)
	}
	return b
}

func clientStreams(thorough bool) []stream {
	s := []stream{
		{"login-start", [][]byte{{0x0c, 0x00, 0x05, 'S', 't', 'e', 'v', 'e', 0x01, 0x02, 0x03, 0x04, 0x05}}},
		{"empty", nil},
		{"one-byte", [][]byte{{0x00}}},
		{"three-chunks", [][]byte{{0x02, 0x00, 0x00}, {0xff, 0xfe, 0x00, 0x80}, []byte("PROXY TCP4 1.2.3.4 5.6.7.8 1 2\r\n")}},
		{"looks-like-handshake", [][]byte{frame(hsPayload(765, "other.host", 1, 2, false), false)}},
		{"40KiB", [][]byte{big(40960, 0x5a)}},
	}
	if thorough {
		s = append(s, stream{"300KiB-3-chunks", [][]byte{big(100000, 1), big(100000, 2), big(100000, 3)}})
	}
	return s
}

var statusJSON = `{"version":{"name":"c31","protocol":765},"players":{"max":20,"online":3},"description":{"text":"c31 \u00e9 status"}}`

func statusRequestStream() stream { return stream{"status-request", [][]byte{{0x01, 0x00}}} }
func statusResponseStream() stream {
	body := append([]byte{0x00}, append(varint(len(statusJSON)), statusJSON...)...)
	return stream{"status-response", [][]byte{frame(body, false)}}
}

func backendStreams(thorough bool) []stream {
	s := []stream{
		{"login-success", [][]byte{{0x03, 0x03, 0x80, 0x02}, {0x10, 0x02, 'o', 'k'}}},
		{"empty", nil},
		{"one-byte", [][]byte{{0xff}}},
		{"three-chunks", [][]byte{{0x00}, {0x00, 0x00, 0xfe, 0x01}, []byte("\r\n\r\n\x00\r\nQUIT\n")}},
		{"40KiB", [][]byte{big(40960, 0xa5)}},
	}
	if thorough {
		s = append(s, stream{"300KiB-3-chunks", [][]byte{big(100000, 4), big(100000, 5), big(100000, 6)}})
	}
	return s
}

func handshakes(thorough bool) []hsSpec {
	h := []hsSpec{
		{Name: "plain", Proto: 765, Port: 25565, Next: 2},
		{Name: "upper-case-host", Upper: true, Proto: 765, Port: 25565, Next: 2},
		{Name: "trailing-dot", Suffix: ".", Proto: 47, Port: 25565, Next: 2},
		{Name: "forge-fml", Suffix: "\x00FML\x00", Proto: 340, Port: 25565, Next: 2},
		{Name: "forge-fml3", Suffix: "\x00FML3\x00", Proto: 763, Port: 1, Next: 2},
		{Name: "tcpshield", Suffix: "///203.0.113.9:54321///1700000000", Proto: 765, Port: 25565, Next: 2},
		{Name: "tcpshield+forge", Suffix: "///203.0.113.9:54321///1700000000\x00FML2\x00", Proto: 765, Port: 65535, Next: 2},
		{Name: "transfer-intent", Proto: 766, Port: 0, Next: 3},
		{Name: "padded-fields", Proto: 765, Port: 25565, Next: 2, PadFields: true},
		{Name: "forge-token-spells-host", Suffix: "\x00{HOST}\x00", Proto: 765, Port: 25565, Next: 2},
		// sizes: the address length prefix is one byte up to 127 and two bytes from 128 on; a rewrite can move the
		// address (and the frame) across that boundary in either direction; 5000 is more than the proxy's read buffer
		{Name: "addr-127-bytes", Suffix: "\x00{PAD}\x00", PadTo: 127, Proto: 765, Port: 25565, Next: 2, Few: true},
		{Name: "addr-128-bytes", Suffix: "\x00{PAD}\x00", PadTo: 128, Proto: 765, Port: 25565, Next: 2, Few: true},
		{Name: "addr-120-bytes-tcpshield", Suffix: "///203.0.113.9:54321///1700000000\x00{PAD}\x00", PadTo: 120, Proto: 765, Port: 25565, Next: 2, Few: true},
		{Name: "addr-5000-bytes", Suffix: "\x00{PAD}\x00", PadTo: 5000, Proto: 765, Port: 25565, Next: 2, Few: true},
		// protocol numbers the proxy knows nothing about
		{Name: "negative-protocol", Proto: -1, Port: 25565, Next: 2, Few: true},
		{Name: "future-protocol", Proto: 0x7fffffff, Port: 25565, Next: 2, Few: true},
	}
	if thorough {
		h = append(h,
			hsSpec{Name: "leading-dot", Prefix: ".", Proto: 765, Port: 25565, Next: 2},
			hsSpec{Name: "padded-frame-length", Proto: 765, Port: 25565, Next: 2, PadLen: true},
			hsSpec{Name: "addr-262144-bytes", Suffix: "\x00{PAD}\x00", PadTo: 262144, Proto: 765, Port: 25565, Next: 2, Few: true}, // the decoder's limit
		)
	}
	return h
}

// ---------------------------------------------------------------- rig

type backendResult struct {
	got      []byte
	peer     string // proxy-side address of the backend connection
	local    string // backend-side address: which listener took it
	err      error
	sentinel bool
}

// sentinelMagic is what the harness itself sends to the backend listener after the client side
// of a case is over: connections are accepted in order, so once the sentinel shows up every
// backend connection the proxy made for the case has been collected - without any timer.
var sentinelMagic = []byte("\x00c31-sentinel\x00\xde\xad\xbe\xef")

type backendScript struct {
	chunks    [][]byte
	halfClose bool // shut the write side down after the last chunk
}

type rig struct {
	p        *proxy.Proxy
	front    map[string]net.Listener // clients connect here; accepted conns go to HandleConn
	back     net.Listener            // 127.0.0.1:B4
	back6    net.Listener            // [::1]:B6 (nil when the machine has no IPv6 loopback)
	closer   net.Listener            // accepts and closes at once
	deadFD   int                     // socket bound to 127.0.0.2:D, never listening: connecting is refused
	deadAddr string
	backRes  chan backendResult
	backSend chan backendScript
	accepted chan struct{} // one token per backend connection accepted
	hostOf   map[int]string
}

func routeHost(opt int, bv string) string {
	if bv == "" || bv == "single" {
		return fmt.Sprintf("o%d.lite.test", opt)
	}
	return fmt.Sprintf("o%d.%s.lite.test", opt, bv)
}

func (g *rig) serveBackend(ln net.Listener) {
	for {
		c, err := ln.Accept()
		if err != nil {
			return
		}
		g.accepted <- struct{}{}
		// one case at a time: what to send was queued before the client connected
		var send backendScript
		select {
		case send = <-g.backSend:
		default:
		}
		go func() {
			for _, ch := range send.chunks {
				if _, err := c.Write(ch); err != nil {
					break
				}
			}
			if send.halfClose {
				_ = c.(*net.TCPConn).CloseWrite()
			}
		}()
		got, err := io.ReadAll(c)
		peer, local := c.RemoteAddr().String(), c.LocalAddr().String()
		_ = c.Close()
		g.backRes <- backendResult{got: got, peer: peer, local: local, err: err, sentinel: bytes.Equal(got, sentinelMagic)}
	}
}

func newRig() (*rig, error) {
	g := &rig{backRes: make(chan backendResult, 64), backSend: make(chan backendScript, 1), accepted: make(chan struct{}, 64), hostOf: map[int]string{},
		front: map[string]net.Listener{}, deadFD: -1}
	var err error
	for _, k := range fronts {
		addr := "127.0.0.1:0"
		if k == "tcp6" {
			addr = "[::1]:0"
		}
		ln, err := net.Listen("tcp", addr)
		if err != nil {
			if k == "tcp6" {
				continue // no IPv6 loopback: the tcp6 cases are skipped and reported as a class
			}
			return nil, err
		}
		g.front[k] = ln
	}
	if g.back, err = net.Listen("tcp", "127.0.0.1:0"); err != nil {
		return nil, err
	}
	g.back6, _ = net.Listen("tcp", "[::1]:0")
	if g.closer, err = net.Listen("tcp", "127.0.0.1:0"); err != nil {
		return nil, err
	}
	go func() {
		for {
			c, err := g.closer.Accept()
			if err != nil {
				return
			}
			_ = c.Close()
		}
	}()
	// a refusing backend whose port stays reserved: bound, but never listening
	if fd, err := syscall.Socket(syscall.AF_INET, syscall.SOCK_STREAM, 0); err == nil {
		if err = syscall.Bind(fd, &syscall.SockaddrInet4{Addr: [4]byte{127, 0, 0, 2}}); err == nil {
			if sa, err := syscall.Getsockname(fd); err == nil {
				g.deadFD, g.deadAddr = fd, fmt.Sprintf("127.0.0.2:%d", sa.(*syscall.SockaddrInet4).Port)
			}
		}
		if g.deadFD < 0 {
			_ = syscall.Close(fd)
		}
	}
	_, b4port, _ := net.SplitHostPort(g.back.Addr().String())
	cfg := jconfig.DefaultConfig
	cfg.Bind = g.front["tcp4"].Addr().String()
	cfg.Quota.Connections.Enabled = false
	cfg.Quota.Logins.Enabled = false
	cfg.PacketLimiter.PacketsPerSecond = -1
	cfg.PacketLimiter.BytesPerSecond = -1
	cfg.Lite.Enabled = true
	for _, bv := range backendVariants {
		var backends []string
		switch bv {
		case "single":
			backends = []string{g.back.Addr().String()}
		case "failover":
			if g.deadFD < 0 {
				continue
			}
			backends = []string{g.deadAddr, g.back.Addr().String()}
		case "v6":
			if g.back6 == nil {
				continue
			}
			backends = []string{g.back6.Addr().String()}
		case "hostname":
			backends = []string{"localhost:" + b4port}
		case "closer-first":
			backends = []string{g.closer.Addr().String(), g.back.Addr().String()}
		}
		for i := 0; i < 16; i++ {
			o := opts{i&1 != 0, i&2 != 0, i&4 != 0, i&8 != 0}
			host := routeHost(i, bv)
			if bv == "single" {
				g.hostOf[i] = host
			}
			rt := liteconfig.Route{Host: []string{host}, Backend: backends, ProxyProtocol: o.ProxyProtocol,
				ModifyVirtualHost: o.ModifyVirtualHost, TCPShieldRealIP: o.TCPShield, CachePingTTL: -1}
			if bv == "hostname" {
				rt.TCPShieldRealIP, rt.RealIP = false, o.TCPShield // the deprecated spelling of the same switch
			}
			if o.CachePing {
				rt.CachePingTTL = 0 // default: enabled
			}
			cfg.Lite.Routes = append(cfg.Lite.Routes, rt)
		}
	}
	g.hostOf[16] = "127.0.0.1"
	cfg.Lite.Routes = append(cfg.Lite.Routes, liteconfig.Route{Host: []string{"127.0.0.1"}, Backend: []string{g.back.Addr().String()}, ModifyVirtualHost: true, CachePingTTL: -1})
	if g.p, err = proxy.New(proxy.Options{Config: &cfg}); err != nil {
		return nil, err
	}
	for k, ln := range g.front {
		k, ln := k, ln
		go func() {
			for {
				c, err := ln.Accept()
				if err != nil {
					return
				}
				if ppLine[k] != "" {
					// what Proxy.listenAndServe does for a trusted upstream when proxyProtocol is enabled
					c = proxyproto.NewConn(c, proxyproto.WithPolicy(proxyproto.USE))
				}
				go g.p.HandleConn(c)
			}
		}()
	}
	go g.serveBackend(g.back)
	if g.back6 != nil {
		go g.serveBackend(g.back6)
	}
	return g, nil
}

// available reports whether the machine can run the variant (IPv6 loopback, 127.0.0.2).
func (g *rig) available(front, bv string) bool {
	if front == "" {
		front = "tcp4"
	}
	if g.front[front] == nil {
		return false
	}
	switch bv {
	case "failover":
		return g.deadFD >= 0
	case "v6":
		return g.back6 != nil
	case "hostname":
		addrs, err := net.LookupHost("localhost")
		if err != nil {
			return false
		}
		for _, a := range addrs {
			if a == "127.0.0.1" {
				return true
			}
		}
		return false
	}
	return true
}

func (g *rig) close() {
	for _, ln := range g.front {
		_ = ln.Close()
	}
	_ = g.back.Close()
	_ = g.closer.Close()
	if g.back6 != nil {
		_ = g.back6.Close()
	}
	if g.deadFD >= 0 {
		_ = syscall.Close(g.deadFD)
	}
}

type caseResult struct {
	hung        bool
	clientAddr  string
	clientGot   []byte
	clientErr   error
	backend     backendResult
	backendSeen bool
	backendN    int // backend connections the proxy made
}

// runCase plays one connection. Returns hung=true when the watchdog fired.
func (g *rig) runCase(front string, hsBytes []byte, cl, bk stream, sameSeg, status, backendFirst bool) caseResult {
	var res caseResult
	if front == "" {
		front = "tcp4"
	}
	g.backSend <- backendScript{chunks: bk.Chunks, halfClose: backendFirst}
	c, err := net.Dial("tcp", g.front[front].Addr().String())
	if err != nil {
		res.clientErr = err
		<-g.backSend
		return res
	}
	res.clientAddr = c.LocalAddr().String()
	if ppLine[front] != "" {
		// the load balancer's header travels in the same segment as the handshake
		res.clientAddr = ppClient[front]
		hsBytes = append([]byte(ppLine[front]), hsBytes...)
	}
	done := make(chan struct{})
	var hung atomic.Bool
	watchdog := time.AfterFunc(60*time.Second, func() {
		hung.Store(true)
		_ = c.Close()
		select {
		case g.accepted <- struct{}{}:
		default:
		}
	})
	go func() {
		defer close(done)
		chunks := cl.Chunks
		first := hsBytes
		if sameSeg && len(chunks) > 0 {
			first = append(append([]byte{}, hsBytes...), chunks[0]...)
			chunks = chunks[1:]
		}
		if _, err := c.Write(first); err != nil {
			res.clientErr = err
			return
		}
		// Later chunks go out only after the proxy has dialled the backend, i.e. after it has read
		// the handshake: what sits in the proxy's read buffer next to the handshake (the
		// emptyReadBuff path) is then decided by same_segment alone, not by timing.
		// (A status ping is different: the proxy dials only after it has read the status request.)
		if !status {
			<-g.accepted
		}
		want := 0
		for _, ch := range bk.Chunks {
			want += len(ch)
		}
		buf := make([]byte, want)
		sendRest := func() bool {
			for _, ch := range chunks {
				if _, err := c.Write(ch); err != nil {
					res.clientErr = err
					return false
				}
			}
			return true
		}
		if !backendFirst && !sendRest() {
			return
		}
		n, err := io.ReadFull(c, buf)
		res.clientGot = buf[:n]
		if err != nil {
			res.clientErr = err
		}
		if backendFirst && !sendRest() {
			return
		}
		_ = c.(*net.TCPConn).CloseWrite()
		// drain until the proxy closes our connection
		extra, _ := io.ReadAll(c)
		res.clientGot = append(res.clientGot, extra...)
	}()
	<-done
	_ = c.Close()
	watchdog.Stop()
	res.hung = hung.Load()
	if res.hung {
		return res // the rig is abandoned by the caller
	}
	// The proxy closed our connection, so Forward has returned and has already closed its backend
	// connection (if it ever made one). Collect everything accepted before the sentinel.
	sentinels := 0
	for _, ln := range []net.Listener{g.back, g.back6} {
		if ln == nil {
			continue
		}
		if s, err := net.Dial("tcp", ln.Addr().String()); err == nil {
			_, _ = s.Write(sentinelMagic)
			_ = s.(*net.TCPConn).CloseWrite()
			_, _ = io.ReadAll(s)
			_ = s.Close()
			sentinels++
		} else {
			res.clientErr = fmt.Errorf("sentinel dial: %w", err)
			return res
		}
	}
	for len(g.accepted) > 0 {
		<-g.accepted
	}
	for sentinels > 0 {
		b := <-g.backRes
		if b.sentinel {
			sentinels--
			continue
		}
		if !res.backendSeen {
			res.backend, res.backendSeen = b, true
		}
		res.backendN++
	}
	select { // a case that never reached a backend leaves its queued bytes behind
	case <-g.backSend:
	default:
	}
	return res
}

func flat(ch [][]byte) []byte {
	var out []byte
	for _, c := range ch {
		out = append(out, c...)
	}
	return out
}

func short(b []byte) string {
	if len(b) > 96 {
		return fmt.Sprintf("%q…(%d bytes)", b[:96], len(b))
	}
	return fmt.Sprintf("%q", b)
}

func firstDiff(a, b []byte) int {
	for i := 0; i < len(a) && i < len(b); i++ {
		if a[i] != b[i] {
			return i
		}
	}
	return min(len(a), len(b))
}

// check compares what the backend and the client saw with the reference.
func (g *rig) check(c c31Case, o opts, hs hsSpec, host string, hsBytes, hsCanon []byte, cl, bk stream, sameSeg bool, res caseResult) (key, desc string) {
	ctx := fmt.Sprintf("options=%+v handshake=%s host=%q client=%s backend=%s same-segment=%v", o, hs.Name, host, cl.Name, bk.Name, sameSeg)
	if c.BackendFirst {
		ctx += " backend-finishes-first"
	}
	if c.Front != "" || c.BV != "" || c.Status {
		ctx += fmt.Sprintf(" front=%s(client %s) backends=%s status-ping=%v", c.Front, res.clientAddr, c.BV, c.Status)
	}
	if !res.backendSeen {
		return "backend/never-dialled", ctx + fmt.Sprintf(": the route matches but no backend connection was made (client error: %v)", res.clientErr)
	}
	if res.backendN != 1 {
		return "backend/dialled-more-than-once", ctx + fmt.Sprintf(": %d backend connections for one client connection", res.backendN)
	}
	wantListener := g.back
	if c.BV == "v6" {
		wantListener = g.back6
	}
	if res.backend.local != wantListener.Addr().String() {
		return "backend/wrong-backend", ctx + fmt.Sprintf(": the connection arrived at %s, the route's (live) backend is %s", res.backend.local, wantListener.Addr())
	}
	// client side: every backend byte
	if want := flat(bk.Chunks); !bytes.Equal(res.clientGot, want) {
		return "to-client/bytes-differ", ctx + fmt.Sprintf(": client received %d bytes, backend sent %d; first difference at offset %d; got %s want %s", len(res.clientGot), len(want), firstDiff(res.clientGot, want), short(res.clientGot), short(want))
	}
	got := res.backend.got
	// PROXY header iff enabled
	if o.ProxyProtocol {
		src, dst, n, err := parseProxyHeader(got)
		if err != nil {
			return "proxy-header/missing-or-malformed", ctx + ": " + err.Error()
		}
		if src != res.clientAddr {
			return "proxy-header/wrong-source", ctx + fmt.Sprintf(": PROXY header source %s, the client's real address is %s", src, res.clientAddr)
		}
		if dst != res.backend.local {
			return "proxy-header/wrong-destination", ctx + fmt.Sprintf(": PROXY header destination %s, backend is %s", dst, res.backend.local)
		}
		got = got[n:]
	} else if _, _, _, err := parseProxyHeader(got); err == nil {
		return "proxy-header/sent-although-disabled", ctx + ": backend stream starts with a PROXY header"
	}
	rest := flat(cl.Chunks)
	backendHost := bvHost(c.BV)
	mvh := o.ModifyVirtualHost && !strings.EqualFold(refClean(host), backendHost)
	shield := o.TCPShield && strings.Contains(host, "///")
	if !mvh && !shield {
		want := append(append([]byte{}, hsBytes...), rest...)
		if !bytes.Equal(got, want) {
			k := "to-backend/bytes-differ"
			if hs.PadLen && bytes.Equal(got, append(append([]byte{}, hsCanon...), rest...)) {
				k = "to-backend/frame-length-re-encoded"
			}
			return k, ctx + fmt.Sprintf(": backend received %d bytes after the PROXY header, client sent %d; first difference at offset %d; got %s want %s", len(got), len(want), firstDiff(got, want), short(got), short(want))
		}
		return "", ""
	}
	h, err := parseHandshakeFrame(got)
	if err != nil {
		return "to-backend/rewritten-handshake-malformed", ctx + ": " + err.Error() + ": " + short(got)
	}
	if h.proto != hs.Proto || h.port != hs.Port || h.next != hs.Next {
		return "to-backend/rewritten-handshake-fields", ctx + fmt.Sprintf(": protocol/port/next = %d/%d/%d, client sent %d/%d/%d", h.proto, h.port, h.next, hs.Proto, hs.Port, hs.Next)
	}
	wantAddr := host
	if mvh {
		wantAddr = refRewriteHost(host, backendHost)
	}
	if !shield {
		if h.addr != wantAddr {
			return "to-backend/virtual-host-rewrite", ctx + fmt.Sprintf(": backend sees server address %q, want %q (host part replaced by the backend host, everything else kept)", h.addr, wantAddr)
		}
	} else {
		// TCPShield real-IP: the statement does not fix the format. Required: the host part and a
		// Forge suffix survive, the client's real ip:port is carried, the timestamp is a number.
		hostPart, _, _ := strings.Cut(wantAddr, "\x00")
		hostOnly, _, _ := strings.Cut(hostPart, "///")
		if !strings.HasPrefix(h.addr, hostOnly) {
			return "to-backend/tcpshield-host-lost", ctx + fmt.Sprintf(": server address %q does not start with %q", h.addr, hostOnly)
		}
		if !strings.Contains(h.addr, "///"+res.clientAddr+"///") {
			return "to-backend/tcpshield-real-ip", ctx + fmt.Sprintf(": server address %q does not carry the client's real address %s", h.addr, res.clientAddr)
		}
		if n := strings.Count(h.addr, "///"+res.clientAddr+"///"); n > 1 {
			return "to-backend/tcpshield-real-ip-applied-twice", ctx + fmt.Sprintf(": server address %q carries the client's real address %d times (the rewrite was applied to an already rewritten handshake)", h.addr, n)
		}
		i := strings.Index(h.addr, "///"+res.clientAddr+"///")
		ts, _, _ := strings.Cut(h.addr[i+len(res.clientAddr)+6:], "\x00")
		if _, err := strconv.ParseInt(ts, 10, 64); err != nil {
			return "to-backend/tcpshield-timestamp", ctx + fmt.Sprintf(": timestamp field %q in %q", ts, h.addr)
		}
		if _, fs, ok := strings.Cut(host, "\x00"); ok && !strings.HasSuffix(h.addr, "\x00"+fs) {
			return "to-backend/tcpshield-forge-suffix-lost", ctx + fmt.Sprintf(": server address %q lost the Forge suffix %q", h.addr, fs)
		}
	}
	if tail := got[h.frameLen:]; !bytes.Equal(tail, rest) {
		return "to-backend/bytes-after-handshake-differ", ctx + fmt.Sprintf(": after the rewritten handshake the backend received %d bytes, client sent %d; first difference at offset %d", len(tail), len(rest), firstDiff(tail, rest))
	}
	return "", ""
}

// ---------------------------------------------------------------- driver

func buildHS(hs hsSpec, routeHost string) (host string, wire, canon []byte) {
	h := routeHost
	if hs.Upper {
		h = strings.ToUpper(h)
	}
	host = hs.Prefix + h + strings.ReplaceAll(hs.Suffix, "{HOST}", h)
	if hs.PadTo > 0 {
		host = strings.ReplaceAll(host, "{PAD}", strings.Repeat("x", max(0, hs.PadTo-(len(host)-len("{PAD}")))))
	}
	pl := hsPayload(hs.Proto, host, hs.Port, hs.Next, hs.PadFields)
	return host, frame(pl, hs.PadLen), frame(pl, false)
}

func optsOf(i int) opts {
	if i == 16 { // the route whose host IS the backend host: modifyVirtualHost has nothing to rewrite
		return opts{ModifyVirtualHost: true}
	}
	return opts{i&1 != 0, i&2 != 0, i&4 != 0, i&8 != 0}
}

func TestVerif(t *testing.T) {
	vrt.Run(t, "C31", func(r *vrt.R) {
		g, err := newRig()
		if err != nil {
			t.Fatalf("rig: %v", err)
		}
		defer g.close()
		hss, cls, bks := handshakes(true), clientStreams(true), backendStreams(true)
		allCls, allBks := append(clientStreams(true), statusRequestStream()), append(backendStreams(true), statusResponseStream())
		find := func(l []stream, n string) stream {
			for _, s := range l {
				if s.Name == n {
					return s
				}
			}
			t.Fatalf("unknown stream %q", n)
			return stream{}
		}
		one := func(c c31Case) (string, string, bool) {
			o := optsOf(c.Opt)
			var hs hsSpec
			for _, h := range hss {
				if h.Name == c.HS {
					hs = h
				}
			}
			rh := g.hostOf[c.Opt]
			if c.BV != "" {
				rh = routeHost(c.Opt, c.BV)
			}
			if c.Status {
				hs.Next = 1
				// the ping cache is keyed by backend and protocol: start every status case cold
				lite.ResetPingCache()
			}
			host, wire, canon := buildHS(hs, rh)
			cl, bk := find(allCls, c.Client), find(allBks, c.Backend)
			res := g.runCase(c.Front, wire, cl, bk, c.SameSeg, c.Status, c.BackendFirst)
			if res.hung {
				return "", fmt.Sprintf("case %+v did not finish within 60 s", c), true
			}
			k, d := g.check(c, o, hs, host, wire, canon, cl, bk, c.SameSeg, res)
			return k, d, false
		}
		var rc c31Case
		if r.ReplayInto(&rc) {
			r.Eval(1)
			k, d, hung := one(rc)
			if hung {
				r.NotExhaustive(d)
			} else if k != "" {
				r.Violation(k, d, rc)
			}
			return
		}
		hss = handshakes(r.Thorough())
		cls, bks = clientStreams(r.Thorough()), backendStreams(r.Thorough())
		// stream pairs: quick varies one side at a time, thorough takes the full product
		type pair struct{ c, b string }
		var pairs []pair
		if r.Thorough() {
			for _, c := range cls {
				for _, b := range bks {
					pairs = append(pairs, pair{c.Name, b.Name})
				}
			}
		} else {
			for _, c := range cls {
				pairs = append(pairs, pair{c.Name, bks[0].Name})
			}
			for _, b := range bks[1:] {
				pairs = append(pairs, pair{cls[0].Name, b.Name})
			}
			pairs = append(pairs, pair{"40KiB", "40KiB"}, pair{"empty", "empty"})
		}
		i, n, nt := 0, 0, 0
		wedged := false
	all:
		for opt := 0; opt <= 16; opt++ {
			for _, hs := range hss {
				for pi, p := range pairs {
					if hs.Few && !r.Thorough() && pi != 0 && !(p.c == "40KiB" && p.b == "40KiB") && !(p.c == "empty" && p.b == "empty") {
						continue
					}
					for _, same := range []bool{false, true} {
						i++
						if !r.Mine(i) {
							continue
						}
						if r.Expired() {
							break all
						}
						c := c31Case{Opt: opt, HS: hs.Name, Client: p.c, Backend: p.b, SameSeg: same}
						k, d, hung := one(c)
						n++
						if hung {
							r.NotExhaustive(d)
							wedged = true
							break all // the rig may be wedged: stop, the run is recorded as not exhaustive
						}
						if k != "" {
							r.Violation(k, d, c)
							r.Class("violating")
							continue
						}
						o := optsOf(opt)
						r.Class(fmt.Sprintf("proxyProtocol=%v/modifyVirtualHost=%v/tcpShield=%v", o.ProxyProtocol, o.ModifyVirtualHost, o.TCPShield))
						r.Class("handshake:" + hs.Name)
						if same && p.c != "empty" {
							r.Class("bytes-in-handshake-segment")
						}
						if p.c != "empty" || p.b != "empty" {
							nt++
						}
						if n == 3 {
							r.Sample(c)
						}
					}
				}
			}
		}
		// ---- variants: how the client reaches the proxy x what the route's backend list looks like, and status pings.
		// Logins: every front x backend variant except the (tcp4, single) product above, all 16 option sets, every
		// handshake, the default stream pair, bytes in / after the handshake segment. Status pings: every front x
		// backend variant incl. (tcp4, single), canonical handshakes (with cachePing the proxy re-encodes the
		// handshake it forwards, which is only byte-identical for canonical encodings; not judged here).
		runV := func(c c31Case, hsName string) bool {
			i++
			if !r.Mine(i) {
				return true
			}
			if r.Expired() || wedged {
				return false
			}
			if !g.available(c.Front, c.BV) {
				r.Class("variant-unavailable-on-this-machine:" + c.Front + "/" + c.BV)
				return true
			}
			k, d, hung := one(c)
			n++
			if hung {
				r.NotExhaustive(d)
				return false
			}
			if k != "" {
				r.Violation(k, d, c)
				r.Class("violating")
				return true
			}
			nt++
			kind := "login"
			if c.Status {
				kind = "status-ping"
			}
			f, b := c.Front, c.BV
			if f == "" {
				f = "tcp4"
			}
			if b == "" {
				b = "single"
			}
			r.Class(kind + ":front=" + f + "/backends=" + b)
			return true
		}
		// ---- ordering: the backend finishes first (sends, half-closes), the client keeps sending afterwards
	backendFirst:
		for opt := 0; opt <= 16; opt++ {
			for _, hs := range hss {
				for _, p := range [][2]string{{"login-start", "login-success"}, {"three-chunks", "three-chunks"}, {"40KiB", "one-byte"}, {"three-chunks", "empty"}} {
					for _, same := range []bool{false, true} {
						c := c31Case{Opt: opt, HS: hs.Name, Client: p[0], Backend: p[1], SameSeg: same, BackendFirst: true}
						i++
						if !r.Mine(i) {
							continue
						}
						if r.Expired() || wedged {
							break backendFirst
						}
						k, d, hung := one(c)
						n++
						if hung {
							r.NotExhaustive(d)
							wedged = true
							break backendFirst
						}
						if k != "" {
							r.Violation(k, d, c)
							r.Class("violating")
							continue
						}
						nt++
						r.Class("order:backend-finishes-first")
					}
				}
			}
		}
	variants:
		for _, f := range fronts {
			for _, bv := range backendVariants {
				for opt := 0; opt < 16; opt++ {
					for _, hs := range hss {
						for _, same := range []bool{false, true} {
							c := c31Case{Opt: opt, HS: hs.Name, SameSeg: same, Front: f, BV: bv}
							if !(f == "tcp4" && bv == "single") && bv != "closer-first" {
								c.Client, c.Backend = "login-start", "login-success"
								if !runV(c, hs.Name) {
									break variants
								}
							}
							if hs.Next == 2 && !hs.PadFields && !hs.PadLen && hs.Proto > 0 && hs.Proto != 0x7fffffff {
								c.Client, c.Backend, c.Status = "status-request", "status-response", true
								if !runV(c, hs.Name) {
									break variants
								}
							}
						}
					}
				}
			}
		}
		r.Eval(n)
		r.Nontrivial(nt)
	})
}
