package proxy

// In-package kit shared by the g5 harnesses of package proxy (C11, C12, C14's player pass). It is added
// through spec.json "extra_overlay".
//
//   - g5Conn    recording net.Conn: Write appends (or fails with an injected error), never blocks;
//               Read reports EOF.
//   - g5Events  deterministic event.Manager: subscribers and FireParallel's `after` callbacks run
//               synchronously in the calling thread (event.Nop.FireParallel drops `after`).
//   - g5World   a Proxy built like proxy.New builds it (no listeners, no via, no meter) + sessions: each
//               session is a REAL netmc.MinecraftConn over a g5Conn driven through the REAL
//               authSessionHandler (Activated = canRegister -> events -> registerConnection ->
//               LoginSuccess); disconnect closes the connection the way the read loop does, which
//               runs the real teardown.

import (
	"context"
	"fmt"
	"io"
	"net"
	"reflect"
	"sort"
	"strings"
	"sync"
	"time"

	"github.com/go-logr/logr"
	"github.com/robinbraemer/event"
	"go.minekube.com/common/minecraft/component"
	"go.minekube.com/gate/pkg/edition/java/config"
	"go.minekube.com/gate/pkg/edition/java/netmc"
	"go.minekube.com/gate/pkg/edition/java/profile"
	"go.minekube.com/gate/pkg/edition/java/proto/packet"
	"go.minekube.com/gate/pkg/edition/java/proto/state"
	"go.minekube.com/gate/pkg/edition/java/proto/version"
	"go.minekube.com/gate/pkg/edition/java/proxy/message"
	"go.minekube.com/gate/pkg/gate/proto"
	"go.minekube.com/gate/pkg/util/uuid"
)

// ---------------------------------------------------------------- conn

type g5Conn struct {
	mu       sync.Mutex
	buf      []byte
	closed   int
	writeErr error
}

func (c *g5Conn) Write(p []byte) (int, error) {
	c.mu.Lock()
	defer c.mu.Unlock()
	if c.writeErr != nil {
		return 0, c.writeErr
	}
	if c.closed > 0 {
		return 0, net.ErrClosed
	}
	c.buf = append(c.buf, p...)
	return len(p), nil
}

// failWrites makes every further Write fail with err (the peer is gone).
func (c *g5Conn) failWrites(err error)             { c.mu.Lock(); c.writeErr = err; c.mu.Unlock() }
func (c *g5Conn) Len() int                         { c.mu.Lock(); defer c.mu.Unlock(); return len(c.buf) }
func (c *g5Conn) Read([]byte) (int, error)         { return 0, io.EOF }
func (c *g5Conn) Close() error                     { c.mu.Lock(); c.closed++; c.mu.Unlock(); return nil }
func (c *g5Conn) LocalAddr() net.Addr              { return &net.TCPAddr{IP: net.IPv4(127, 0, 0, 1), Port: 25565} }
func (c *g5Conn) RemoteAddr() net.Addr             { return &net.TCPAddr{IP: net.IPv4(192, 0, 2, 9), Port: 40000} }
func (c *g5Conn) SetDeadline(time.Time) error      { return nil }
func (c *g5Conn) SetReadDeadline(time.Time) error  { return nil }
func (c *g5Conn) SetWriteDeadline(time.Time) error { return nil }

// ---------------------------------------------------------------- events

type g5Sub struct {
	prio int
	seq  int
	fn   event.HandlerFunc
}

type g5Events struct {
	mu   sync.Mutex
	subs map[reflect.Type][]g5Sub
	seq  int
}

func g5NewEvents() *g5Events { return &g5Events{subs: map[reflect.Type][]g5Sub{}} }

func g5TypeOf(e event.Event) reflect.Type {
	if t, ok := e.(reflect.Type); ok {
		return t
	}
	return reflect.TypeOf(e)
}

func (m *g5Events) Subscribe(eventType event.Event, priority int, fn event.HandlerFunc) func() {
	m.mu.Lock()
	defer m.mu.Unlock()
	t := g5TypeOf(eventType)
	m.seq++
	id := m.seq
	m.subs[t] = append(m.subs[t], g5Sub{prio: priority, seq: id, fn: fn})
	sort.SliceStable(m.subs[t], func(i, j int) bool { return m.subs[t][i].prio > m.subs[t][j].prio })
	return func() {
		m.mu.Lock()
		defer m.mu.Unlock()
		l := m.subs[t]
		for i := range l {
			if l[i].seq == id {
				m.subs[t] = append(l[:i:i], l[i+1:]...)
				return
			}
		}
	}
}

func (m *g5Events) handlers(e event.Event) []g5Sub {
	m.mu.Lock()
	defer m.mu.Unlock()
	return append([]g5Sub(nil), m.subs[reflect.TypeOf(e)]...)
}

func (m *g5Events) Fire(e event.Event) {
	for _, s := range m.handlers(e) {
		s.fn(e)
	}
}

func (m *g5Events) FireParallel(e event.Event, after ...event.HandlerFunc) {
	m.Fire(e)
	for _, a := range after {
		a(e)
	}
}
func (m *g5Events) Wait(...event.Event) {}
func (m *g5Events) HasSubscriber(events ...event.Event) bool {
	m.mu.Lock()
	defer m.mu.Unlock()
	if len(events) == 0 {
		return len(m.subs) > 0
	}
	for _, e := range events {
		if len(m.subs[g5TypeOf(e)]) == 0 {
			return false
		}
	}
	return true
}
func (m *g5Events) UnsubscribeAll(events ...event.Event) int {
	m.mu.Lock()
	defer m.mu.Unlock()
	n := 0
	for _, e := range events {
		n += len(m.subs[g5TypeOf(e)])
		delete(m.subs, g5TypeOf(e))
	}
	return n
}

// ---------------------------------------------------------------- world

var g5Protocol = version.Minecraft_1_21_4.Protocol // >= 1.20.2: login ends after LoginSuccess (waits for LoginAcknowledged)

type g5World struct {
	Proxy  *Proxy
	Events *g5Events
	Cfg    *config.Config

	mu       sync.Mutex
	sessions []*g5Session
	deny     map[*g5Session]bool
	// goneIn: the client connection of that session is closed (the client went away) WHILE the LoginEvent
	// for it is being fired
	goneIn map[*g5Session]bool
	// DisconnectEvents in firing order
	disconnects []g5Disc
}

type g5Disc struct {
	player *connectedPlayer
	status LoginStatus
}

func g5NewWorld(onlineMode, kickExisting bool) *g5World {
	cfg := config.DefaultConfig
	cfg.Servers = map[string]string{}
	cfg.Try = nil
	cfg.ForcedHosts = map[string][]string{}
	cfg.OnlineMode = onlineMode
	cfg.OnlineModeKickExistingPlayers = kickExisting
	cfg.Compression.Threshold = -1
	ev := g5NewEvents()
	p := &Proxy{
		log:              logr.Discard(),
		cfg:              &cfg,
		event:            ev,
		channelRegistrar: message.NewChannelRegistrar(),
		servers:          map[string]*registeredServer{},
		configServers:    map[string]bool{},
		playerNames:      map[string]*connectedPlayer{},
		playerIDs:        map[uuid.UUID]*connectedPlayer{},
	}
	p.currentCfg.Store(&runtimeConfigSnapshot{cfg: &cfg})
	w := &g5World{Proxy: p, Events: ev, Cfg: &cfg, deny: map[*g5Session]bool{}, goneIn: map[*g5Session]bool{}}
	event.Subscribe(ev, 0, func(e *LoginEvent) {
		cp, _ := e.Player().(*connectedPlayer)
		w.mu.Lock()
		var deny bool
		var gone *g5Session
		for s, d := range w.deny {
			if d && s.mc == cp.MinecraftConn {
				deny = true
			}
		}
		for s, g := range w.goneIn {
			if g && s.mc == cp.MinecraftConn {
				gone = s
			}
		}
		w.mu.Unlock()
		if deny {
			e.Deny(&component.Text{Content: "denied by plugin"})
		}
		if gone != nil {
			_ = netmc.CloseUnknown(gone.mc)
		}
	})
	event.Subscribe(ev, 0, func(e *DisconnectEvent) {
		cp, _ := e.Player().(*connectedPlayer)
		w.mu.Lock()
		w.disconnects = append(w.disconnects, g5Disc{cp, e.LoginStatus()})
		w.mu.Unlock()
	})
	return w
}

func (w *g5World) deps() *sessionHandlerDeps {
	return &sessionHandlerDeps{proxy: w.Proxy, registrar: w.Proxy, eventMgr: w.Events, configProvider: w.Proxy}
}

// g5Session is one client connection.
type g5Session struct {
	w       *g5World
	idx     int
	name    string
	id      uuid.UUID
	base    *g5Conn
	mc      netmc.MinecraftConn
	handler *authSessionHandler

	loginReturned bool // Activated returned
	accepted      bool // login returned and the connection was still open (LoginSuccess sent)
	discCalled    bool // the harness started this session's own disconnect
	discReturned  bool
}

func (s *g5Session) String() string { return fmt.Sprintf("s%d(%s,%s)", s.idx, s.name, g5ShortID(s.id)) }

func g5ShortID(id uuid.UUID) string { return strings.SplitN(id.String(), "-", 2)[0] }

// player is the connectedPlayer the auth handler built for this session (nil before that).
func (s *g5Session) player() *connectedPlayer { return s.handler.connectedPlayer }

func (s *g5Session) closed() bool { return netmc.Closed(s.mc) }

// newSession prepares a client connection that reached the end of authentication with the given
// profile (name, id); nothing is registered yet.
func (w *g5World) newSession(name string, id uuid.UUID, denyLogin bool) *g5Session {
	base := &g5Conn{}
	mc, _ := netmc.NewMinecraftConn(context.Background(), base, proto.ServerBound, time.Second, time.Second, -1, nil)
	mc.SetProtocol(g5Protocol)
	inbound := newLoginInboundConn(newInitialInbound(mc, &net.TCPAddr{IP: net.IPv4(127, 0, 0, 1), Port: 25565}, packet.LoginHandshakeIntent))
	h := newAuthSessionHandler(inbound, &profile.GameProfile{ID: id, Name: name}, w.Cfg.OnlineMode, "", w.deps()).(*authSessionHandler)
	w.mu.Lock()
	s := &g5Session{w: w, idx: len(w.sessions), name: name, id: id, base: base, mc: mc, handler: h}
	w.sessions = append(w.sessions, s)
	if denyLogin {
		w.deny[s] = true
	}
	w.mu.Unlock()
	return s
}

// login runs the real post-authentication login (authSessionHandler.Activated through
// SetActiveSessionHandler, as the initial-login handler does).
func (s *g5Session) login() {
	s.mc.SetActiveSessionHandler(state.Login, s.handler)
	s.accepted = !s.closed()
	s.loginReturned = true
}

// goneDuringLoginEvent arranges that the client connection is closed while this session's LoginEvent is
// fired (call before login).
func (s *g5Session) goneDuringLoginEvent() {
	s.w.mu.Lock()
	s.w.goneIn[s] = true
	s.w.mu.Unlock()
}

// acknowledge is the client's LoginAcknowledged packet (1.20.2+) reaching the auth handler, as the read
// loop delivers it: the proxy moves the client to the configuration handler and looks for an initial
// server; a world without servers then disconnects the player ("no available servers") - a
// proxy-initiated disconnect that runs through the CONFIGURATION handler's teardown.
func (s *g5Session) acknowledge() {
	s.discCalled = true
	s.handler.HandlePacket(&proto.PacketContext{Direction: proto.ServerBound, Protocol: s.mc.Protocol(), Packet: &packet.LoginAcknowledged{}})
	s.discReturned = true
}

// disconnect is the client going away: the read loop ends and closes the connection, which runs
// the session's teardown.
func (s *g5Session) disconnect() {
	s.discCalled = true
	_ = netmc.CloseUnknown(s.mc)
	s.discReturned = true
}
