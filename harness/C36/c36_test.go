package gate

// C36 — JSON Merge Patch follows RFC 7396.
//
// Part A: applyMergePatch on every (target, patch) pair of JSON values up to depth 3 over a small
// key/leaf alphabet, compared with an independent transcription of the RFC's pseudo-code that
// works on an immutable tree type of its own (never on map[string]any).
// Part B: the same pairs (depth <= 2) through the JSON text pipeline the handler uses
// (json.Unmarshal -> applyMergePatch -> json.Marshal).
// Part C: mergeConfigPatch on real configurations: the result must be the strict decode of the
// RFC merge of the effective configuration document; patches producing unknown members or
// wrongly typed members must be rejected; the empty patch must be the identity.

import (
	"bytes"
	"encoding/json"
	"errors"
	"fmt"
	"io"
	"os"
	"path/filepath"
	"reflect"
	"sort"
	"strings"
	"testing"
	"time"

	liteconfig "go.minekube.com/gate/pkg/edition/java/lite/config"
	"go.minekube.com/gate/pkg/edition/java/proxy/zzverif/vrt"
	"go.minekube.com/gate/pkg/gate/config"
	"go.minekube.com/gate/pkg/util/configutil"
	"gopkg.in/yaml.v3"
)

// ---------------------------------------------------------------------------------------------
// reference value type and RFC 7396 transcription
// ---------------------------------------------------------------------------------------------

// jv is an immutable JSON value. obj == true: object with sorted keys; else lit holds the
// canonical JSON text of a non-object value (null, number, string, array) and raw its Go form.
type jv struct {
	obj  bool
	keys []string
	vals []*jv
	lit  string
}

func lit(s string) *jv { return &jv{lit: s} }
func object(kv ...any) *jv {
	o := &jv{obj: true}
	for i := 0; i < len(kv); i += 2 {
		o.keys = append(o.keys, kv[i].(string))
		o.vals = append(o.vals, kv[i+1].(*jv))
	}
	return o
}

func (v *jv) isNull() bool { return !v.obj && v.lit == "null" }
func (v *jv) get(k string) *jv {
	for i, kk := range v.keys {
		if kk == k {
			return v.vals[i]
		}
	}
	return nil
}

// canon renders canonical JSON (sorted keys, no spaces) — the same layout encoding/json produces
// for map[string]any.
func (v *jv) canon() string {
	if !v.obj {
		return v.lit
	}
	idx := make([]int, len(v.keys))
	for i := range idx {
		idx[i] = i
	}
	sort.Slice(idx, func(a, b int) bool { return v.keys[idx[a]] < v.keys[idx[b]] })
	var sb strings.Builder
	sb.WriteByte('{')
	for n, i := range idx {
		if n > 0 {
			sb.WriteByte(',')
		}
		kb, _ := json.Marshal(v.keys[i])
		sb.Write(kb)
		sb.WriteByte(':')
		sb.WriteString(v.vals[i].canon())
	}
	sb.WriteByte('}')
	return sb.String()
}

// toAny builds a FRESH Go value (map[string]any / []any / float64 / string / nil / bool) as
// encoding/json would decode it; the code under test may mutate it freely.
func (v *jv) toAny() any {
	if v.obj {
		m := make(map[string]any, len(v.keys))
		for i, k := range v.keys {
			m[k] = v.vals[i].toAny()
		}
		return m
	}
	switch v.lit { // fast paths for the enumeration alphabet (what encoding/json would produce)
	case `null`:
		return nil
	case `1`:
		return float64(1)
	case `"s"`:
		return "s"
	case `[]`:
		return []any{}
	case `[1,null]`:
		return []any{float64(1), nil}
	case `false`:
		return false
	}
	var out any
	if err := json.Unmarshal([]byte(v.lit), &out); err != nil {
		panic("harness literal " + v.lit + ": " + err.Error())
	}
	return out
}

// sameAsAny compares a reference value with what the code under test returned without building
// strings (the hot path of part A); on a mismatch the caller renders both sides.
func sameAsAny(v *jv, a any) bool {
	if v.obj {
		m, ok := a.(map[string]any)
		if !ok || m == nil || len(m) != len(v.keys) {
			return false
		}
		for i, k := range v.keys {
			x, ok := m[k]
			if !ok || !sameAsAny(v.vals[i], x) {
				return false
			}
		}
		return true
	}
	switch x := a.(type) {
	case nil:
		return v.lit == `null`
	case float64:
		return x == 1 && v.lit == `1`
	case string:
		return x == "s" && v.lit == `"s"`
	case bool:
		return !x && v.lit == `false`
	case map[string]any:
		return false
	}
	return canonAny(a) == v.lit
}

// fromAny converts a decoded JSON document into the reference type.
func fromAny(a any) *jv {
	if m, ok := a.(map[string]any); ok {
		o := &jv{obj: true}
		ks := make([]string, 0, len(m))
		for k := range m {
			ks = append(ks, k)
		}
		sort.Strings(ks)
		for _, k := range ks {
			o.keys = append(o.keys, k)
			o.vals = append(o.vals, fromAny(m[k]))
		}
		return o
	}
	b, err := json.Marshal(a)
	if err != nil {
		panic(err)
	}
	return lit(string(b))
}

// canonAny renders what the code under test returned, with our own serializer for the object
// levels (so that a non-map object type or a nil map would be visible) and encoding/json for
// the non-object values.
func canonAny(a any) string {
	switch x := a.(type) {
	case map[string]any:
		if x == nil {
			return "<nil-map>"
		}
		ks := make([]string, 0, len(x))
		for k := range x {
			ks = append(ks, k)
		}
		sort.Strings(ks)
		var sb strings.Builder
		sb.WriteByte('{')
		for i, k := range ks {
			if i > 0 {
				sb.WriteByte(',')
			}
			kb, _ := json.Marshal(k)
			sb.Write(kb)
			sb.WriteByte(':')
			sb.WriteString(canonAny(x[k]))
		}
		sb.WriteByte('}')
		return sb.String()
	default:
		b, err := json.Marshal(a)
		if err != nil {
			return "<unmarshalable:" + err.Error() + ">"
		}
		return string(b)
	}
}

// refMergePatch is RFC 7396 section 2, line by line:
//
//	define MergePatch(Target, Patch):
//	  if Patch is an Object:
//	    if Target is not an Object:
//	      Target = {} # Ignore the contents and set it to an empty Object
//	    for each Name/Value pair in Patch:
//	      if Value is null:
//	        if Name exists in Target:
//	          remove the Name/Value pair from Target
//	      else:
//	        Target[Name] = MergePatch(Target[Name], Value)
//	    return Target
//	  else:
//	    return Patch
//
// Target may be nil (= member absent, "not an Object").
func refMergePatch(target, patch *jv) *jv {
	if !patch.obj {
		return patch
	}
	res := &jv{obj: true}
	if target != nil && target.obj {
		res.keys = append(res.keys, target.keys...)
		res.vals = append(res.vals, target.vals...)
	}
	for i, name := range patch.keys {
		value := patch.vals[i]
		pos := -1
		for j, k := range res.keys {
			if k == name {
				pos = j
			}
		}
		if value.isNull() {
			if pos >= 0 {
				res.keys = append(append([]string{}, res.keys[:pos]...), res.keys[pos+1:]...)
				res.vals = append(append([]*jv{}, res.vals[:pos]...), res.vals[pos+1:]...)
			}
			continue
		}
		var cur *jv
		if pos >= 0 {
			cur = res.vals[pos]
		}
		m := refMergePatch(cur, value)
		if pos >= 0 {
			res.vals[pos] = m
		} else {
			res.keys = append(res.keys, name)
			res.vals = append(res.vals, m)
		}
	}
	return res
}

// rfcAppendixA are the test cases of RFC 7396 Appendix A (ORIGINAL, PATCH, RESULT); they pin the
// reference transcription itself.
var rfcAppendixA = [][3]string{
	{`{"a":"b"}`, `{"a":"c"}`, `{"a":"c"}`},
	{`{"a":"b"}`, `{"b":"c"}`, `{"a":"b","b":"c"}`},
	{`{"a":"b"}`, `{"a":null}`, `{}`},
	{`{"a":"b","b":"c"}`, `{"a":null}`, `{"b":"c"}`},
	{`{"a":["b"]}`, `{"a":"c"}`, `{"a":"c"}`},
	{`{"a":"c"}`, `{"a":["b"]}`, `{"a":["b"]}`},
	{`{"a":{"b":"c"}}`, `{"a":{"b":"d","c":null}}`, `{"a":{"b":"d"}}`},
	{`{"a":[{"b":"c"}]}`, `{"a":[1]}`, `{"a":[1]}`},
	{`["a","b"]`, `["c","d"]`, `["c","d"]`},
	{`{"a":"b"}`, `["c"]`, `["c"]`},
	{`{"a":"foo"}`, `null`, `null`},
	{`{"a":"foo"}`, `"bar"`, `"bar"`},
	{`{"e":null}`, `{"a":1}`, `{"e":null,"a":1}`},
	{`[1,2]`, `{"a":"b","c":null}`, `{"a":"b"}`},
	{`{}`, `{"a":{"bb":{"ccc":null}}}`, `{"a":{"bb":{}}}`},
}

func parseJV(s string) *jv {
	var a any
	if err := json.Unmarshal([]byte(s), &a); err != nil {
		panic(err)
	}
	return fromAny(a)
}

// ---------------------------------------------------------------------------------------------
// enumeration
// ---------------------------------------------------------------------------------------------

// gen returns every JSON value of nesting depth <= d: the non-object leaves plus every object
// over subsets of keys whose members are values of depth <= d-1. The empty object is the object
// over the empty subset.
func gen(d int, keys []string, leaves []string) []*jv {
	var out []*jv
	for _, l := range leaves {
		out = append(out, lit(l))
	}
	if d <= 1 {
		return append(out, &jv{obj: true})
	}
	sub := gen(d-1, keys, leaves)
	// each key: absent or one of sub
	var rec func(i int, cur *jv)
	rec = func(i int, cur *jv) {
		if i == len(keys) {
			c := &jv{obj: true, keys: append([]string{}, cur.keys...), vals: append([]*jv{}, cur.vals...)}
			out = append(out, c)
			return
		}
		rec(i+1, cur)
		for _, s := range sub {
			cur.keys = append(cur.keys, keys[i])
			cur.vals = append(cur.vals, s)
			rec(i+1, cur)
			cur.keys = cur.keys[:len(cur.keys)-1]
			cur.vals = cur.vals[:len(cur.vals)-1]
		}
	}
	rec(0, &jv{obj: true})
	return out
}

// classify names the RFC rule(s) a pair exercises at the top two levels.
func classify(t, p *jv, add func(string)) {
	if !p.obj {
		add("patch-nonobject-replaces")
		if strings.HasPrefix(p.lit, "[") {
			add("patch-array-replaces")
		}
		if p.isNull() {
			add("patch-null-top")
		}
		return
	}
	if !t.obj {
		add("target-nonobject-reset-to-empty")
	}
	if len(p.keys) == 0 {
		add("patch-empty-object")
	}
	for i, k := range p.keys {
		v := p.vals[i]
		var cur *jv
		if t.obj {
			cur = t.get(k)
		}
		switch {
		case v.isNull() && cur != nil:
			add("null-removes-existing")
		case v.isNull():
			add("null-on-absent")
		case v.obj && cur != nil && cur.obj:
			add("object-merges-into-object")
			for j, k2 := range v.keys {
				if v.vals[j].isNull() && cur.get(k2) != nil {
					add("nested-null-removes")
				}
			}
		case v.obj && cur != nil:
			add("object-over-nonobject-member")
		case v.obj:
			add("object-into-absent-member")
			for _, vv := range v.vals {
				if vv.isNull() {
					add("nested-null-in-new-object-dropped")
				}
			}
		case cur != nil:
			add("scalar-or-array-replaces-member")
		default:
			add("scalar-or-array-added")
		}
		if !v.obj && strings.Contains(v.lit, "null") && v.lit != "null" {
			add("null-inside-array-kept")
		}
	}
}

type pairCase struct {
	Part   string `json:"part"`
	Target string `json:"target"`
	Patch  string `json:"patch"`
}

func runPair(part string, t, p *jv) (got, want string, panicked any) {
	want = refMergePatch(t, p).canon()
	switch part {
	case "A":
		pk, pv := vrt.Catch(func() { got = canonAny(applyMergePatch(t.toAny(), p.toAny())) })
		if pk {
			return "", want, pv
		}
	case "B":
		pk, pv := vrt.Catch(func() {
			var ta, pa any
			if err := json.Unmarshal([]byte(t.canon()), &ta); err != nil {
				panic(err)
			}
			if err := json.Unmarshal([]byte(p.canon()), &pa); err != nil {
				panic(err)
			}
			b, err := json.Marshal(applyMergePatch(ta, pa))
			if err != nil {
				got = "<marshal error: " + err.Error() + ">"
				return
			}
			got = string(b)
		})
		if pk {
			return "", want, pv
		}
	}
	return got, want, nil
}

func failKind(t, p *jv) string {
	// a stable, coarse identity of WHAT fails: which RFC clause the top level of the pair hits
	switch {
	case !p.obj:
		return "nonobject-patch"
	case !t.obj:
		return "object-patch-on-nonobject-target"
	default:
		return "object-patch-on-object-target"
	}
}

// ---------------------------------------------------------------------------------------------
// Part C helpers: real configurations
// ---------------------------------------------------------------------------------------------

func cloneConfig(c *config.Config) *config.Config {
	b, err := yaml.Marshal(c)
	if err != nil {
		panic(err)
	}
	var out config.Config
	if err := yaml.Unmarshal(b, &out); err != nil {
		panic(err)
	}
	return &out
}

func liteBase() *config.Config {
	c := config.DefaultConfig
	c.Config.Bind = "127.0.0.1:25565"
	c.Config.Lite.Enabled = true
	c.Config.Lite.Routes = []liteconfig.Route{{
		Host:         []string{"play.example.test"},
		Backend:      []string{"backend.example.test:25565"},
		CachePingTTL: configutil.Duration(30 * time.Second),
	}, {
		Host:     []string{"*.example.test", "alt.example.test"},
		Backend:  []string{"10.0.0.1:25565", "10.0.0.2:25565"},
		Strategy: liteconfig.StrategyRoundRobin,
	}}
	return &c
}

func classicBase() *config.Config {
	c := config.DefaultConfig
	c.Config.Bind = "0.0.0.0:25565"
	c.Config.Servers = map[string]string{"server1": "localhost:25566", "server2": "localhost:25567"}
	c.Config.Try = []string{"server1", "server2"}
	c.Config.ForcedHosts = map[string][]string{"play.example.test": {"server2"}}
	c.Config.ProxyProtocolTrustedProxies = []string{"10.0.0.0/8"}
	c.API.Enabled = true
	return &c
}

// shippedBase loads the repository's config.yml the way LoadConfig does (defaults + lenient
// YAML). Returns nil when the file is not readable.
func shippedBase() *config.Config {
	repo := os.Getenv("VERIF_REPO")
	if repo == "" {
		repo = "/repo"
	}
	b, err := os.ReadFile(filepath.Join(repo, "config.yml"))
	if err != nil {
		return nil
	}
	c := cloneConfig(&config.DefaultConfig)
	if err := yaml.Unmarshal(b, c); err != nil {
		return nil
	}
	return c
}

// effectiveDoc is the harness's own rendering of "the effective configuration as a JSON
// document": the YAML the API hands out in GetConfig (yaml.Marshal of the config), parsed
// generically. It does not call canonicalConfigJSON / normalizeYAMLValue.
func effectiveDoc(c *config.Config) (*jv, error) {
	y, err := yaml.Marshal(c)
	if err != nil {
		return nil, err
	}
	var n yaml.Node
	if err := yaml.Unmarshal(y, &n); err != nil {
		return nil, err
	}
	return nodeToJV(&n)
}

func nodeToJV(n *yaml.Node) (*jv, error) {
	switch n.Kind {
	case yaml.DocumentNode:
		if len(n.Content) == 0 {
			return lit("null"), nil
		}
		return nodeToJV(n.Content[0])
	case yaml.AliasNode:
		return nodeToJV(n.Alias)
	case yaml.MappingNode:
		o := &jv{obj: true}
		for i := 0; i+1 < len(n.Content); i += 2 {
			v, err := nodeToJV(n.Content[i+1])
			if err != nil {
				return nil, err
			}
			o.keys = append(o.keys, n.Content[i].Value)
			o.vals = append(o.vals, v)
		}
		return o, nil
	case yaml.SequenceNode:
		parts := make([]string, 0, len(n.Content))
		for _, c := range n.Content {
			v, err := nodeToJV(c)
			if err != nil {
				return nil, err
			}
			parts = append(parts, v.canon())
		}
		return lit("[" + strings.Join(parts, ",") + "]"), nil
	case yaml.ScalarNode:
		var a any
		if err := n.Decode(&a); err != nil {
			return nil, err
		}
		b, err := json.Marshal(a)
		if err != nil {
			return nil, err
		}
		return lit(string(b)), nil
	}
	return nil, fmt.Errorf("unexpected yaml node kind %d", n.Kind)
}

// strictDecode is the harness's own strict decoder: one YAML/JSON document, unknown members
// rejected, into a zero configuration.
func strictDecode(doc string) (*config.Config, error) {
	dec := yaml.NewDecoder(strings.NewReader(doc))
	dec.KnownFields(true)
	var c config.Config
	if err := dec.Decode(&c); err != nil {
		return nil, err
	}
	var more any
	if err := dec.Decode(&more); !errors.Is(err, io.EOF) {
		return nil, errors.New("trailing document")
	}
	return &c, nil
}

func yamlOf(c *config.Config) string {
	b, err := yaml.Marshal(c)
	if err != nil {
		return "<yaml error " + err.Error() + ">"
	}
	return string(b)
}

// structPaths walks the configuration TYPE and returns, for every JSON-object-valued path of doc
// that corresponds to a Go struct (not a map), true. Used for the independent "unknown member
// must be rejected" oracle.
func yamlFieldNames(t reflect.Type) (names map[string]reflect.Type, ok bool) {
	for t.Kind() == reflect.Pointer {
		t = t.Elem()
	}
	if t.Kind() != reflect.Struct {
		return nil, false
	}
	// types with custom YAML unmarshalling are opaque
	if reflect.PointerTo(t).Implements(reflect.TypeOf((*yaml.Unmarshaler)(nil)).Elem()) {
		return nil, false
	}
	if reflect.PointerTo(t).Implements(reflect.TypeOf((*interface{ UnmarshalText([]byte) error })(nil)).Elem()) {
		return nil, false
	}
	names = map[string]reflect.Type{}
	for i := 0; i < t.NumField(); i++ {
		f := t.Field(i)
		if !f.IsExported() {
			continue
		}
		tag := f.Tag.Get("yaml")
		parts := strings.Split(tag, ",")
		inline := false
		for _, p := range parts[1:] {
			if p == "inline" {
				inline = true
			}
		}
		if inline {
			sub, ok := yamlFieldNames(f.Type)
			if !ok {
				return nil, false
			}
			for k, v := range sub {
				names[k] = v
			}
			continue
		}
		name := parts[0]
		if name == "-" {
			continue
		}
		if name == "" {
			name = strings.ToLower(f.Name)
		}
		names[name] = f.Type
	}
	return names, true
}

type docPath []string

// walkDoc visits every object node of doc that maps to a plain Go struct of the config type.
func walkStructObjects(doc *jv, t reflect.Type, path docPath, visit func(path docPath, obj *jv, fields map[string]reflect.Type)) {
	fields, ok := yamlFieldNames(t)
	if !ok || !doc.obj {
		return
	}
	visit(path, doc, fields)
	for i, k := range doc.keys {
		ft, ok := fields[k]
		if !ok {
			continue
		}
		walkStructObjects(doc.vals[i], ft, append(append(docPath{}, path...), k), visit)
	}
}

// patchAt builds {"p0":{"p1":{... leaf}}}.
func patchAt(path docPath, leaf *jv) *jv {
	cur := leaf
	for i := len(path) - 1; i >= 0; i-- {
		cur = object(path[i], cur)
	}
	return cur
}

// leafPaths returns every path to a non-object value and every path to an object.
func allPaths(doc *jv, path docPath, visit func(path docPath, v *jv)) {
	visit(path, doc)
	if doc.obj {
		for i, k := range doc.keys {
			allPaths(doc.vals[i], append(append(docPath{}, path...), k), visit)
		}
	}
}

type cfgCase struct {
	Part  string `json:"part"`
	Base  string `json:"base"`
	Patch string `json:"patch"`
}

// checkConfigPatch runs one patch against one base configuration and applies the oracle.
func checkConfigPatch(r *vrt.R, baseName string, base *config.Config, doc *jv, patch *jv, mustReject bool, kind string) {
	patchText := patch.canon()
	r.Eval(1)
	var got *config.Config
	var gotErr error
	pk, pv := vrt.Catch(func() { got, gotErr = mergeConfigPatch(cloneConfig(base), patchText) })
	cs := cfgCase{Part: "C", Base: baseName, Patch: patchText}
	if pk {
		r.Violation("mergeConfigPatch/panic/"+kind, fmt.Sprintf("base %s, patch %s: panic %v", baseName, patchText, pv), cs)
		return
	}
	merged := refMergePatch(doc, patch)
	want, wantErr := strictDecode(merged.canon())
	if mustReject && wantErr == nil {
		// the independent unknown-member oracle disagrees with the YAML library: report as a
		// harness-level note, not a violation (the statement defines acceptance by strict decode)
		r.Note("unknown-member oracle: yaml strict decode accepted " + patchText)
	}
	switch {
	case wantErr != nil && gotErr == nil:
		r.Violation("mergeConfigPatch/accepted-undecodable/"+kind,
			fmt.Sprintf("base %s, patch %s: RFC result does not decode strictly (%v) but mergeConfigPatch accepted it", baseName, patchText, wantErr), cs)
	case wantErr == nil && gotErr != nil:
		r.Violation("mergeConfigPatch/rejected-decodable/"+kind,
			fmt.Sprintf("base %s, patch %s: RFC result decodes strictly but mergeConfigPatch returned %v", baseName, patchText, gotErr), cs)
	case wantErr == nil:
		if g, w := yamlOf(got), yamlOf(want); g != w {
			r.Violation("mergeConfigPatch/wrong-result/"+kind,
				fmt.Sprintf("base %s, patch %s: result differs from strict decode of the RFC 7396 merge\n%s", baseName, patchText, firstDiff(g, w)), cs)
		} else {
			r.Class("C:accepted:" + kind)
			return
		}
	default:
		r.Class("C:rejected:" + kind)
	}
}

func firstDiff(got, want string) string {
	g, w := strings.Split(got, "\n"), strings.Split(want, "\n")
	for i := 0; i < len(g) || i < len(w); i++ {
		var a, b string
		if i < len(g) {
			a = g[i]
		}
		if i < len(w) {
			b = w[i]
		}
		if a != b {
			if len(a) > 200 {
				a = a[:200]
			}
			if len(b) > 200 {
				b = b[:200]
			}
			return fmt.Sprintf("first differing YAML line %d: got %q, want %q", i+1, a, b)
		}
	}
	return "(no textual difference)"
}

// wrongTypeFor returns replacement leaves of a different JSON type than v.
func wrongTypeFor(v *jv) []*jv {
	cands := []*jv{lit(`"zz"`), lit(`7`), lit(`true`), lit(`[1]`), lit(`["zz"]`), object("zz", lit(`1`)), object()}
	var out []*jv
	for _, c := range cands {
		if c.obj == v.obj && (c.obj || c.lit == v.lit) {
			continue
		}
		out = append(out, c)
	}
	return out
}

func baseByName(name string) *config.Config {
	switch name {
	case "lite":
		return liteBase()
	case "classic":
		return classicBase()
	}
	return shippedBase()
}

// malformedPatches are texts that are not one JSON document: there is no RFC 7396 result, so
// nothing can "decode strictly as a configuration" and the request must be refused.
var malformedPatches = []string{``, ` `, `{`, `}`, `{"config":}`, `{"config":{"bind":"127.0.0.1:1"},}`, `{} {}`, `{}x`, `nul`, `[1,]`,
	`{'config':{}}`, `{config:{}}`, "\ufeff{}", `{"config":{"bind":"a"}`, `{"config":{"bind":"a}}`, `{"config":{"bind":01}}`, `// c\n{}`, `{"config":undefined}`}

func checkMalformed(r *vrt.R, baseName string, base *config.Config, text string) {
	r.Eval(1)
	var got *config.Config
	var err error
	cs := cfgCase{Part: "M", Base: baseName, Patch: text}
	if pk, pv := vrt.Catch(func() { got, err = mergeConfigPatch(cloneConfig(base), text) }); pk {
		r.Violation("mergeConfigPatch/panic/malformed-patch", fmt.Sprintf("base %s, patch text %q: panic %v", baseName, text, pv), cs)
		return
	}
	var probe any
	if json.Unmarshal([]byte(text), &probe) == nil {
		r.Violation("harness/malformed-patch-is-json", fmt.Sprintf("%q parses as JSON", text), nil)
		return
	}
	if err == nil {
		r.Violation("mergeConfigPatch/accepted-malformed-patch", fmt.Sprintf("base %s: the patch text %q is not a JSON document but mergeConfigPatch returned a configuration (bind %q, lite %v)", baseName, text, got.Config.Bind, got.Config.Lite.Enabled), cs)
		return
	}
	r.Class("C:rejected:malformed-patch-text")
}

func checkNilCurrent(r *vrt.R) {
	r.Eval(1)
	var got *config.Config
	var err error
	if pk, pv := vrt.Catch(func() { got, err = mergeConfigPatch(nil, `{}`) }); pk {
		r.Violation("mergeConfigPatch/panic/no-current-config", fmt.Sprintf("panic %v", pv), cfgCase{Part: "N"})
	} else if err == nil {
		r.Violation("mergeConfigPatch/accepted-without-current-config", fmt.Sprintf("no effective configuration to patch, but a configuration was returned: %v", got != nil), cfgCase{Part: "N"})
	} else {
		r.Class("C:rejected:no-current-config")
	}
}

// scalarContents returns replacement values of the SAME JSON type as v whose content is what a
// text pipeline could mangle (the merge algorithm itself never looks inside scalars, but
// mergeConfigPatch carries them through JSON and YAML codecs). All literals are in the canonical
// form encoding/json writes, so the reference document and the real pipeline agree textually.
func scalarContents(v *jv) []*jv {
	if v.obj {
		return nil
	}
	var out []*jv
	add := func(ls ...string) {
		for _, l := range ls {
			if l != v.lit {
				out = append(out, lit(l))
			}
		}
	}
	switch {
	case strings.HasPrefix(v.lit, `[`):
		// array-valued members: replaced as a whole by the empty array, an array holding null,
		// the same array twice over, and (arrays of objects) the first element with every member
		// nulled — nulls inside arrays are NOT removals
		var arr []any
		if json.Unmarshal([]byte(v.lit), &arr) == nil {
			add(`[]`, `[null]`)
			if len(arr) > 0 {
				b, _ := json.Marshal(append(append([]any{}, arr...), arr...))
				add(string(b))
				if m, ok := arr[0].(map[string]any); ok {
					nulled := map[string]any{}
					for k := range m {
						nulled[k] = nil
					}
					b, _ := json.Marshal([]any{nulled})
					add(string(b))
				}
			}
		}
	case strings.HasPrefix(v.lit, `"`):
		long, _ := json.Marshal(strings.Repeat("x y ", 80))
		add(`""`, `"null"`, `"~"`, `"yes"`, `"1e3"`, `"0x10"`, `" a: b #c"`, `"- x"`, `"line1\nline2"`, `"\ttab"`, `"§ü€"`, `"\u003c\u003e\u0026"`, `"'\"\\"`, `"{}"`, `"[]"`, string(long))
	case v.lit == `true` || v.lit == `false`:
		add(`true`, `false`)
	case v.lit != `null`:
		add(`0`, `-1`, `1.5`, `1000000`)
	}
	return out
}

func partC(r *vrt.R) {
	bases := []struct {
		name string
		c    *config.Config
	}{{"lite", liteBase()}, {"classic", classicBase()}}
	if sb := shippedBase(); sb != nil {
		bases = append(bases, struct {
			name string
			c    *config.Config
		}{"shipped-config.yml", sb})
	} else {
		r.Note("config.yml of the repo not loadable; shipped base skipped")
	}
	item := 0
	if r.Mine(item) {
		checkNilCurrent(r)
	}
	item++
	for _, b := range bases {
		doc, err := effectiveDoc(b.c)
		if err != nil {
			r.Violation("harness/effective-doc", "cannot render base "+b.name+": "+err.Error(), nil)
			continue
		}
		// 0. empty patch is the identity on the effective configuration
		if r.Mine(item) {
			r.Eval(1)
			got, err := mergeConfigPatch(cloneConfig(b.c), `{}`)
			cs := cfgCase{Part: "C", Base: b.name, Patch: `{}`}
			if err != nil {
				r.Violation("mergeConfigPatch/empty-patch-rejected", fmt.Sprintf("base %s: patch {} returned %v", b.name, err), cs)
			} else if g, w := yamlOf(got), yamlOf(b.c); g != w {
				r.Violation("mergeConfigPatch/empty-patch-not-identity", fmt.Sprintf("base %s: patch {} changed the configuration\n%s", b.name, firstDiff(g, w)), cs)
			} else {
				r.Class("C:empty-patch-identity")
			}
		}
		item++
		// 1. unknown member at every struct-typed object of the document
		walkStructObjects(doc, reflect.TypeOf(config.Config{}), nil, func(path docPath, obj *jv, fields map[string]reflect.Type) {
			for _, unk := range []*jv{lit(`true`), lit(`"x"`), object("a", lit(`1`))} {
				if r.Mine(item) {
					p := patchAt(append(append(docPath{}, path...), "zzVerifUnknown"), unk)
					checkConfigPatch(r, b.name, b.c, doc, p, true, "unknown-member")
					r.Nontrivial(1)
				}
				item++
			}
			// a null for an unknown member is a removal of nothing: must be accepted and a no-op
			if r.Mine(item) {
				p := patchAt(append(append(docPath{}, path...), "zzVerifUnknown"), lit(`null`))
				checkConfigPatch(r, b.name, b.c, doc, p, false, "null-for-unknown-member")
			}
			item++
		})
		// 2. every path of the document: null (remove), same value, wrong-typed values, and for
		// objects the empty-object patch
		allPaths(doc, nil, func(path docPath, v *jv) {
			if len(path) == 0 {
				return
			}
			var ps []struct {
				p    *jv
				kind string
			}
			add := func(p *jv, kind string) {
				ps = append(ps, struct {
					p    *jv
					kind string
				}{p, kind})
			}
			add(patchAt(path, lit(`null`)), "remove-member")
			if v.obj {
				add(patchAt(path, object()), "empty-object-at-object")
			} else {
				add(patchAt(path, v), "same-value")
			}
			for _, w := range wrongTypeFor(v) {
				add(patchAt(path, w), "retyped-member")
			}
			for _, pc := range ps {
				if r.Mine(item) {
					checkConfigPatch(r, b.name, b.c, doc, pc.p, false, pc.kind)
					r.Nontrivial(1)
				}
				item++
			}
		})
		// 2b. scalar contents: every scalar leaf replaced by same-typed values with awkward content
		if b.name != "shipped-config.yml" {
			allPaths(doc, nil, func(path docPath, v *jv) {
				if len(path) == 0 {
					return
				}
				for _, w := range scalarContents(v) {
					if r.Mine(item) {
						checkConfigPatch(r, b.name, b.c, doc, patchAt(path, w), false, "scalar-content")
						r.Nontrivial(1)
					}
					item++
				}
			})
		}
		// 2c. patch texts that are not a JSON document
		for _, text := range malformedPatches {
			if r.Mine(item) {
				checkMalformed(r, b.name, b.c, text)
			}
			item++
		}
		// 3. non-object and null top-level patches replace the whole document
		for _, top := range []string{`null`, `1`, `"s"`, `[]`, `[{"config":{}}]`} {
			if r.Mine(item) {
				checkConfigPatch(r, b.name, b.c, doc, lit(top), false, "nonobject-top-level-patch")
			}
			item++
		}
		// 4. pairs of member patches under config.lite / config.quota (two simultaneous edits)
		var twoPaths []docPath
		allPaths(doc, nil, func(path docPath, v *jv) {
			if len(path) >= 2 && path[0] == "config" && (path[1] == "lite" || path[1] == "quota" || path[1] == "forwarding" || path[1] == "servers") && !v.obj {
				twoPaths = append(twoPaths, path)
			}
		})
		for i := range twoPaths {
			for j := range twoPaths {
				if i == j {
					continue
				}
				if r.Mine(item) {
					p1 := patchAt(twoPaths[i], lit(`null`))
					p2 := patchAt(twoPaths[j], lit(`"zz"`))
					// combine the two single-path patches with the reference merge of patches as
					// documents: p2's members are added to p1 (paths differ, so no null is lost)
					checkConfigPatch(r, b.name, b.c, doc, unionPatch(p1, p2), false, "two-member-patch")
				}
				item++
			}
		}
	}
}

// unionPatch overlays two patch documents member-wise (keeps nulls, unlike a merge patch).
func unionPatch(a, b *jv) *jv {
	if !a.obj || !b.obj {
		return b
	}
	out := &jv{obj: true, keys: append([]string{}, a.keys...), vals: append([]*jv{}, a.vals...)}
	for i, k := range b.keys {
		found := false
		for j, kk := range out.keys {
			if kk == k {
				out.vals[j] = unionPatch(out.vals[j], b.vals[i])
				found = true
			}
		}
		if !found {
			out.keys = append(out.keys, k)
			out.vals = append(out.vals, b.vals[i])
		}
	}
	return out
}

// ---------------------------------------------------------------------------------------------

func TestVerif(t *testing.T) {
	vrt.Run(t, "C36", func(r *vrt.R) {
		var rp map[string]string
		if r.ReplayInto(&rp) {
			replay(r, rp)
			return
		}

		// reference self-check against RFC 7396 Appendix A; the real code must pass them too
		for i, c := range rfcAppendixA {
			tv, pv, want := parseJV(c[0]), parseJV(c[1]), parseJV(c[2]).canon()
			if got := refMergePatch(tv, pv).canon(); got != want {
				r.Violation("harness/reference-disagrees-with-rfc-appendix-a", fmt.Sprintf("case %d: ref(%s,%s)=%s want %s", i, c[0], c[1], got, want), nil)
			}
			if r.Mine(i) {
				r.Eval(1)
				got, _, pk := runPair("B", tv, pv)
				if pk != nil || got != want {
					r.Violation("applyMergePatch/rfc-appendix-a", fmt.Sprintf("RFC 7396 appendix A case %d: target %s patch %s: got %s (panic %v), want %s", i, c[0], c[1], got, pk, want),
						pairCase{Part: "B", Target: c[0], Patch: c[1]})
				}
				r.Class("rfc-appendix-a")
			}
		}

		keys := []string{"a", "b"}
		leaves := []string{`null`, `1`, `"s"`, `[1,null]`}
		if r.Thorough() {
			leaves = append(leaves, `[]`, `false`, `[{"a":null}]`)
		}
		vals := gen(3, keys, leaves)
		shallow := gen(2, keys, leaves)
		if r.Shard == 0 {
			r.Extra("values_depth3", len(vals))
			r.Extra("values_depth2", len(shallow))
		}

		// Part A
		classes := map[string]int{}
		add := func(s string) { classes[s]++ }
		var nontrivial int
		ti := 0
		for i, tv := range vals {
			if !r.Mine(i) {
				continue
			}
			ti++
			tvAny := tv.toAny()
			if ti%16 == 0 && r.Expired() {
				break
			}
			for _, pv := range vals {
				wantV := refMergePatch(tv, pv)
				var gotA any
				pk, pval := vrt.Catch(func() { gotA = applyMergePatch(tv.toAny(), pv.toAny()) })
				if pk {
					r.Violation("applyMergePatch/panic/"+failKind(tv, pv), fmt.Sprintf("target %s patch %s: panic %v", tv.canon(), pv.canon(), pval),
						pairCase{Part: "A", Target: tv.canon(), Patch: pv.canon()})
					continue
				}
				if !sameAsAny(wantV, gotA) {
					r.Violation("applyMergePatch/differs-from-rfc7396/"+failKind(tv, pv),
						fmt.Sprintf("target %s patch %s: got %s, RFC 7396 gives %s", tv.canon(), pv.canon(), canonAny(gotA), wantV.canon()),
						pairCase{Part: "A", Target: tv.canon(), Patch: pv.canon()})
				}
				if pv.obj && tv.obj && len(pv.keys) > 0 && !sameAsAny(wantV, tvAny) {
					nontrivial++
				}
				if ti%7 == 0 { // classes are tallied on every 7th target row (evidence only)
					classify(tv, pv, add)
				}
			}
			r.Eval(len(vals))
		}
		r.Nontrivial(nontrivial)
		for k, n := range classes {
			r.ClassN("A:"+k, n)
		}
		if len(vals) > 7 && r.Shard == 0 {
			r.Sample(map[string]string{"target": vals[len(vals)/2].canon(), "patch": vals[len(vals)/3].canon(),
				"result": refMergePatch(vals[len(vals)/2], vals[len(vals)/3]).canon()})
		}

		// Part B: JSON text pipeline on every depth<=2 pair
		for i, tv := range shallow {
			if !r.Mine(i) {
				continue
			}
			for _, pv := range shallow {
				got, want, pk := runPair("B", tv, pv)
				if pk != nil || got != want {
					r.Violation("json-pipeline/differs-from-rfc7396/"+failKind(tv, pv),
						fmt.Sprintf("target %s patch %s: got %s (panic %v), RFC 7396 gives %s", tv.canon(), pv.canon(), got, pk, want),
						pairCase{Part: "B", Target: tv.canon(), Patch: pv.canon()})
				}
			}
			r.Eval(len(shallow))
			r.ClassN("B:json-text-pipeline", len(shallow))
		}

		// Part A2 / B2: value and member-name SHAPES the main alphabet does not contain. RFC 7396
		// treats null as the only special value and member names as opaque, exact strings: the
		// "falsy" values 0, "", false, [] and the string "null" replace like any other value, and
		// names differing in case / the empty name are different members. Every ordered pair of
		// depth<=2 documents over names {a, A, ""} and these leaves (plus depth<=3 over the single
		// name a), through applyMergePatch on Go trees (A2) and through the JSON text pipeline (B2).
		leaves2 := []string{`null`, `0`, `""`, `false`, `[]`, `1`, `"null"`}
		vals2 := gen(2, []string{"a", "A", ""}, leaves2)
		deep2 := gen(3, []string{"a"}, leaves2)
		if r.Shard == 0 {
			r.Extra("values_part_A2", len(vals2)+len(deep2))
		}
		// arrays as values at every level, holding objects / arrays / nulls themselves: an array is
		// a non-object value, it replaces (and is replaced) as a whole, nothing inside it is merged
		// and nulls inside it stay
		leaves3 := []string{`null`, `true`, `[{"a":null}]`, `[[null],{}]`, `[{"a":{"a":null}},1]`}
		arr2 := gen(2, []string{"a", "b"}, leaves3)
		arr3 := gen(3, []string{"a"}, leaves3)
		if r.Shard == 0 {
			r.Extra("values_part_A3", len(arr2)+len(arr3))
		}
		for si, set := range [][]*jv{vals2, deep2, arr2, arr3} {
			suffix, cls := "falsy-values-and-member-names", "2:falsy-values-and-member-names"
			if si >= 2 {
				suffix, cls = "arrays-of-containers", "3:arrays-of-containers"
			}
			for i, tv := range set {
				if !r.Mine(i) {
					continue
				}
				if i%16 == 0 && r.Expired() {
					break
				}
				for _, pv := range set {
					for _, part := range []string{"A", "B"} {
						got, want, pk := runPair(part, tv, pv)
						if pk != nil || got != want {
							prefix := "applyMergePatch"
							if part == "B" {
								prefix = "json-pipeline"
							}
							r.Violation(prefix+"/differs-from-rfc7396/"+failKind(tv, pv)+"/"+suffix,
								fmt.Sprintf("target %s patch %s: got %s (panic %v), RFC 7396 gives %s", tv.canon(), pv.canon(), got, pk, want),
								pairCase{Part: part + cls[:1], Target: tv.canon(), Patch: pv.canon()})
						}
					}
				}
				r.Eval(2 * len(set))
				r.ClassN("A"+cls, len(set))
				r.ClassN("B"+cls, len(set))
			}
		}

		// Part C
		partC(r)
	})
}

func replay(r *vrt.R, rp map[string]string) {
	r.Eval(1)
	switch rp["part"] {
	case "A2", "B2", "A3", "B3":
		tv, pv := parseJV(rp["target"]), parseJV(rp["patch"])
		part := rp["part"][:1]
		suffix := "falsy-values-and-member-names"
		if strings.HasSuffix(rp["part"], "3") {
			suffix = "arrays-of-containers"
		}
		got, want, pk := runPair(part, tv, pv)
		if pk != nil || got != want {
			prefix := "applyMergePatch"
			if part == "B" {
				prefix = "json-pipeline"
			}
			r.Violation(prefix+"/differs-from-rfc7396/"+failKind(tv, pv)+"/"+suffix, fmt.Sprintf("target %s patch %s: got %s (panic %v) want %s", rp["target"], rp["patch"], got, pk, want), rp)
		}
	case "M":
		checkMalformed(r, rp["base"], baseByName(rp["base"]), rp["patch"])
	case "N":
		checkNilCurrent(r)
	case "A", "B":
		tv, pv := parseJV(rp["target"]), parseJV(rp["patch"])
		got, want, pk := runPair(rp["part"], tv, pv)
		if pk != nil {
			r.Violation("applyMergePatch/panic/"+failKind(tv, pv), fmt.Sprintf("panic %v", pk), rp)
			return
		}
		if got != want {
			prefix := "applyMergePatch"
			if rp["part"] == "B" {
				prefix = "json-pipeline"
			}
			r.Violation(prefix+"/differs-from-rfc7396/"+failKind(tv, pv), fmt.Sprintf("target %s patch %s: got %s want %s", rp["target"], rp["patch"], got, want), rp)
			// appendix A cases share the pair format
			r.Violation("applyMergePatch/rfc-appendix-a", "replayed", rp)
		}
	case "C":
		base := baseByName(rp["base"])
		doc, err := effectiveDoc(base)
		if err != nil {
			r.T.Fatal(err)
		}
		patch := parseJV(rp["patch"])
		if rp["patch"] == `{}` {
			got, err := mergeConfigPatch(cloneConfig(base), `{}`)
			if err != nil {
				r.Violation("mergeConfigPatch/empty-patch-rejected", err.Error(), rp)
			} else if g, w := yamlOf(got), yamlOf(base); g != w {
				r.Violation("mergeConfigPatch/empty-patch-not-identity", firstDiff(g, w), rp)
			}
			return
		}
		// re-run under every kind label; the key carries the kind, so report under all that fail
		for _, kind := range []string{"unknown-member", "null-for-unknown-member", "remove-member", "empty-object-at-object", "same-value", "retyped-member", "nonobject-top-level-patch", "two-member-patch", "scalar-content"} {
			checkConfigPatch(r, rp["base"], base, doc, patch, false, kind)
		}
	}
}

var _ = bytes.Equal
