package proxy

// C33 — PROXY protocol headers are honoured only from trusted upstreams.
//
// Engine: enum. The real proxyProtocol.wrapConn / netutil.ParseTrustedNetworks / Contains are
// driven over in-memory connections; the reference (entry validity, CIDR membership on raw
// address bits, host extraction) is written on net.IP byte slices and shares nothing with
// netutil (which is built on net/netip).

import (
	"errors"
	"fmt"
	"io"
	"net"
	"strings"
	"testing"
	"time"

	"go.minekube.com/gate/pkg/edition/java/config"
	"go.minekube.com/gate/pkg/edition/java/proxy/zzverif/vrt"
	"go.minekube.com/gate/pkg/util/netutil"
)

// ---------------------------------------------------------------- reference

type refNet struct {
	ip   []byte // 4 or 16 bytes
	bits int
}

const (
	entInvalid = iota
	entValid
	entDontCare // the statement does not say (zoned entries, "/08")
)

func refEntry(s string) (int, refNet) {
	if strings.Contains(s, "%") || s != strings.TrimSpace(s) {
		return entDontCare, refNet{}
	}
	addr, bitsStr, isCIDR := strings.Cut(s, "/")
	var ip net.IP
	bits := -1
	if isCIDR {
		if len(bitsStr) > 1 && bitsStr[0] == '0' {
			return entDontCare, refNet{}
		}
		i, n, err := net.ParseCIDR(s)
		if err != nil {
			return entInvalid, refNet{}
		}
		ip = i
		bits, _ = n.Mask.Size()
	} else {
		ip = net.ParseIP(s)
		if ip == nil {
			return entInvalid, refNet{}
		}
	}
	v6text := strings.Contains(addr, ":")
	if v6text && ip.To4() != nil {
		return entInvalid, refNet{} // IPv4-mapped spelling
	}
	if !v6text {
		if bits < 0 {
			bits = 32
		}
		return entValid, refNet{ip: []byte(ip.To4()), bits: bits}
	}
	if bits < 0 {
		bits = 128
	}
	return entValid, refNet{ip: []byte(ip.To16()), bits: bits}
}

func refParseList(list []string) (status int, nets []refNet) {
	status = entValid
	for _, s := range list {
		st, n := refEntry(s)
		switch st {
		case entInvalid:
			return entInvalid, nil // any invalid entry makes the list invalid
		case entDontCare:
			status = entDontCare
		default:
			nets = append(nets, n)
		}
	}
	return status, nets
}

// refHost extracts the host from an address text: "[h]:p", "h:p" (exactly one colon), else all.
func refHost(s string) string {
	if strings.HasPrefix(s, "[") {
		if i := strings.Index(s, "]"); i > 0 {
			return s[1:i]
		}
		return s
	}
	if strings.Count(s, ":") == 1 {
		return s[:strings.Index(s, ":")]
	}
	return s
}

// refTrusted: CIDR membership of the peer's IP (zone dropped, IPv4-mapped folded to IPv4) by
// comparing the leading bits. Non-IP peers are never trusted.
func refTrusted(nets []refNet, peer net.Addr) bool {
	if peer == nil {
		return false
	}
	h := refHost(peer.String())
	if i := strings.Index(h, "%"); i >= 0 {
		if !strings.Contains(h[:i], ":") {
			return false // a zone on an IPv4 literal is not an IP address
		}
		h = h[:i]
	}
	ip := net.ParseIP(h)
	if ip == nil {
		return false
	}
	var b []byte
	if v4 := ip.To4(); v4 != nil {
		b = v4
	} else {
		b = ip.To16()
	}
	for _, n := range nets {
		if len(n.ip) != len(b) {
			continue
		}
		ok := true
		for i := 0; i < n.bits; i++ {
			if (n.ip[i/8]^b[i/8])&(0x80>>(i%8)) != 0 {
				ok = false
				break
			}
		}
		if ok {
			return true
		}
	}
	return false
}

// ---------------------------------------------------------------- in-memory connection

type strAddr string

func (strAddr) Network() string  { return "tcp" }
func (a strAddr) String() string { return string(a) }

type memConn struct {
	remote net.Addr
	data   []byte
	chunk  int // max bytes per Read (0 = all)
	closed bool
}

func (c *memConn) Read(p []byte) (int, error) {
	if len(c.data) == 0 {
		return 0, io.EOF
	}
	n := len(c.data)
	if c.chunk > 0 && n > c.chunk {
		n = c.chunk
	}
	if n > len(p) {
		n = len(p)
	}
	copy(p, c.data[:n])
	c.data = c.data[n:]
	return n, nil
}
func (c *memConn) Write(p []byte) (int, error)      { return len(p), nil }
func (c *memConn) Close() error                     { c.closed = true; return nil }
func (c *memConn) LocalAddr() net.Addr              { return &net.TCPAddr{IP: net.IPv4(198, 51, 100, 1), Port: 25565} }
func (c *memConn) RemoteAddr() net.Addr             { return c.remote }
func (c *memConn) SetDeadline(time.Time) error      { return nil }
func (c *memConn) SetReadDeadline(time.Time) error  { return nil }
func (c *memConn) SetWriteDeadline(time.Time) error { return nil }

// ---------------------------------------------------------------- alphabets

type stream struct {
	Name    string
	Bytes   []byte
	Kind    string // "header" (complete, carries an address), "local" (complete, no address), "none", "partial"
	Claimed string // source address a complete header claims
	Payload string
}

func v2hdr(cmd, fam byte, body []byte) []byte {
	b := []byte{0x0D, 0x0A, 0x0D, 0x0A, 0x00, 0x0D, 0x0A, 0x51, 0x55, 0x49, 0x54, 0x0A, 0x20 | cmd, fam, byte(len(body) >> 8), byte(len(body))}
	return append(b, body...)
}

func streams() []stream {
	pay := "\x10\x00\xfd\x05\x09localhost\x63\xdd\x01\x01\x00"
	v4body := []byte{203, 0, 113, 7, 198, 51, 100, 1, 0x10, 0x92, 0x63, 0xdd}
	v6body := append(append(append([]byte{}, net.ParseIP("2001:db8::7").To16()...), net.ParseIP("2001:db8::1").To16()...), 0x10, 0x92, 0x63, 0xdd)
	return []stream{
		{"v1-tcp4+payload", []byte("PROXY TCP4 203.0.113.7 198.51.100.1 4242 25565\r\n" + pay), "header", "203.0.113.7:4242", pay},
		{"v1-tcp4-only", []byte("PROXY TCP4 203.0.113.7 198.51.100.1 4242 25565\r\n"), "header", "203.0.113.7:4242", ""},
		{"v1-tcp6+payload", []byte("PROXY TCP6 2001:db8::7 2001:db8::1 4242 25565\r\n" + pay), "header", "[2001:db8::7]:4242", pay},
		{"v1-claims-loopback", []byte("PROXY TCP4 127.0.0.1 127.0.0.1 4242 25565\r\n" + pay), "header", "127.0.0.1:4242", pay},
		{"v2-tcp4+payload", append(v2hdr(1, 0x11, v4body), pay...), "header", "203.0.113.7:4242", pay},
		{"v2-tcp6+payload", append(v2hdr(1, 0x21, v6body), pay...), "header", "[2001:db8::7]:4242", pay},
		{"v1-unknown+payload", []byte("PROXY UNKNOWN\r\n" + pay), "local", "", pay},
		{"v2-local+payload", append(v2hdr(0, 0x00, nil), pay...), "local", "", pay},
		{"no-header-handshake", []byte(pay), "none", "", pay},
		{"no-header-empty", nil, "none", "", ""},
		{"no-header-legacy-ping", []byte{0xFE, 0x01}, "none", "", "\xfe\x01"},
		{"no-header-starts-with-P", []byte("PING 1\r\n"), "none", "", "PING 1\r\n"},
		{"no-header-near-miss", []byte("PROXZ TCP4 203.0.113.7 198.51.100.1 4242 25565\r\n"), "none", "", ""},
		{"no-header-CR-first", []byte("\r\n\r\nabc 0123456789"), "none", "", ""},
		{"partial-v1-sig", []byte("PROX"), "partial", "", ""},
		{"partial-v1-no-crlf", []byte("PROXY TCP4 203.0.113.7 198.51.100.1 4242"), "partial", "", ""},
		{"partial-v2-sig", v2hdr(1, 0x11, v4body)[:11], "partial", "", ""},
		{"partial-v2-short-body", v2hdr(1, 0x11, v4body)[:20], "partial", "", ""},
	}
}

var validEntries = []string{
	"10.1.2.3", "10.0.0.0/8", "10.1.2.3/32", "10.1.2.3/8", "10.1.2.2/31", "0.0.0.0/0", "172.16.0.0/12", "192.168.0.0/16",
	"::1", "::/0", "fe80::/64", "2001:db8::/32", "2001:db8::7/128", "203.0.113.7",
	// IPv6 prefixes that do not end on a byte boundary
	"fc00::/7", "fe80::/10", "2001:db8::/33", "2001:db8::6/127",
}
var otherEntries = []string{
	"", "10.0.0", "10.0.0.256", "10.0.0.0/33", "::1/129", "abc", "10.0.0.1:80", "[::1]", "10.0.0.0/-1", "10.0.0.0/", "/8", "010.0.0.1",
	"::ffff:10.1.2.3", "::ffff:10.0.0.0/104", "::ffff:a01:203", "::ffff:0:0/96", "0:0:0:0:0:ffff:10.1.2.3",
	"fe80::1%eth0", "10.0.0.0/08", " 10.1.2.3",
	"::g", "1::2::3", "2001:db8::/129", "2001:db8::/-1", "fe80::/1O", "::/", "12345::", "1:2:3:4:5:6:7:8:9", "::ffff:10.1.2.3/128",
}

func peerTexts() []string {
	return []string{
		"10.0.0.0", "10.255.255.255", "9.255.255.255", "11.0.0.0", "10.1.2.3", "10.1.2.2", "10.1.2.4", "10.1.2.1", "127.0.0.1",
		"192.168.0.1", "192.169.0.0", "192.167.255.255", "172.15.255.255", "172.16.0.0", "172.31.255.255", "172.32.0.0",
		"0.0.0.0", "255.255.255.255", "203.0.113.7", "203.0.113.8",
		"::1", "::", "::2", "fe80::1", "fe80::1%eth0", "fe80:0:0:1::1", "fe80::ffff:ffff:ffff:ffff%lo", "2001:db8::7", "2001:db8:ffff:ffff:ffff:ffff:ffff:ffff", "2001:db9::",
		"::ffff:10.1.2.3", "::ffff:11.0.0.1", "::ffff:a01:203", "::ffff:10.1.2.3%eth0", "::10.1.2.3",
		// both sides of the IPv6 prefixes above
		"fbff:ffff::1", "fc00::", "fdff:ffff:ffff:ffff:ffff:ffff:ffff:ffff", "fe00::", "fe7f:ffff::1", "fe80::", "febf:ffff::1%eth0", "fec0::",
		"2001:db8:7fff:ffff::1", "2001:db8:8000::", "2001:db8::6", "2001:db8::8", "2001:db8::5",
	}
}

type peer struct {
	Name string
	Addr net.Addr
}

func peers() []peer {
	var out []peer
	for _, t := range peerTexts() {
		h, zone, _ := strings.Cut(t, "%")
		if ip := net.ParseIP(h); ip != nil {
			out = append(out, peer{"tcpaddr:" + t, &net.TCPAddr{IP: ip, Port: 54321, Zone: zone}})
			// other typed addresses a connection may report: a 4-byte IP (what an AF_INET socket yields; ParseIP
			// always gives the 16-byte form), *net.IPAddr (no port), *net.UDPAddr
			if v4 := ip.To4(); v4 != nil && !strings.Contains(h, ":") {
				out = append(out, peer{"tcpaddr4:" + t, &net.TCPAddr{IP: v4, Port: 54321, Zone: zone}})
			}
			out = append(out, peer{"ipaddr:" + t, &net.IPAddr{IP: ip, Zone: zone}})
			out = append(out, peer{"udpaddr:" + t, &net.UDPAddr{IP: ip, Port: 54321, Zone: zone}})
		}
		if strings.Contains(t, ":") {
			out = append(out, peer{"text:[" + t + "]:54321", strAddr("[" + t + "]:54321")})
		} else {
			out = append(out, peer{"text:" + t + ":54321", strAddr(t + ":54321")})
		}
		out = append(out, peer{"text:" + t, strAddr(t)})
	}
	for _, t := range []string{"pipe", "/run/gate.sock", "@", "", "localhost:25565", "10.1.2.3.example.com:25", "10.1.2:80", "10.1.2.3:", ":54321", "[10.1.2.3]:54321", "10.1.2.3%eth0:54321", "[::1", "1.2.3.4.5"} {
		out = append(out, peer{"text:" + t, strAddr(t)})
	}
	out = append(out, peer{"tcpaddr:nil-ip", &net.TCPAddr{Port: 1}}, peer{"unixaddr", &net.UnixAddr{Name: "/run/gate.sock", Net: "unix"}}, peer{"nil", nil})
	return out
}

// ---------------------------------------------------------------- one case

type c33Case struct {
	List   []string `json:"list"`
	NilPP  bool     `json:"nil_wrapper,omitempty"`
	ViaCfg bool     `json:"via_config,omitempty"` // wrapper built by newProxyProtocol(cfg) instead of from ParseTrustedNetworks
	Peer   string   `json:"peer"`
	Stream string   `json:"stream"`
	Chunk  int      `json:"chunk"`
	Order  string   `json:"order"` // "addr-first" | "read-first"
}

func addrStr(a net.Addr) string {
	if a == nil {
		return "<nil>"
	}
	return a.String()
}

// parseCase checks ParseTrustedNetworks on the list; returns the wrapper (nil if invalid / don't care).
func parseCase(list []string) (pp *proxyProtocol, nets []refNet, usable bool, kind, desc string) {
	status, nets := refParseList(list)
	tn, err := netutil.ParseTrustedNetworks(list)
	switch status {
	case entInvalid:
		if err == nil {
			return nil, nil, false, "ParseTrustedNetworks/accepts-invalid", fmt.Sprintf("ParseTrustedNetworks(%q) = %v, nil; the list holds an entry that is not a valid IP/CIDR or is an IPv4-mapped form", list, tn)
		}
		return nil, nil, false, "", ""
	case entDontCare:
		return nil, nil, false, "", ""
	}
	if err != nil {
		return nil, nil, false, "ParseTrustedNetworks/rejects-valid", fmt.Sprintf("ParseTrustedNetworks(%q) failed: %v; every entry is a valid IP or CIDR", list, err)
	}
	return &proxyProtocol{trusted: tn}, nets, true, "", ""
}

// parseCaseCfg builds the wrapper the way the proxy does: newProxyProtocol(cfg) with the list as the configured
// proxyProtocolTrustedProxies. An EMPTY configured list means "the documented defaults"
// (config.DefaultProxyProtocolTrustedProxies(), a list of strings that goes through the reference parser here).
func parseCaseCfg(list []string) (pp *proxyProtocol, nets []refNet, usable bool, kind, desc string) {
	eff := list
	if len(list) == 0 {
		eff = config.DefaultProxyProtocolTrustedProxies()
	}
	status, nets := refParseList(eff)
	pp, err := newProxyProtocol(&config.Config{ProxyProtocolTrustedProxies: append([]string(nil), list...)})
	switch status {
	case entInvalid:
		if err == nil {
			return nil, nil, false, "newProxyProtocol/accepts-invalid", fmt.Sprintf("newProxyProtocol with proxyProtocolTrustedProxies=%q succeeded (trusted %v); the list holds an entry that is not a valid IP/CIDR or is an IPv4-mapped form", list, pp.trustedNetworks())
		}
		return nil, nil, false, "", ""
	case entDontCare:
		return nil, nil, false, "", ""
	}
	if err != nil || pp == nil {
		return nil, nil, false, "newProxyProtocol/rejects-valid", fmt.Sprintf("newProxyProtocol with proxyProtocolTrustedProxies=%q failed: %v; every entry is a valid IP or CIDR", list, err)
	}
	return pp, nets, true, "", ""
}

func runCase(pp *proxyProtocol, nets []refNet, p peer, st stream, chunk int, order string) (kind, desc string) {
	trusted := refTrusted(nets, p.Addr)
	// membership API, both entry points
	if got := pp.trustedNetworks().Contains(p.Addr); got != trusted {
		return "Contains/membership", fmt.Sprintf("trusted %v, peer %s: Contains = %v, CIDR membership on address bits = %v", pp.trustedNetworks(), addrStr(p.Addr), got, trusted)
	}
	mc := &memConn{remote: p.Addr, data: append([]byte(nil), st.Bytes...), chunk: chunk}
	w := pp.wrapConn(mc)
	var got net.Addr
	var rd []byte
	var rerr error
	read := func() {
		buf := make([]byte, 256)
		for {
			n, err := w.Read(buf)
			rd = append(rd, buf[:n]...)
			if err != nil {
				rerr = err
				return
			}
		}
	}
	if order == "addr-first" {
		got = w.RemoteAddr()
		read()
	} else {
		read()
		got = w.RemoteAddr()
	}
	own := addrStr(p.Addr)
	ctx := fmt.Sprintf("trusted=%v peer=%s (reference trusted=%v) stream=%s chunk=%d %s: RemoteAddr()=%s, read %d bytes err=%v", pp.trustedNetworks(), own, trusted, st.Name, chunk, order, addrStr(got), len(rd), rerr)
	failed := rerr != nil && !errors.Is(rerr, io.EOF)
	switch st.Kind {
	case "header":
		if trusted {
			// The PROXY spec obliges senders to emit the header in one segment and lets receivers
			// drop a fragmented one (go-proxyproto does so for v1). Refusing such a connection is
			// within the statement ("changes the address ONLY when trusted"); a wrong address is not.
			if chunk != 0 && failed && len(rd) == 0 && addrStr(got) == own {
				return "", "fragmented-header-refused"
			}
			if addrStr(got) != st.Claimed {
				return "trusted-header/address-not-applied", ctx + "; a header from a trusted upstream must set the client address to " + st.Claimed
			}
		} else {
			if addrStr(got) != own {
				return "untrusted-header/address-changed", ctx + "; a header from an untrusted peer changed the client address"
			}
			if !failed || len(rd) != 0 {
				return "untrusted-header/connection-not-failed", ctx + "; a header from an untrusted peer must make the connection fail"
			}
		}
	case "local":
		if !trusted {
			if addrStr(got) != own {
				return "untrusted-header/address-changed", ctx
			}
			if !failed || len(rd) != 0 {
				return "untrusted-header/connection-not-failed", ctx + "; a (LOCAL/UNKNOWN) header from an untrusted peer must make the connection fail"
			}
		} else if addrStr(got) != own {
			return "local-header/address-changed", ctx + "; a header carrying no address changed the client address"
		}
	case "none":
		if addrStr(got) != own {
			return "no-header/address-changed", ctx + "; a peer that sends no header must keep its own address"
		}
	case "partial":
		if !trusted && addrStr(got) != own {
			return "untrusted-partial-header/address-changed", ctx
		}
	}
	return "", ""
}

// ---------------------------------------------------------------- driver

func TestVerif(t *testing.T) {
	vrt.Run(t, "C33", func(r *vrt.R) {
		sts, prs := streams(), peers()
		stByName := map[string]stream{}
		for _, s := range sts {
			stByName[s.Name] = s
		}
		prByName := map[string]peer{}
		for _, p := range prs {
			prByName[p.Name] = p
		}

		var rc c33Case
		if r.ReplayInto(&rc) {
			r.Eval(1)
			var pp *proxyProtocol
			var nets []refNet
			if !rc.NilPP {
				var k, d string
				var usable bool
				if rc.ViaCfg {
					pp, nets, usable, k, d = parseCaseCfg(rc.List)
				} else {
					pp, nets, usable, k, d = parseCase(rc.List)
				}
				if k != "" {
					r.Violation(k, d, rc)
					return
				}
				if !usable {
					return
				}
			}
			if k, d := runCase(pp, nets, prByName[rc.Peer], stByName[rc.Stream], rc.Chunk, rc.Order); k != "" {
				r.Violation(k, d, rc)
			}
			return
		}

		// trusted lists: nil wrapper, empty, every single entry, every ordered pair
		all := append(append([]string{}, validEntries...), otherEntries...)
		var lists [][]string
		lists = append(lists, []string{})
		for _, a := range all {
			lists = append(lists, []string{a})
		}
		// entries added by the quantifier audit are paired (in quick) with three partners only, in both orders
		late := map[string]bool{}
		for _, e := range []string{"fc00::/7", "fe80::/10", "2001:db8::/33", "2001:db8::6/127", "::g", "1::2::3", "2001:db8::/129", "2001:db8::/-1", "fe80::/1O", "::/", "12345::", "1:2:3:4:5:6:7:8:9", "::ffff:10.1.2.3/128"} {
			late[e] = true
		}
		partner := map[string]bool{"10.0.0.0/8": true, "::1": true, "abc": true}
		for _, a := range all {
			for _, b := range all {
				if r.Quick() && (late[a] || late[b]) && !((late[a] && partner[b]) || (late[b] && partner[a])) {
					continue
				}
				lists = append(lists, []string{a, b})
			}
		}
		quickStreams := map[string]bool{"v1-tcp4+payload": true, "v2-tcp4+payload": true, "no-header-handshake": true, "v2-local+payload": true, "partial-v1-no-crlf": true}
		cls := map[string]int{}
		evals, nontrivial := 0, 0
		work := func(idx int, list []string, nilPP, viaCfg bool) {
			var pp *proxyProtocol
			var nets []refNet
			if !nilPP {
				var k, d string
				var usable bool
				if viaCfg {
					pp, nets, usable, k, d = parseCaseCfg(list)
				} else {
					pp, nets, usable, k, d = parseCase(list)
				}
				evals++
				if k != "" {
					r.Violation(k, d, c33Case{List: list, ViaCfg: viaCfg})
					return
				}
				if !usable {
					st, _ := refParseList(list)
					if st == entInvalid {
						cls["list:invalid-rejected"]++
					} else {
						cls["list:dont-care"]++
					}
					return
				}
				cls["list:valid"]++
				if viaCfg {
					cls["list:valid-through-newProxyProtocol(cfg)"]++
				}
			}
			full := (len(list) <= 1 && !viaCfg) || r.Thorough()
			for _, p := range prs {
				tr := refTrusted(nets, p.Addr)
				for _, st := range sts {
					if !full && !quickStreams[st.Name] {
						continue
					}
					for _, chunk := range []int{0, 1} {
						for _, order := range []string{"addr-first", "read-first"} {
							evals++
							k, d := runCase(pp, nets, p, st, chunk, order)
							if k != "" {
								r.Violation(k, d, c33Case{List: list, NilPP: nilPP, ViaCfg: viaCfg, Peer: p.Name, Stream: st.Name, Chunk: chunk, Order: order})
								cls["case:violating"]++
								continue
							}
							if d != "" {
								cls["case:"+d+"/"+st.Name]++
								continue
							}
							cls[fmt.Sprintf("case:%s/trusted=%v", st.Kind, tr)]++
							if st.Kind == "header" {
								nontrivial++
							}
						}
					}
				}
			}
		}
		if r.Mine(0) {
			work(0, nil, true, false)
			cls["list:nil-wrapper"]++
		}
		for i, l := range lists {
			if !r.Mine(i + 1) {
				continue
			}
			if i%32 == 0 && r.Expired() {
				break
			}
			work(i+1, l, false, false)
			// the same list as configuration of the real constructor: the empty list (defaults), every single
			// entry and - to see that a configured list REPLACES the defaults - every pair
			work(i+1, l, false, true)
		}
		r.Eval(evals)
		r.Nontrivial(nontrivial)
		for k, n := range cls {
			r.ClassN(k, n)
		}
		r.Sample(map[string]any{"lists": len(lists) + 1, "peers": len(prs), "streams": len(sts), "example": c33Case{List: []string{"10.0.0.0/8", "::1"}, Peer: "text:[::ffff:10.1.2.3]:54321", Stream: "v2-tcp4+payload", Chunk: 1, Order: "read-first"}})
	})
}
