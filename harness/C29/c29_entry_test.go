package lite

// C29, parts "entry" and "subst10".
//
// entry: the statement ends with "A host matching no route is closed without dialing any backend" and
// starts with "a connection is routed to the first configured route ...". Parts pair/routes decide that
// on findRoute's RESULT; this part drives the two real entry points that act on it - lite.Forward (login /
// transfer connections) and lite.ResolveStatusResponseWithGeneration (status pings) - with their real
// net.Dialer against harness listeners on loopback addresses and observes WHICH ADDRESSES ARE DIALLED:
// 127.0.0.1:P, 127.0.0.2:P (reached through the template "127.0.0.$1:P") and 127.0.0.1:Q (static).
// Event driven: a listener closes every accepted connection at once and reports the peer address; after the
// entry point returned the harness connects once more itself to every listener (accept order is FIFO), so
// every connection reported before its own is a dial made for the case. No timer takes part in a verdict.
//
// subst10: routes with 10-12 wildcards: "$10" is group ten, not group one followed by "0".

import (
	"context"
	"fmt"
	"io"
	"net"
	"strings"
	"sync"
	"time"

	"github.com/go-logr/logr"
	"go.minekube.com/gate/pkg/edition/java/lite/config"
	"go.minekube.com/gate/pkg/edition/java/netmc"
	"go.minekube.com/gate/pkg/edition/java/proto/packet"
	"go.minekube.com/gate/pkg/edition/java/proxy/zzverif/vrt"
	"go.minekube.com/gate/pkg/gate/proto"
	"go.minekube.com/gate/pkg/util/configutil"
)

// ---------------------------------------------------------------- listeners

type c29Listener struct {
	ln       net.Listener
	addr     string
	accepted chan string
	wg       sync.WaitGroup
}

func c29Listen(addr string) (*c29Listener, error) {
	ln, err := net.Listen("tcp", addr)
	if err != nil {
		return nil, err
	}
	l := &c29Listener{ln: ln, addr: ln.Addr().String(), accepted: make(chan string, 256)}
	l.wg.Add(1)
	go func() {
		defer l.wg.Done()
		for {
			c, err := ln.Accept()
			if err != nil {
				return
			}
			peer := c.RemoteAddr().String()
			_ = c.Close()
			l.accepted <- peer
		}
	}()
	return l, nil
}

// dials returns how many connections were made to the listener since the last call.
func (l *c29Listener) dials() (n int, err error) {
	s, err := net.Dial("tcp", l.addr)
	if err != nil {
		return 0, err
	}
	me := s.LocalAddr().String()
	for p := range l.accepted {
		if p == me {
			break
		}
		n++
	}
	_ = s.Close()
	return n, nil
}

func (l *c29Listener) stop() { _ = l.ln.Close(); l.wg.Wait() }

// ---------------------------------------------------------------- scripted client

type c29Src struct {
	mu     sync.Mutex
	closed int
}

func (s *c29Src) Read(p []byte) (int, error)  { return 0, io.EOF } // the client has nothing more to say
func (s *c29Src) Write(p []byte) (int, error) { return len(p), nil }
func (s *c29Src) Close() error                { s.mu.Lock(); s.closed++; s.mu.Unlock(); return nil }
func (s *c29Src) LocalAddr() net.Addr         { return &net.TCPAddr{IP: net.IPv4(127, 0, 0, 1), Port: 25565} }
func (s *c29Src) RemoteAddr() net.Addr {
	return &net.TCPAddr{IP: net.IPv4(127, 0, 0, 1), Port: 40029}
}
func (s *c29Src) SetDeadline(time.Time) error      { return nil }
func (s *c29Src) SetReadDeadline(time.Time) error  { return nil }
func (s *c29Src) SetWriteDeadline(time.Time) error { return nil }

type c29EntryClient struct {
	netmc.MinecraftConn
	src *c29Src
}

func (c *c29EntryClient) Conn() net.Conn           { return c.src }
func (c *c29EntryClient) Context() context.Context { return context.Background() }
func (c *c29EntryClient) Close() error             { return c.src.Close() }

// ---------------------------------------------------------------- cases

type entryRoute struct {
	Hosts   []string `json:"hosts"`
	Backend string   `json:"backend"` // "" = no backend, "P$1" = 127.0.0.$1:P, "Q" = 127.0.0.1:Q
}

type entryCase struct {
	Part   string       `json:"part"` // "entry"
	Entry  string       `json:"entry"`
	Host   string       `json:"host"`
	Routes []entryRoute `json:"routes"`
}

var entryPool = []entryRoute{
	{Hosts: []string{"*.lo"}, Backend: "P$1"},
	{Hosts: []string{"?"}, Backend: "Q"},
	{Hosts: []string{"*.lo"}, Backend: ""},
	{Hosts: []string{"zz", "*.LO"}, Backend: "P$1"},
}

// group texts are digits or a newline only: anything that looks like a DNS name would be resolved
var entryHosts = []string{
	"1.lo", "2.lo", "3.lo", "1.LO", ".1.lo.", "1.lo\x00FML\x00", "2.lo///9.9.9.9:1///0", "1.lo.\x00FML2\x00",
	"2.lo.///9.9.9.9:1///0\x00FML\x00", "a", "1", "", ".", "lo", "1.lox", "zz", "\n.lo", "1.lo\n", "zz.", "1.l",
}

type entryRig struct {
	l1, l2, lq *c29Listener
	port       string
}

func newEntryRig() (*entryRig, error) {
	g := &entryRig{}
	var err error
	// 127.0.0.1:P and 127.0.0.2:P need the same port: try a few
	for try := 0; try < 20; try++ {
		if g.l1, err = c29Listen("127.0.0.1:0"); err != nil {
			return nil, err
		}
		_, g.port, _ = net.SplitHostPort(g.l1.addr)
		if g.l2, err = c29Listen("127.0.0.2:" + g.port); err == nil {
			break
		}
		g.l1.stop()
		g.l1 = nil
	}
	if g.l1 == nil {
		return nil, fmt.Errorf("no port free on both 127.0.0.1 and 127.0.0.2: %v", err)
	}
	if g.lq, err = c29Listen("127.0.0.1:0"); err != nil {
		return nil, err
	}
	return g, nil
}

func (g *entryRig) stop() {
	for _, l := range []*c29Listener{g.l1, g.l2, g.lq} {
		if l != nil {
			l.stop()
		}
	}
}

func (g *entryRig) template(b string) string {
	switch b {
	case "P$1":
		return "127.0.0.$1:" + g.port
	case "Q":
		return g.lq.addr
	}
	return ""
}

// expected dials per listener (l1, l2, lq), from the statement: first route in configuration order with a
// matching pattern; its backend template with $1 replaced by what the wildcard matched.
func (g *entryRig) expect(c entryCase) (want [3]int, routed int) {
	cleaned := refClean(c.Host)
	for i, rt := range c.Routes {
		for _, p := range rt.Hosts {
			if !refGlob([]rune(cleaned), []rune(p)) {
				continue
			}
			tpl := g.template(rt.Backend)
			if tpl == "" {
				return want, i // first matching route has no backend: nothing to dial, later routes are not consulted
			}
			var groups []string
			switch {
			case strings.HasPrefix(p, "*"):
				groups = []string{cleaned[:len(cleaned)-len(p)+1]}
			case p == "?":
				groups = []string{cleaned}
			}
			switch refSubst(tpl, groups) {
			case g.l1.addr:
				want[0] = 1
			case g.l2.addr:
				want[1] = 1
			case g.lq.addr:
				want[2] = 1
			}
			return want, i
		}
	}
	return want, -1
}

func (g *entryRig) run(c entryCase) (key, desc string) {
	routes := make([]config.Route, len(c.Routes))
	for i, rt := range c.Routes {
		routes[i] = config.Route{Host: append([]string(nil), rt.Hosts...), CachePingTTL: configutil.Duration(-1)}
		if t := g.template(rt.Backend); t != "" {
			routes[i].Backend = []string{t}
		}
	}
	want, routed := g.expect(c)
	hs := &packet.Handshake{ProtocolVersion: 765, ServerAddress: c.Host, Port: 25565, NextStatus: 2}
	if c.Entry == "status" {
		hs.NextStatus = 1
	}
	hctx := &proto.PacketContext{Direction: proto.ServerBound, Protocol: 765, PacketID: 0}
	update(hctx, hs)
	cl := &c29EntryClient{src: &c29Src{}}
	var resp *packet.StatusResponse
	var rerr error
	switch c.Entry {
	case "forward":
		Forward(2*time.Second, routes, logr.Discard(), cl, hs, hctx, c29SM)
	case "status":
		sctx := &proto.PacketContext{Direction: proto.ServerBound, Protocol: 765, PacketID: 0, Payload: []byte{0x00}}
		_, resp, rerr = ResolveStatusResponseWithGeneration(2*time.Second, 29, routes, logr.Discard(), cl, hs, hctx, sctx, c29SM)
	}
	var got [3]int
	for i, l := range []*c29Listener{g.l1, g.l2, g.lq} {
		n, err := l.dials()
		if err != nil {
			return "", "" // the rig broke (listener gone): not a verdict
		}
		got[i] = n
	}
	ctx := fmt.Sprintf("%s: host %q, routes %+v (127.0.0.1:P=%s 127.0.0.2:P=%s Q=%s): connections made to [127.0.0.1:P 127.0.0.2:P Q] = %v", c.Entry, c.Host, c.Routes, g.l1.addr, g.l2.addr, g.lq.addr, got)
	if routed < 0 && got != [3]int{} {
		return c.Entry + "/no-route-but-backend-dialled", ctx + "; the host matches no route, no backend may be dialled"
	}
	if routed >= 0 && got != want {
		if want == [3]int{} && g.template(c.Routes[routed].Backend) == "" {
			return c.Entry + "/first-match-has-no-backend-but-dialled", ctx + fmt.Sprintf("; the first matching route is #%d, which has no backend", routed)
		}
		return c.Entry + "/wrong-backend-dialled", ctx + fmt.Sprintf("; first matching route is #%d, want %v", routed, want)
	}
	if c.Entry == "forward" && cl.src.closed == 0 {
		return "forward/client-not-closed", ctx + "; Forward returned without closing the client connection"
	}
	if c.Entry == "status" && routed < 0 && (rerr == nil || resp != nil) {
		return "status/no-route-but-answered", ctx + fmt.Sprintf("; the host matches no route, yet a status came back: %v err=%v", resp, rerr)
	}
	return "", ""
}

func entryCases() []entryCase {
	var lists [][]entryRoute
	var rec func(cur []entryRoute)
	rec = func(cur []entryRoute) {
		if len(cur) > 0 {
			lists = append(lists, append([]entryRoute(nil), cur...))
		}
		if len(cur) == 3 {
			return
		}
		for _, p := range entryPool {
			rec(append(cur, p))
		}
	}
	rec(nil)
	var out []entryCase
	for _, l := range lists {
		for _, h := range entryHosts {
			for _, e := range []string{"forward", "status"} {
				out = append(out, entryCase{Part: "entry", Entry: e, Host: h, Routes: l})
			}
		}
	}
	return out
}

func runEntryPart(r *vrt.R) {
	g, err := newEntryRig()
	if err != nil {
		r.NotExhaustive("entry part: " + err.Error())
		return
	}
	defer g.stop()
	n, nt := 0, 0
	cls := map[string]int{}
	for i, c := range entryCases() {
		if !r.Mine(i) {
			continue
		}
		if i%64 == 0 && r.Expired() {
			break
		}
		n++
		if k, d := g.run(c); k != "" {
			r.Violation(k, d, c)
			cls["entry:violating"]++
			continue
		}
		want, routed := g.expect(c)
		switch {
		case routed < 0:
			cls["entry:"+c.Entry+"/no-route-no-dial"]++
		case want == [3]int{} && g.template(c.Routes[routed].Backend) == "":
			cls["entry:"+c.Entry+"/first-match-without-backend-no-dial"]++
		case want == [3]int{}:
			cls["entry:"+c.Entry+"/routed-substituted-address-has-no-listener"]++
		default:
			cls["entry:"+c.Entry+"/routed-and-dialled"]++
			nt++
		}
	}
	r.Eval(n)
	r.Nontrivial(nt)
	for k, v := range cls {
		r.ClassN(k, v)
	}
	if r.Mine(0) {
		r.Sample(map[string]any{"part": "entry", "cases_total": len(entryCases()), "pool": entryPool, "hosts": entryHosts})
	}
}

// ---------------------------------------------------------------- subst10

type subst10Case struct {
	Part   string   `json:"part"` // "subst10"
	Tpl    string   `json:"tpl"`
	Groups []string `json:"groups"`
}

// refSubstN: "$" followed by a maximal run of digits without leading zero that names an existing group is
// replaced by that group; the harness only builds templates in which every "$n" names an existing group and is
// followed by a non-digit, so nothing else is decided here.
func refSubstN(tpl string, groups []string) string {
	var b strings.Builder
	for i := 0; i < len(tpl); {
		if tpl[i] == '$' {
			j := i + 1
			for j < len(tpl) && tpl[j] >= '0' && tpl[j] <= '9' {
				j++
			}
			if j > i+1 && tpl[i+1] != '0' {
				n := 0
				fmt.Sscanf(tpl[i+1:j], "%d", &n)
				if n >= 1 && n <= len(groups) {
					b.WriteString(groups[n-1])
					i = j
					continue
				}
			}
		}
		b.WriteByte(tpl[i])
		i++
	}
	return b.String()
}

func runSubst10Part(r *vrt.R) {
	if !r.Mine(1) {
		return
	}
	n := 0
	for count := 9; count <= 12; count++ {
		for _, style := range []string{"plain", "dollar"} {
			groups := make([]string, count)
			for i := range groups {
				groups[i] = fmt.Sprintf("g%d", i+1)
				if style == "dollar" {
					groups[i] = fmt.Sprintf("$%d", (i+1)%count+1) // substituted text that looks like another parameter
				}
			}
			var toks []string
			for _, k := range []int{1, 2, 9, 10, 11, 12} {
				if k <= count {
					toks = append(toks, fmt.Sprintf("$%d", k))
				}
			}
			toks = append(toks, "x")
			for _, seq := range allSeq(toks, 3) {
				if len(seq) == 0 {
					continue
				}
				for _, sep := range []string{".", "-", ""} {
					// sep "": "$1$10" and "$1x" stay unambiguous ("$" and "x" end a digit run); no token starts with a digit
					tpl := strings.Join(seq, sep) + ":1"
					n++
					got, want := substituteBackendParams(tpl, groups), refSubstN(tpl, groups)
					if got != want {
						r.Violation("substitute/two-digit-parameter", fmt.Sprintf("substituteBackendParams(%q, %d groups %q) = %q, want %q ($10 is the text of the tenth wildcard)", tpl, count, groups, got, want), subst10Case{Part: "subst10", Tpl: tpl, Groups: groups})
					}
				}
			}
		}
	}
	// end to end: a pattern with 11 wildcards through the real findRoute
	pat := "?-?-?-?-?-?-?-?-?-?-*"
	host := "a-b-c-d-e-f-g-h-i-j-klm"
	routes := []config.Route{{Host: []string{pat}, Backend: []string{"$10.$11.$1:1", "$11-$2:2"}}}
	_, _, rt, _, next, err := findRoute(routes, logr.Discard(), &c29Client{conn: c29Conn{}},
		&packet.Handshake{ServerAddress: host, ProtocolVersion: 765, Port: 25565, NextStatus: 2}, c29SM)
	n++
	if err != nil || rt == nil {
		r.Violation("findRoute/match-not-routed", fmt.Sprintf("host %q matches %q, findRoute returned err=%v", host, pat, err), subst10Case{Part: "subst10"})
	} else {
		var cands []string
		for k := 0; k < 4; k++ {
			b, _, ok := next()
			if !ok {
				break
			}
			cands = append(cands, b)
		}
		if want := []string{"j.klm.a:1", "klm-b:2"}; strings.Join(cands, " ") != strings.Join(want, " ") {
			r.Violation("findRoute/backend-candidates-two-digit-parameter", fmt.Sprintf("host %q pattern %q templates %q: backend candidates %q, want %q", host, pat, routes[0].Backend, cands, want), subst10Case{Part: "subst10"})
		}
	}
	r.Eval(n)
	r.ClassN("subst10:cases", n)
}
