package lite

// C29, part "meta": the quantifier names "regex metacharacters, non-ASCII and control characters". Part pair has
// three of the metacharacters (\ ( .), one non-ASCII letter (e-acute) and one control character (newline) in its
// alphabet - more would blow up its cube. This part takes every class separately: for each small group of symbols
// that together spell a regular-expression construct (character class, alternation/group, repetition count,
// quantifiers, escapes/anchors, ...), for 3- and 4-byte runes and for further control characters, every pattern of
// <=4 symbols x every host of <=3 symbols over that group goes through the same pair check (reference glob:
// everything except '*' and '?' is a literal).

import (
	"fmt"

	"go.minekube.com/gate/pkg/edition/java/proxy/zzverif/vrt"
)

var metaGroups = []struct {
	Name string
	Syms []string
}{
	{"character-class", []string{"[", "]", "^", "-", "a"}},
	{"group-alternation", []string{"(", ")", "|", "a", "b"}},
	{"repetition-count", []string{"{", "}", "1", ",", "a"}},
	{"quantifiers", []string{"+", "?", "*", "a"}},
	{"escapes", []string{"\\", "d", "w", ".", "a"}},
	{"anchors-and-flags", []string{"^", "$", "(?i)", "a", "A"}},
	{"misc-punctuation", []string{"#", "&", "~", " ", "/", ":"}},
	{"wide-runes", []string{"日", "😀", "?", "*", "ß"}},
	{"control-characters", []string{"\r", "\t", "\x01", "\x7f", "?", "*"}},
	{"control-and-newline", []string{"\n", "\r", "\x1b", ".", "*"}},
}

func runMetaPart(r *vrt.R) {
	evals, nt := 0, 0
	sigKey := map[string]string{}
	work := 0
	for _, g := range metaGroups {
		pats := allSeq(g.Syms, 4)
		hosts := allSeq(g.Syms, 3)
		matches := 0
		for _, pat := range pats {
			work++
			if !r.Mine(work) {
				continue
			}
			if work%256 == 0 && r.Expired() {
				r.Eval(evals)
				return
			}
			for _, host := range hosts {
				evals++
				kind, desc := checkPair(host, pat)
				if kind != "" {
					sig := kind + "|" + symSet(host) + "|" + symSet(pat)
					key, ok := sigKey[sig]
					if !ok {
						h, q := shrink(host, pat, kind)
						h, q = shrink(runesOf(h), runesOf(q), kind)
						key = fmt.Sprintf("%s:host=%q,pattern=%q", kind, join(h), join(q))
						sigKey[sig] = key
						_, desc = checkPair(h, q)
						r.Violation(key, desc, pairCase{Part: "pair", Host: h, Pattern: q})
					} else {
						r.Violation(key, desc, nil)
					}
					continue
				}
				if refGlob([]rune(refClean(join(host))), []rune(join(pat))) {
					matches++
				}
			}
		}
		nt += matches
		r.ClassN("meta:"+g.Name+"/matching-pairs", matches)
	}
	r.Eval(evals)
	r.Nontrivial(nt)
	r.ClassN("meta:pairs", evals)
}
