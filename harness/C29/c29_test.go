package lite

// C29 — Lite routes a connection to the first route whose glob matches the cleaned virtual host,
// wildcard texts substituted into the backend addresses.
//
// Engine: enum. Everything below the "reference" banner is written from the property statement
// and shares no code with match.go / util.go / forward.go.

import (
	"fmt"
	"net"
	"sort"
	"strings"
	"testing"
	"unicode"
	"unicode/utf8"

	"github.com/go-logr/logr"
	"go.minekube.com/gate/pkg/edition/java/lite/config"
	"go.minekube.com/gate/pkg/edition/java/netmc"
	"go.minekube.com/gate/pkg/edition/java/proto/packet"
	"go.minekube.com/gate/pkg/edition/java/proxy/zzverif/vrt"
)

// ---------------------------------------------------------------- reference (independent)

// refClean: Forge suffix (everything from the first NUL), TCPShield suffix (everything from the
// first "///") and surrounding dots removed.
func refClean(h string) string {
	if i := strings.IndexByte(h, 0); i >= 0 {
		h = h[:i]
	}
	if i := strings.Index(h, "///"); i >= 0 {
		h = h[:i]
	}
	for len(h) > 0 && h[0] == '.' {
		h = h[1:]
	}
	for len(h) > 0 && h[len(h)-1] == '.' {
		h = h[:len(h)-1]
	}
	return h
}

// foldEq: case-insensitive rune equality via the simple case-folding orbit.
func foldEq(a, b rune) bool {
	if a == b {
		return true
	}
	for c := unicode.SimpleFold(a); c != a; c = unicode.SimpleFold(c) {
		if c == b {
			return true
		}
	}
	return false
}

// refGlob: backtracking glob on runes. '*' = any sequence (also empty, also newlines), '?' =
// exactly one character, everything else literal and case-insensitive. No escapes (the statement
// names none).
func refGlob(s, p []rune) bool {
	if len(p) == 0 {
		return len(s) == 0
	}
	switch p[0] {
	case '*':
		for k := 0; k <= len(s); k++ {
			if refGlob(s[k:], p[1:]) {
				return true
			}
		}
		return false
	case '?':
		return len(s) > 0 && refGlob(s[1:], p[1:])
	default:
		return len(s) > 0 && foldEq(s[0], p[0]) && refGlob(s[1:], p[1:])
	}
}

func wildcards(p string) (n int) {
	for _, r := range p {
		if r == '*' || r == '?' {
			n++
		}
	}
	return
}

// refGroupsOK: group count == wildcard count, each '?' group is one character, and the pattern
// with each wildcard replaced by its group spells the cleaned host (case-insensitively: hosts
// are case-insensitive and the statement does not fix the case of the captured text). Lazy vs
// greedy assignment is deliberately not specified.
func refGroupsOK(cleaned, pat string, groups []string) string {
	if len(groups) != wildcards(pat) {
		return fmt.Sprintf("group count %d, wildcard count %d", len(groups), wildcards(pat))
	}
	var b strings.Builder
	gi := 0
	for _, r := range pat {
		switch r {
		case '*':
			b.WriteString(groups[gi])
			gi++
		case '?':
			if utf8.RuneCountInString(groups[gi]) != 1 {
				return fmt.Sprintf("'?' group %d is %q (not one character)", gi+1, groups[gi])
			}
			b.WriteString(groups[gi])
			gi++
		default:
			b.WriteRune(r)
		}
	}
	got, want := []rune(b.String()), []rune(cleaned)
	if len(got) != len(want) {
		return fmt.Sprintf("pattern with groups %q re-substituted spells %q, host is %q", groups, b.String(), cleaned)
	}
	for i := range got {
		if !foldEq(got[i], want[i]) {
			return fmt.Sprintf("pattern with groups %q re-substituted spells %q, host is %q", groups, b.String(), cleaned)
		}
	}
	return ""
}

// refSubst: one left-to-right pass; "$n" (n = 1..len(groups), no leading zero) becomes group n,
// substituted text is never rescanned. Templates handed to it by the harness never have a digit
// right after a parameter, so how "$12" tokenises is not decided here.
func refSubst(tpl string, groups []string) string {
	var b strings.Builder
	for i := 0; i < len(tpl); {
		if tpl[i] == '$' && i+1 < len(tpl) && tpl[i+1] >= '1' && tpl[i+1] <= '9' {
			n := int(tpl[i+1] - '0')
			if n <= len(groups) {
				b.WriteString(groups[n-1])
				i += 2
				continue
			}
		}
		b.WriteByte(tpl[i])
		i++
	}
	return b.String()
}

// ---------------------------------------------------------------- enumeration helpers

func enumSeq(syms []string, maxLen int, f func(parts []string)) {
	cur := make([]string, 0, maxLen)
	var rec func()
	rec = func() {
		f(cur)
		if len(cur) == maxLen {
			return
		}
		for _, s := range syms {
			cur = append(cur, s)
			rec()
			cur = cur[:len(cur)-1]
		}
	}
	rec()
}

func allSeq(syms []string, maxLen int) [][]string {
	var out [][]string
	enumSeq(syms, maxLen, func(p []string) { out = append(out, append([]string(nil), p...)) })
	return out
}

func join(p []string) string { return strings.Join(p, "") }

// ---------------------------------------------------------------- the pair check

type pairCase struct {
	Part    string   `json:"part"`
	Host    []string `json:"host,omitempty"`    // symbols of the raw virtual host
	Pattern []string `json:"pattern,omitempty"` // symbols of the pattern
	Routes  [][]string `json:"routes,omitempty"`  // part routes: host patterns per route
	Tpl     string   `json:"tpl,omitempty"`
	Groups  []string `json:"groups,omitempty"`
}

// checkPair runs one raw host against one pattern on the real code and returns "" or
// (kind, description).
func checkPair(host, pat []string) (kind, desc string) {
	raw, p := join(host), join(pat)
	wantClean := refClean(raw)
	gotClean := ClearVirtualHost(raw)
	if gotClean != wantClean {
		return "ClearVirtualHost/differs", fmt.Sprintf("ClearVirtualHost(%q) = %q, want %q", raw, gotClean, wantClean)
	}
	want := refGlob([]rune(wantClean), []rune(p))
	routes := []config.Route{{Host: []string{p}, Backend: []string{"b:1"}}}
	h, rt, groups := FindRouteWithGroups(gotClean, routes...)
	got := rt != nil
	_, rt2 := FindRoute(gotClean, routes...)
	if (rt2 != nil) != got {
		return "FindRoute-vs-FindRouteWithGroups/disagree", fmt.Sprintf("host %q pattern %q: FindRoute matched=%v FindRouteWithGroups matched=%v", gotClean, p, rt2 != nil, got)
	}
	switch {
	case want && !got:
		return "match/false-negative", fmt.Sprintf("virtual host %q (cleaned %q) matches pattern %q per the glob rules but FindRouteWithGroups found no route", raw, wantClean, p)
	case !want && got:
		return "match/false-positive", fmt.Sprintf("virtual host %q (cleaned %q) does not match pattern %q per the glob rules but FindRouteWithGroups returned the route (groups %q)", raw, wantClean, p, groups)
	}
	if got {
		if h != p || rt != &routes[0] {
			return "match/wrong-route-returned", fmt.Sprintf("host %q pattern %q: returned host %q", gotClean, p, h)
		}
		if why := refGroupsOK(wantClean, p, groups); why != "" {
			return "groups/wrong", fmt.Sprintf("host %q pattern %q: %s", wantClean, p, why)
		}
	}
	return "", ""
}

// shrink removes symbols from host and pattern while the same kind of failure persists, so the
// violation key names a 1-minimal failing pair.
func shrink(host, pat []string, kind string) ([]string, []string) {
	host, pat = append([]string(nil), host...), append([]string(nil), pat...)
	for changed := true; changed; {
		changed = false
		for i := 0; i < len(host); i++ {
			c := append(append([]string(nil), host[:i]...), host[i+1:]...)
			if k, _ := checkPair(c, pat); k == kind {
				host, changed = c, true
				i--
			}
		}
		for i := 0; i < len(pat); i++ {
			c := append(append([]string(nil), pat[:i]...), pat[i+1:]...)
			if k, _ := checkPair(host, c); k == kind {
				pat, changed = c, true
				i--
			}
		}
		// a literal and the host character it matches can only be removed together
	joint:
		for i := 0; i < len(host); i++ {
			for j := 0; j < len(pat); j++ {
				ch := append(append([]string(nil), host[:i]...), host[i+1:]...)
				cp := append(append([]string(nil), pat[:j]...), pat[j+1:]...)
				if k, _ := checkPair(ch, cp); k == kind {
					host, pat, changed = ch, cp, true
					break joint
				}
			}
		}
	}
	return host, pat
}

// runesOf splits symbols into single characters so that shrinking can continue below the
// symbol level ("$1", NUL+F and "///" are multi-character symbols).
func runesOf(p []string) []string {
	var out []string
	for _, r := range join(p) {
		out = append(out, string(r))
	}
	return out
}

func symSet(p []string) string {
	m := map[string]bool{}
	for _, s := range p {
		m[s] = true
	}
	ks := make([]string, 0, len(m))
	for k := range m {
		ks = append(ks, k)
	}
	sort.Strings(ks)
	return strings.Join(ks, "\x01")
}

// ---------------------------------------------------------------- findRoute seam

// one manager for all cases: the routes use the (stateless) sequential strategy
var c29SM = NewStrategyManager()

type c29Conn struct{ net.Conn }

func (c29Conn) RemoteAddr() net.Addr { return &net.TCPAddr{IP: net.IPv4(192, 0, 2, 1), Port: 40000} }

type c29Client struct {
	netmc.MinecraftConn
	conn net.Conn
}

func (c *c29Client) Conn() net.Conn { return c.conn }

// checkRoutes runs the real findRoute for one raw host and one route list (each route = list of
// host patterns; backends carry $1/$2 templates tagged with the route index).
func checkRoutes(host []string, routePats [][]string) (kind, desc string) {
	raw := join(host)
	cleaned := refClean(raw)
	routes := make([]config.Route, len(routePats))
	tpls := make([][]string, len(routePats))
	for i, hp := range routePats {
		tpls[i] = []string{fmt.Sprintf("r%d-$1-$2:1", i), fmt.Sprintf("$2.$1.r%d:2", i)}
		routes[i] = config.Route{Host: append([]string(nil), hp...), Backend: append([]string(nil), tpls[i]...)}
	}
	wantIdx := -1
	for i, hp := range routePats {
		for _, p := range hp {
			if refGlob([]rune(cleaned), []rune(p)) {
				wantIdx = i
				break
			}
		}
		if wantIdx >= 0 {
			break
		}
	}
	_, _, rt, rhost, next, err := findRoute(routes, logr.Discard(), &c29Client{conn: c29Conn{}},
		&packet.Handshake{ServerAddress: raw, ProtocolVersion: 765, Port: 25565, NextStatus: 2}, c29SM)
	if wantIdx < 0 {
		if err == nil || rt != nil || next != nil {
			return "findRoute/no-match-still-routed", fmt.Sprintf("host %q matches none of %q, yet findRoute returned route=%v err=%v (a backend would be dialled)", raw, routePats, rt, err)
		}
		return "", ""
	}
	if err != nil || rt == nil {
		return "findRoute/match-not-routed", fmt.Sprintf("host %q matches route %d of %q, findRoute returned err=%v", raw, wantIdx, routePats, err)
	}
	gotIdx := -1
	for i := range routes {
		if rt == &routes[i] {
			gotIdx = i
		}
	}
	if gotIdx != wantIdx {
		return "findRoute/not-first-match", fmt.Sprintf("host %q with routes %q: first matching route is #%d, findRoute chose #%d (host pattern %q)", raw, routePats, wantIdx, gotIdx, rhost)
	}
	// the returned host pattern must be one of the route's patterns that matches; its groups
	// (validated by re-substitution) must be what ends up in the backend candidates.
	okHost := false
	for _, p := range routePats[gotIdx] {
		if p == rhost && refGlob([]rune(cleaned), []rune(p)) {
			okHost = true
		}
	}
	if !okHost {
		return "findRoute/host-pattern", fmt.Sprintf("host %q: findRoute reports host pattern %q which is not a matching pattern of route %d %q", raw, rhost, gotIdx, routePats[gotIdx])
	}
	_, groups := matchWithGroups(cleaned, rhost)
	if why := refGroupsOK(cleaned, rhost, groups); why != "" {
		return "groups/wrong", fmt.Sprintf("host %q pattern %q: %s", cleaned, rhost, why)
	}
	var cands []string
	for k := 0; k < len(tpls[gotIdx])+2; k++ {
		b, _, ok := next()
		if !ok {
			break
		}
		cands = append(cands, b)
	}
	var want []string
	for _, t := range tpls[gotIdx] {
		want = append(want, refSubst(t, groups))
	}
	if strings.Join(cands, "\x01") != strings.Join(want, "\x01") {
		return "findRoute/backend-candidates", fmt.Sprintf("host %q route %d pattern %q groups %q: backend candidates %q, want %q", raw, gotIdx, rhost, groups, cands, want)
	}
	if rt.Backend[0] != tpls[gotIdx][0] {
		return "findRoute/config-mutated", fmt.Sprintf("route %d backend template was overwritten: %q", gotIdx, rt.Backend)
	}
	return "", ""
}

// ---------------------------------------------------------------- substitution

func checkSubst(tpl string, groups []string) (kind, desc string) {
	got := substituteBackendParams(tpl, groups)
	want := refSubst(tpl, groups)
	if got != want {
		// classify: does the difference come from rescanning substituted text?
		return "substitute/differs-from-single-pass", fmt.Sprintf("substituteBackendParams(%q, %q) = %q, want %q (each $n replaced once by the text wildcard n matched)", tpl, groups, got, want)
	}
	return "", ""
}

// ---------------------------------------------------------------- driver

var (
	// "\x00F" = Forge suffix, "///" = TCPShield separator, "$1" = text that looks like a parameter
	hostSyms = []string{"a", "B", ".", "*", "?", "\\", "(", "é", "É", "\n", "\x00F", "///", "$1"}
	patSyms  = []string{"A", "b", ".", "*", "?", "\\", "(", "É", "\n", "$1"}
)

func TestVerif(t *testing.T) {
	vrt.Run(t, "C29", func(r *vrt.R) {
		var rp pairCase
		if r.ReplayInto(&rp) {
			r.Eval(1)
			var k, d string
			switch rp.Part {
			case "pair":
				k, d = checkPair(rp.Host, rp.Pattern)
				if k != "" {
					h, p := shrink(rp.Host, rp.Pattern, k)
					h, p = shrink(runesOf(h), runesOf(p), k)
					k = fmt.Sprintf("%s:host=%q,pattern=%q", k, join(h), join(p))
				}
			case "routes":
				k, d = checkRoutes(rp.Host, rp.Routes)
			case "subst":
				k, d = checkSubst(rp.Tpl, rp.Groups)
			case "subst10":
				runSubst10Part(r) // cheap: the whole part runs again and reports again
				return
			case "entry":
				var ec entryCase
				_ = r.ReplayInto(&ec)
				g, err := newEntryRig()
				if err != nil {
					r.NotExhaustive("entry part: " + err.Error())
					return
				}
				defer g.stop()
				if k, d = g.run(ec); k != "" {
					r.Violation(k, d, ec)
				}
				return
			}
			if k != "" {
				r.Violation(k, d, rp)
			}
			return
		}

		hostLen, patLen := 3, 3
		if r.Thorough() {
			hostLen, patLen = 4, 4
		}
		hosts := allSeq(hostSyms, hostLen)
		pats := allSeq(patSyms, patLen)

		// ---- part 1: every host x every pattern
		sigKey := map[string]string{} // kind|symbols -> violation key (after shrinking)
		cls := map[string]int{}
		var evals, nontrivial int
	pairs:
		for pi, pat := range pats {
			if !r.Mine(pi) {
				continue
			}
			if pi%64 == 0 && r.Expired() {
				break pairs
			}
			p := join(pat)
			nw := wildcards(p)
			for _, host := range hosts {
				evals++
				kind, desc := checkPair(host, pat)
				if kind != "" {
					sig := kind + "|" + symSet(host) + "|" + symSet(pat)
					key, ok := sigKey[sig]
					if !ok {
						h, q := shrink(host, pat, kind)
						h, q = shrink(runesOf(h), runesOf(q), kind)
						key = fmt.Sprintf("%s:host=%q,pattern=%q", kind, join(h), join(q))
						sigKey[sig] = key
						_, desc = checkPair(h, q)
						r.Violation(key, desc, pairCase{Part: "pair", Host: h, Pattern: q})
					} else {
						r.Violation(key, desc, nil)
					}
					cls["pair:violating"]++
					continue
				}
				raw := join(host)
				cl := refClean(raw)
				m := refGlob([]rune(cl), []rune(p))
				if m {
					cls["pair:match"]++
					if nw > 0 && cl != "" {
						nontrivial++
					}
					if cl != raw {
						cls["pair:match-after-cleaning-changed-host"]++
					}
					if strings.Contains(cl, "\n") {
						cls["pair:match-host-has-newline"]++
					}
					if nw >= 2 {
						cls["pair:match-2+wildcards"]++
					}
					if strings.ContainsAny(cl, "éÉ") {
						cls["pair:match-non-ascii"]++
					}
					if cl != strings.ToLower(cl) || p != strings.ToLower(p) {
						cls["pair:match-mixed-case"]++
					}
				} else {
					cls["pair:no-match"]++
				}
			}
		}
		r.Eval(evals)
		r.Nontrivial(nontrivial)
		for k, n := range cls {
			r.ClassN(k, n)
		}
		r.Sample(map[string]any{"part": "pair", "hosts": len(hosts), "patterns": len(pats), "example_host": join(hosts[len(hosts)/2]), "example_pattern": join(pats[len(pats)/3])})

		// ---- part 2: route lists of 1..3 routes through the real findRoute
		pool := [][]string{{"a"}, {"*"}, {"?"}, {"a*"}, {"*.b"}, {"?.?"}, {"*a*"}, {"b", "?a"}, {"*$1*"}, {"a.b", "*(*"}}
		if r.Quick() {
			pool = pool[:8]
		}
		pool = append(pool[:len(pool):len(pool)], []string{}) // a route without any host pattern: never matches, never hides a later route
		rhosts := allSeq(hostSyms, 3)
		var lists [][][]string
		for n := 1; n <= 3; n++ {
			idx := make([]int, n)
			for {
				l := make([][]string, n)
				for i, x := range idx {
					l[i] = pool[x]
				}
				lists = append(lists, l)
				k := n - 1
				for k >= 0 {
					idx[k]++
					if idx[k] < len(pool) {
						break
					}
					idx[k] = 0
					k--
				}
				if k < 0 {
					break
				}
			}
		}
		evals = 0
		cls = map[string]int{}
	lists:
		for li, l := range lists {
			if !r.Mine(li) {
				continue
			}
			if li%16 == 0 && r.Expired() {
				break lists
			}
			for _, host := range rhosts {
				evals++
				kind, desc := checkRoutes(host, l)
				if kind != "" {
					r.Violation(kind, desc, pairCase{Part: "routes", Host: host, Routes: l})
					cls["routes:violating"]++
				}
			}
			cls[fmt.Sprintf("routes:lists-of-%d", len(l))]++
		}
		r.Eval(evals)
		for k, n := range cls {
			r.ClassN(k, n)
		}
		r.Sample(map[string]any{"part": "routes", "route_lists": len(lists), "hosts": len(rhosts), "pool": pool})

		// ---- part 3: substitution of captured texts
		if r.Mine(0) {
			tsyms := []string{"$1", "$2", "$3", "x", "$", ".", ":"}
			gvals := []string{"", "a", "$1", "$2", "$", "1"}
			tl := 3
			if r.Thorough() {
				tl = 4
			}
			evals = 0
			for _, tp := range allSeq(tsyms, tl) {
				tpl := join(tp)
				for _, gs := range allSeq(gvals, 3) {
					evals++
					if kind, desc := checkSubst(tpl, gs); kind != "" {
						r.Violation(kind, desc, pairCase{Part: "subst", Tpl: tpl, Groups: append([]string(nil), gs...)})
					}
				}
			}
			r.Eval(evals)
			r.ClassN("subst:cases", evals)
		}

		// ---- part 4: two-digit parameters; part 5: the real entry points and what they dial
		runSubst10Part(r)
		runMetaPart(r)
		runEntryPart(r)
	})
}
