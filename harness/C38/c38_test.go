package reload

// C38 — config file reload fires once for the final content despite lost / duplicated / delayed
// filesystem events.
//
// Engine: bubble. The real watch loop (watchWithOptions -> runWatchLoop) runs inside a
// testing/synctest bubble with a scripted eventWatcher and a real temp file. Every step of a
// history is: one file operation, one notification behaviour, one clock advance; after each
// step synctest.Wait() lets the loop reach quiescence. The callback records the fake time and
// the file content it finds. lib/bfs enumerates all histories up to the depth bound.
//
// Oracle (statement + DESIGN 2a fine print; "absent" is a don't-care content):
//   E = sequence of contents seen by the callback, started with the content present when the
//       watch began ("last evaluated").
//   never-equal : a callback that sees present content X directly after an evaluation of X.
//   final       : after the history the clock runs reconcile interval + debounce + eps; if the
//                 final content F is present and differs from the last evaluated content, a
//                 callback must have seen F, no later than last-change + interval + debounce.

import (
	"context"
	"errors"
	"fmt"
	"os"
	"path/filepath"
	"testing"
	"testing/synctest"
	"time"

	"github.com/fsnotify/fsnotify"

	"go.minekube.com/gate/pkg/edition/java/proxy/zzverif/bfs"
	"go.minekube.com/gate/pkg/edition/java/proxy/zzverif/vrt"
)

const (
	fNone      = "none"
	fWriteA    = "writeA"
	fWriteB    = "writeB"
	fReplA     = "replaceA" // write temp file + rename over the config (atomic replace)
	fReplB     = "replaceB"
	fDelete    = "delete"
	fWriteE    = "writeEmpty" // the file is truncated to zero length: present, with the empty content
	nNone      = "-"          // no notification involved (only with fNone)
	nDeliver   = "delivered"
	nDrop      = "dropped"
	nDup       = "duplicated"
	nDelay     = "delayed" // delivered after the NEXT step's file operation
	nErr       = "watcher-error"
	nClosed    = "events-closed"
	nErrClosed = "errors-closed" // the watcher's Errors() channel is closed
	nDirGone   = "dir-removed-event"
)

type step struct {
	File   string `json:"file"`
	Notify string `json:"notify"`
	Adv    int    `json:"adv_ms"`
	// Recreate scripts the watcher factory for the re-attach attempts that follow a dropped
	// watcher: "" / "ok" = succeeds, "fail1" = the next attempt fails, "fail" = every further
	// attempt fails (e.g. inotify limits, directory not back).
	Recreate string `json:"recreate,omitempty"`
	// Cb arms a one-shot action for the NEXT callback invocation: after the callback has read the
	// file ("evaluated" it) and before it returns, the file is rewritten (writeA / writeB), i.e.
	// the content changes while an evaluation is in progress. CbNotify: that change's
	// notification is delivered or dropped.
	Cb       string `json:"cb,omitempty"`
	CbNotify string `json:"cb_notify,omitempty"`
}

func (s step) String() string {
	if s.Recreate != "" {
		return fmt.Sprintf("%s/%s(recreate:%s)/+%dms", s.File, s.Notify, s.Recreate, s.Adv)
	}
	if s.Cb != "" {
		return fmt.Sprintf("%s/%s[during-callback:%s/%s]/+%dms", s.File, s.Notify, s.Cb, s.CbNotify, s.Adv)
	}
	return fmt.Sprintf("%s/%s/+%dms", s.File, s.Notify, s.Adv)
}

type fakeWatcher struct {
	ev     chan fsnotify.Event
	er     chan error
	closed bool
}

func (w *fakeWatcher) Events() <-chan fsnotify.Event { return w.ev }
func (w *fakeWatcher) Errors() <-chan error          { return w.er }
func (w *fakeWatcher) Close() error                  { w.closed = true; return nil }

type scenario struct {
	Name     string
	Initial  string // "" = file absent when the watch starts
	CbErr    bool   // callback rejects every candidate
	Replace  bool   // use atomic replace instead of in-place writes
	Faults   bool   // watcher-drop scenario: reduced notification alphabet + scripted re-creation
	CbWrites bool   // the file changes while the callback is running
	Empty    bool   // content alphabet {A, empty (zero-length file)} + absent
	Advances []int
}

type cbCall struct {
	at      time.Duration // fake time since the watch began
	content string        // "" = absent / unreadable
}

const (
	debounceMs = 100
	tickMs     = 250
)

func alphabet(sc scenario, thorough bool) []step {
	var ops []step
	writes := []string{fWriteA, fWriteB}
	if sc.Replace {
		writes = []string{fReplA, fReplB}
	}
	files := append(writes, fDelete)
	if sc.Empty {
		files = []string{fWriteA, fWriteE, fDelete}
	}
	if sc.Faults {
		// the watcher is dropped by each of the three triggers x re-creation {succeeds, fails once,
		// fails for the rest of the run}; file operations (notified or not) before / after
		for _, adv := range sc.Advances {
			for _, f := range files {
				ops = append(ops, step{File: f, Notify: nDeliver, Adv: adv}, step{File: f, Notify: nDrop, Adv: adv})
			}
			ops = append(ops, step{File: fNone, Notify: nNone, Adv: adv})
			for _, trig := range []string{nErr, nClosed, nDirGone} {
				for _, rc := range []string{"ok", "fail1", "fail"} {
					ops = append(ops, step{File: fNone, Notify: trig, Adv: adv, Recreate: rc})
				}
			}
			for _, rc := range []string{"ok", "fail"} {
				ops = append(ops, step{File: fNone, Notify: nErrClosed, Adv: adv, Recreate: rc})
			}
		}
		return ops
	}
	if sc.CbWrites {
		for _, adv := range sc.Advances {
			for _, f := range writes {
				for _, n := range []string{nDeliver, nDrop} {
					ops = append(ops, step{File: f, Notify: n, Adv: adv})
					for _, cb := range []string{fWriteA, fWriteB} {
						for _, cn := range []string{nDeliver, nDrop} {
							ops = append(ops, step{File: f, Notify: n, Adv: adv, Cb: cb, CbNotify: cn})
						}
					}
				}
			}
			ops = append(ops, step{File: fNone, Notify: nNone, Adv: adv})
		}
		return ops
	}
	for _, adv := range sc.Advances {
		for _, f := range files {
			for _, n := range []string{nDeliver, nDrop, nDup, nDelay} {
				ops = append(ops, step{File: f, Notify: n, Adv: adv})
			}
		}
		ops = append(ops, step{File: fNone, Notify: nNone, Adv: adv}, step{File: fNone, Notify: nDeliver, Adv: adv}, step{File: fNone, Notify: nErr, Adv: adv})
		if thorough {
			ops = append(ops, step{File: fNone, Notify: nClosed, Adv: adv}, step{File: fNone, Notify: nDirGone, Adv: adv})
		}
	}
	return ops
}

var workDir string
var dirMade bool

func readContent(path string) string {
	b, err := os.ReadFile(path)
	if err != nil {
		return ""
	}
	if len(b) == 0 {
		return "<empty>" // a present file of zero length is a content of its own, not "absent"
	}
	return string(b)
}

func runHistory(t *testing.T, sc scenario, h []step) (out bfs.Outcome) {
	dir := filepath.Join(workDir, "w")
	path := filepath.Join(dir, "config.yml")
	if !dirMade {
		if err := os.MkdirAll(dir, 0o755); err != nil {
			return bfs.Outcome{FailKey: "harness/mkdir", FailDesc: err.Error()}
		}
		dirMade = true
	}
	if sc.Initial != "" {
		if err := os.WriteFile(path, []byte(sc.Initial), 0o600); err != nil {
			return bfs.Outcome{FailKey: "harness/write", FailDesc: err.Error()}
		}
	} else {
		_ = os.Remove(path)
	}
	synctest.Test(t, func(t *testing.T) {
		ctx, cancel := context.WithCancel(context.Background())
		start := time.Now()
		var calls []cbCall
		var cur *fakeWatcher
		created, failLeft := 0, 0 // failLeft: re-creation attempts that still fail (-1 = all)
		newWatcher := func(string) (eventWatcher, error) {
			if created > 0 && failLeft != 0 {
				if failLeft > 0 {
					failLeft--
				}
				return nil, errors.New("scripted: watcher cannot be re-created")
			}
			created++
			cur = &fakeWatcher{ev: make(chan fsnotify.Event, 8), er: make(chan error, 2)}
			return cur, nil
		}
		lastChange := time.Duration(0)
		var armed, armedNotify string
		var sendEvent func(fsnotify.Event)
		cb := func() error {
			calls = append(calls, cbCall{time.Since(start), readContent(path)})
			if armed != "" { // the file changes while this evaluation is in progress
				c := "A"
				if armed == fWriteB {
					c = "B"
				}
				before := readContent(path)
				_ = os.WriteFile(path, []byte(c), 0o600)
				if c != before {
					lastChange = time.Since(start)
				}
				if armedNotify == nDeliver {
					sendEvent(fsnotify.Event{Name: path, Op: fsnotify.Write})
				}
				armed = ""
			}
			if sc.CbErr {
				return Reject("invalid")
			}
			return nil
		}
		if err := watchWithOptions(ctx, path, cb, watchOptions{newWatcher: newWatcher}); err != nil {
			out = bfs.Outcome{FailKey: "harness/watch", FailDesc: err.Error()}
			cancel()
			return
		}
		synctest.Wait()
		send := func(e fsnotify.Event) {
			if cur == nil || cur.closed {
				return // nobody is watching: the notification is lost
			}
			select {
			case cur.ev <- e:
			default:
			}
		}
		sendEvent = send
		fileEvent := func(op fsnotify.Op) fsnotify.Event { return fsnotify.Event{Name: path, Op: op} }

		var delayed []fsnotify.Event
		for _, s := range h {
			before := readContent(path)
			var e fsnotify.Event
			switch s.File {
			case fWriteA, fWriteB:
				c := "A"
				if s.File == fWriteB {
					c = "B"
				}
				_ = os.WriteFile(path, []byte(c), 0o600)
				e = fileEvent(fsnotify.Write)
			case fReplA, fReplB:
				c := "A"
				if s.File == fReplB {
					c = "B"
				}
				tmp := path + ".tmp"
				_ = os.WriteFile(tmp, []byte(c), 0o600)
				_ = os.Rename(tmp, path)
				e = fileEvent(fsnotify.Create)
			case fWriteE:
				_ = os.WriteFile(path, nil, 0o600)
				e = fileEvent(fsnotify.Write)
			case fDelete:
				_ = os.Remove(path)
				e = fileEvent(fsnotify.Remove)
			case fNone:
				e = fileEvent(fsnotify.Chmod)
			}
			if readContent(path) != before {
				lastChange = time.Since(start)
			}
			// a notification delayed from the previous step arrives now (after this step's file op)
			for _, d := range delayed {
				send(d)
			}
			delayed = nil
			if s.Cb != "" {
				armed, armedNotify = s.Cb, s.CbNotify
			}
			switch s.Recreate {
			case "fail1":
				failLeft = 1
			case "fail":
				failLeft = -1
			case "ok":
				failLeft = 0
			}
			switch s.Notify {
			case nDeliver:
				send(e)
			case nDup:
				send(e)
				send(e)
			case nDelay:
				delayed = append(delayed, e)
			case nErr:
				if cur != nil && !cur.closed {
					select {
					case cur.er <- errors.New("scripted watcher error"):
					default:
					}
				}
			case nClosed:
				if cur != nil && !cur.closed {
					close(cur.ev)
				}
			case nErrClosed:
				if cur != nil && !cur.closed {
					close(cur.er)
				}
			case nDirGone:
				send(fsnotify.Event{Name: dir, Op: fsnotify.Remove})
			}
			synctest.Wait()
			time.Sleep(time.Duration(s.Adv) * time.Millisecond)
			synctest.Wait()
		}
		for _, d := range delayed {
			send(d)
		}
		synctest.Wait()
		// settle: reconcile interval + debounce + eps
		time.Sleep((tickMs + debounceMs + 1) * time.Millisecond)
		synctest.Wait()
		// a callback that ran during the settle period may itself have changed the file (armed
		// one-shot action): the bound counts from that change
		for time.Since(start) <= lastChange+(tickMs+debounceMs)*time.Millisecond {
			time.Sleep(lastChange + (tickMs+debounceMs+1)*time.Millisecond - time.Since(start))
			synctest.Wait()
		}
		final := readContent(path)
		cancel()
		synctest.Wait()

		// ---- oracle ----
		lastEval := sc.Initial
		for i, c := range calls {
			if c.content != "" && c.content == lastEval {
				out = bfs.Outcome{FailKey: "callback/ran-for-content-equal-to-last-evaluated",
					FailDesc: fmt.Sprintf("scenario %s: callback #%d at %v saw content %q which is what was last evaluated; calls=%v", sc.Name, i+1, c.at, c.content, fmtCalls(calls))}
				return
			}
			lastEval = c.content
		}
		if final != "" && final != lastEval {
			out = bfs.Outcome{FailKey: "callback/final-content-not-evaluated",
				FailDesc: fmt.Sprintf("scenario %s: content %q has been stable since %v but no callback saw it within %dms (last evaluated %q); calls=%v", sc.Name, final, lastChange, tickMs+debounceMs, lastEval, fmtCalls(calls))}
			return
		}
		if final != "" && len(calls) > 0 {
			// the evaluation of the final content must not be later than last change + bound
			for i := len(calls) - 1; i >= 0; i-- {
				if calls[i].content == final {
					if i == len(calls)-1 && calls[i].at > lastChange+(tickMs+debounceMs)*time.Millisecond {
						out = bfs.Outcome{FailKey: "callback/final-content-evaluated-late",
							FailDesc: fmt.Sprintf("scenario %s: content %q stable since %v, evaluated at %v (> +%dms); calls=%v", sc.Name, final, lastChange, calls[i].at, tickMs+debounceMs, fmtCalls(calls))}
						return
					}
					break
				}
			}
		}
		out = bfs.Outcome{Obs: fmt.Sprintf("calls=%d final=%q", len(calls), final)}
	})
	return
}

func fmtCalls(cs []cbCall) string {
	s := "["
	for i, c := range cs {
		if i > 0 {
			s += " "
		}
		content := c.content
		if content == "" {
			content = "<absent>"
		}
		s += fmt.Sprintf("%v:%s", c.at, content)
	}
	return s + "]"
}

var scenarios = []scenario{
	{Name: "present-A", Initial: "A", Advances: []int{1, debounceMs - 1, debounceMs + 1, tickMs + 1}},
	{Name: "initially-absent", Initial: "", Advances: []int{1, debounceMs + 1, tickMs + 1}},
	{Name: "callback-rejects", Initial: "A", CbErr: true, Advances: []int{1, debounceMs - 1, tickMs + 1}},
	{Name: "atomic-replace", Initial: "A", Replace: true, Advances: []int{1, debounceMs - 1, tickMs + 1}},
	{Name: "watcher-dropped", Initial: "A", Faults: true, Advances: []int{1, debounceMs + 1, tickMs + 1}},
	{Name: "empty-content", Initial: "A", Empty: true, Advances: []int{1, debounceMs + 1, tickMs + 1}},
	{Name: "changed-during-callback", Initial: "A", CbWrites: true, Advances: []int{1, debounceMs + 1, tickMs + 1}},
}

func TestVerif(t *testing.T) {
	vrt.Run(t, "C38", func(r *vrt.R) {
		workDir = t.TempDir()
		if d, err := os.MkdirTemp("/dev/shm", "verif-c38-"); err == nil { // tmpfs: file ops dominate the run time
			workDir = d
			defer os.RemoveAll(d)
		}
		var rp bfs.ReplayData[step]
		if r.ReplayInto(&rp) {
			r.Eval(1)
			all := append([]scenario{}, scenarios...)
			d4 := scenarios[0]
			d4.Name = "present-A-depth4"
			all = append(all, d4)
			for _, sc := range all {
				if sc.Name == rp.Scenario {
					if out := runHistory(t, sc, rp.History); out.FailKey != "" {
						r.Violation(rp.Scenario+"/"+out.FailKey, out.FailDesc, rp)
					}
				}
			}
			return
		}
		for i, sc := range scenarios {
			sc := sc
			depth := 2
			if i == 0 || sc.Faults || r.Thorough() {
				depth = 3
			}
			if sc.Faults && r.Thorough() {
				depth = 4
			}
			res := bfs.Explore(bfs.Config[step]{Name: sc.Name, Ops: alphabet(sc, r.Thorough()), Depth: depth,
				Shard: r.Shard, NShards: r.NShards, Deadline: r.DeadlineTime(),
				Run: func(h []step) bfs.Outcome { return runHistory(t, sc, h) }})
			res.Merge(r, sc.Name)
		}
		if r.Thorough() {
			// one level deeper on the main scenario with three clock advances and no watcher faults
			sc := scenarios[0]
			sc.Name = "present-A-depth4"
			sc.Advances = []int{1, debounceMs - 1, tickMs + 1}
			res := bfs.Explore(bfs.Config[step]{Name: sc.Name, Ops: alphabet(sc, false), Depth: 4,
				Shard: r.Shard, NShards: r.NShards, Deadline: r.DeadlineTime(),
				Run: func(h []step) bfs.Outcome { return runHistory(t, sc, h) }})
			res.Merge(r, sc.Name)
		}
	})
}
