package addrquota

// C34 (pass "quota") — connection/login quotas group addresses by IPv4 /24 (incl. IPv4-mapped
// IPv6) and IPv6 /64 and admit per group at most burst + rate*elapsed events.
//
// Quota.Blocked runs inside a testing/synctest bubble (x/time/rate reads time.Now()).

import (
	"fmt"
	"math/big"
	"net/netip"
	"sort"
	"strings"
	"testing"
	"testing/synctest"
	"time"

	"golang.org/x/time/rate"

	"go.minekube.com/gate/pkg/edition/java/proxy/zzverif/bfs"
	"go.minekube.com/gate/pkg/edition/java/proxy/zzverif/vrt"
)

// ---- reference bucketing, on net/netip bytes (the code under test uses net.IP) ----

// refGroup returns a canonical group id or "" for strings that are not IP addresses.
func refGroup(s string) string {
	a, err := netip.ParseAddr(s)
	if err != nil || a.Zone() != "" {
		return ""
	}
	a = a.Unmap()
	if a.Is4() {
		b := a.As4()
		return fmt.Sprintf("v4:%d.%d.%d/24", b[0], b[1], b[2])
	}
	b := a.As16()
	return fmt.Sprintf("v6:%x/64", b[:8])
}

// observedSameBucket: fresh quota with burst 1 and a negligible refill; X consumes the single
// token of its bucket; Y is then blocked iff it shares that bucket.
func observedSameBucket(x, y string) (first, second bool) {
	q := NewQuota(1e-6, 1, 16)
	first = q.Blocked(x)
	second = q.Blocked(y)
	return
}

func flipBits(b []byte, bits ...int) []byte {
	out := append([]byte{}, b...)
	for _, i := range bits {
		out[i/8] ^= 0x80 >> (i % 8)
	}
	return out
}

func v4String(b []byte, mapped int) string {
	switch mapped {
	case 1:
		return fmt.Sprintf("::ffff:%d.%d.%d.%d", b[0], b[1], b[2], b[3])
	case 2:
		return fmt.Sprintf("::ffff:%02x%02x:%02x%02x", b[0], b[1], b[2], b[3])
	}
	return fmt.Sprintf("%d.%d.%d.%d", b[0], b[1], b[2], b[3])
}

func v6String(b []byte, style int) string {
	var a [16]byte
	copy(a[:], b)
	switch style {
	case 1: // fully expanded upper case
		parts := make([]string, 8)
		for i := range parts {
			parts[i] = fmt.Sprintf("%02X%02X", b[2*i], b[2*i+1])
		}
		return strings.Join(parts, ":")
	}
	return netip.AddrFrom16(a).String()
}

type pairCase struct {
	X string `json:"x"`
	Y string `json:"y"`
}

func checkPair(r *vrt.R, x, y string, class string) {
	r.Eval(1)
	gx, gy := refGroup(x), refGroup(y)
	if gx == "" || gy == "" {
		// not an address for the reference: the statement says nothing; only "no panic"
		if p, v := vrt.Catch(func() { ipKey(x); ipKey(y) }); p {
			r.Violation("ipKey/panic", fmt.Sprintf("ipKey(%q)/ipKey(%q) panicked: %v", x, y, v), pairCase{x, y})
		}
		r.Class("pair:unparsable")
		return
	}
	want := gx == gy
	kx, ky := ipKey(x), ipKey(y)
	if kx == "" || ky == "" {
		r.Violation("ipKey/address-not-bucketed", fmt.Sprintf("ipKey(%q)=%q ipKey(%q)=%q: a valid address has no bucket and is never limited", x, kx, y, ky), pairCase{x, y})
		return
	}
	if (kx == ky) != want {
		r.Violation("ipKey/wrong-grouping", fmt.Sprintf("%q (bucket %q, want group %s) and %q (bucket %q, want group %s): same bucket=%v, want %v", x, kx, gx, y, ky, gy, kx == ky, want), pairCase{x, y})
	}
	first, second := observedSameBucket(x, y)
	if first {
		r.Violation("Blocked/first-event-blocked", fmt.Sprintf("fresh quota with burst 1 blocked the first event from %q", x), pairCase{x, y})
	}
	if second != want {
		r.Violation("Blocked/wrong-grouping", fmt.Sprintf("burst 1: after one event from %q, %q blocked=%v, want %v (groups %s / %s)", x, y, second, want, gx, gy), pairCase{x, y})
	}
	if want {
		r.Class("pair:same-group:" + class)
	} else {
		r.Class("pair:different-group:" + class)
	}
	r.Distinct(x + "|" + y)
}

func pairs(r *vrt.R) {
	item := 0
	mine := func() bool { item++; return r.Mine(item - 1) }
	v4bases := [][]byte{{1, 2, 3, 4}, {0, 0, 0, 0}, {255, 255, 255, 255}, {10, 0, 255, 0}, {192, 168, 0, 255}, {127, 0, 0, 1}}
	for _, b := range v4bases {
		for mx := 0; mx < 3; mx++ {
			for my := 0; my < 3; my++ {
				x := v4String(b, mx)
				for i := 0; i < 32; i++ {
					if mine() {
						checkPair(r, x, v4String(flipBits(b, i), my), fmt.Sprintf("v4-1bit(%d/%d)", mx, my))
					}
					if mx != 0 && my != 0 && mx == my {
						continue // two-bit flips: plain/plain and mixed spellings are enough
					}
					for j := i + 1; j < 32; j++ {
						if mine() {
							checkPair(r, x, v4String(flipBits(b, i, j), my), "v4-2bit")
						}
					}
				}
				if mine() {
					checkPair(r, x, v4String(b, my), "v4-identical")
				}
			}
		}
	}
	v6bases := [][]byte{
		netipBytes("2001:db8:0:1::1"), netipBytes("2001:db8:0:1:ffff:ffff:ffff:ffff"), netipBytes("fe80::1"),
		netipBytes("::1"), netipBytes("2a02:ffff:ffff:ffff::"),
	}
	for _, b := range v6bases {
		for sx := 0; sx < 2; sx++ {
			x := v6String(b, sx)
			for i := 0; i < 128; i++ {
				if mine() {
					checkPair(r, x, v6String(flipBits(b, i), 1-sx), "v6-1bit")
				}
				if sx == 1 {
					continue
				}
				for j := i + 1; j < 128; j++ {
					if mine() {
						checkPair(r, x, v6String(flipBits(b, i, j), 0), "v6-2bit")
					}
				}
			}
		}
	}
	// cross-family and special spellings, all ordered pairs
	special := []string{
		"1.2.3.4", "1.2.3.255", "1.2.4.4", "::ffff:1.2.3.9", "::ffff:102:3ff", "::ffff:1.2.4.9",
		"::1.2.3.4", "::102:304", "64:ff9b::1.2.3.4", "2002:102:304::1", "::", "::1", "0.0.0.0", "::ffff:0.0.0.0",
		"2001:db8::1", "2001:DB8:0:0:8000::", "2001:db8:0:1::", "0:0:0:0:0:ffff:102:301",
		"", "1.2.3", "1.2.3.4:25565", "[::1]", "fe80::1%eth0", "01.2.3.4", "localhost", "1.2.3.4 ",
	}
	for _, x := range special {
		for _, y := range special {
			if mine() {
				checkPair(r, x, y, "special")
			}
		}
	}
}

func netipBytes(s string) []byte {
	a := netip.MustParseAddr(s).As16()
	return a[:]
}

// ---- token bucket bound over histories ----

type qop struct {
	Dt   int64 `json:"dt"` // nanoseconds to advance before the events
	Addr int   `json:"addr"`
	N    int   `json:"n"` // number of back-to-back events from that address
}

func (o qop) String() string { return fmt.Sprintf("+%dns:%dx%s", o.Dt, o.N, histAddrs[o.Addr]) }

// 5 addresses in 3 groups: A={0,1 (mapped spelling)}, B={2,3}, C={4}; quick tier uses 0,1,2
var histAddrs = []string{"10.1.2.3", "::ffff:10.1.2.200", "2001:db8:0:7::1", "2001:db8:0:7:ffff::2", "10.1.3.3"}

type qcfg struct {
	Name  string
	EPS   float32
	Burst int
	Cap   int // maxEntries of the quota; 0 = 64 (far above the number of groups)
}

// capCfg: as many LRU entries as there are groups in the history (3 addresses in 2 groups): no
// bucket may ever be evicted, so every group keeps its budget exactly as with a roomy cache.
var capCfg = qcfg{Name: "tight-0.5ps-burst1-maxEntries=groups", EPS: 0.5, Burst: 1, Cap: 2}

var qcfgs = []qcfg{
	{"logins-0.4ps-burst3", 0.4, 3, 0},
	{"connections-5ps-burst10", 5, 10, 0},
	{"tight-0.5ps-burst1", 0.5, 1, 0},
}

func (c qcfg) ops(addrs []int) []qop {
	period := int64(float64(time.Second) / float64(c.EPS)) // time for one token
	var ops []qop
	for _, dt := range []int64{0, 1, period - 1, period, period + 1, int64(c.Burst+1) * period} {
		for _, a := range addrs {
			ops = append(ops, qop{dt, a, 1})
		}
		for _, a := range addrs {
			if c.Burst > 1 {
				ops = append(ops, qop{dt, a, c.Burst})
			}
			ops = append(ops, qop{dt, a, c.Burst + 1})
		}
	}
	return ops
}

// refLevel is the level of the reference token bucket driven by the admitted events:
// min(burst, min_i(burst + rate*(now-t_i) - #admitted in [t_i, now])).
func refLevel(ts []int64, now int64, eps float32, burst int) string {
	rateR := new(big.Rat).SetFloat64(float64(eps))
	level := big.NewRat(int64(burst), 1)
	for i := range ts {
		v := new(big.Rat).Mul(rateR, big.NewRat(now-ts[i], 1_000_000_000))
		v.Add(v, big.NewRat(int64(burst-(len(ts)-i)), 1))
		if v.Cmp(level) < 0 {
			level = v
		}
	}
	return level.RatString()
}

// boundOK checks admitted events of one group: for every pair i<=j of admitted events the
// count j-i+1 must be <= burst + rate*(t_j - t_i)  (+ slack), rate being the configured float32.
func boundViolation(ts []int64, eps float32, burst int) (bool, string) {
	rateR := new(big.Rat).SetFloat64(float64(eps))
	slack := big.NewRat(1, 1_000_000)
	for i := range ts {
		// intervals ending at the newest admitted event; earlier ones were checked when their
		// last event was admitted
		for j := len(ts) - 1; j < len(ts); j++ {
			n := big.NewRat(int64(j-i+1), 1)
			el := big.NewRat(ts[j]-ts[i], 1_000_000_000)
			bound := new(big.Rat).Add(big.NewRat(int64(burst), 1), new(big.Rat).Mul(rateR, el))
			bound.Add(bound, slack)
			if n.Cmp(bound) > 0 {
				f, _ := bound.Float64()
				return true, fmt.Sprintf("%d events admitted within %dns; burst %d + rate %g * elapsed = %.9f", j-i+1, ts[j]-ts[i], burst, eps, f)
			}
		}
	}
	return false, ""
}

func runQuota(t *testing.T, c qcfg, h []qop) (out bfs.Outcome) {
	synctest.Test(t, func(t *testing.T) {
		capacity := c.Cap
		if capacity == 0 {
			capacity = 64
		}
		q := NewQuota(c.EPS, c.Burst, capacity)
		adm := map[string][]int64{}
		seen := map[string]bool{}
		for i, o := range h {
			if o.Dt > 0 {
				time.Sleep(time.Duration(o.Dt))
			}
			addr := histAddrs[o.Addr]
			g := refGroup(addr)
			for k := 0; k < o.N; k++ {
				now := time.Now().UnixNano()
				blocked := q.Blocked(addr)
				if !seen[g] && blocked {
					out = bfs.Outcome{FailKey: "Blocked/fresh-group-blocked",
						FailDesc: fmt.Sprintf("cfg %+v: op %d (%v) event %d: first event ever of group %s was blocked (groups must have independent budgets of burst>=1)", c, i, o, k+1, g)}
					return
				}
				seen[g] = true
				if !blocked {
					adm[g] = append(adm[g], now)
					if bad, why := boundViolation(adm[g], c.EPS, c.Burst); bad {
						out = bfs.Outcome{FailKey: "Blocked/more-than-burst-plus-rate-elapsed",
							FailDesc: fmt.Sprintf("cfg %+v: op %d (%v) event %d: group %s: %s", c, i, o, k+1, g, why)}
						return
					}
				}
			}
		}
		// state key: tokens of every bucket at `now` (exact float bits) + the reference bucket
		// level implied by the admitted events (min-plus form of the interval bound, exact
		// rationals): equal keys => equal futures for implementation and oracle.
		now := time.Now()
		var parts []string
		for _, a := range histAddrs {
			k := ipKey(a)
			if v, ok := q.cache.Get(k); ok {
				parts = append(parts, fmt.Sprintf("%s=%x", k, v.(*rate.Limiter).TokensAt(now)))
			}
		}
		sort.Strings(parts)
		parts = dedupe(parts)
		var rel []string
		nadm := 0
		for g, ts := range adm {
			nadm += len(ts)
			rel = append(rel, g+"~"+refLevel(ts, now.UnixNano(), c.EPS, c.Burst))
		}
		for g := range seen {
			if len(adm[g]) == 0 {
				rel = append(rel, g+"~seen")
			}
		}
		sort.Strings(rel)
		out = bfs.Outcome{Key: strings.Join(parts, ",") + "|" + strings.Join(rel, ","), Obs: fmt.Sprintf("admitted=%d", nadm)}
	})
	return
}

func dedupe(s []string) []string {
	var out []string
	for i, x := range s {
		if i == 0 || s[i-1] != x {
			out = append(out, x)
		}
	}
	return out
}

func TestVerif(t *testing.T) {
	vrt.Run(t, "C34", func(r *vrt.R) {
		var rp struct {
			Scenario string `json:"scenario"`
			History  []qop  `json:"history"`
			X        string `json:"x"`
			Y        string `json:"y"`
		}
		if r.ReplayInto(&rp) {
			if rp.Scenario == "" {
				synctest.Test(t, func(t *testing.T) { checkPair(r, rp.X, rp.Y, "replay") })
				return
			}
			r.Eval(1)
			for _, c := range append(append([]qcfg{}, qcfgs...), capCfg) {
				if "quota-"+c.Name == strings.TrimSuffix(rp.Scenario, "-5addrs") {
					if out := runQuota(t, c, rp.History); out.FailKey != "" {
						r.Violation(rp.Scenario+"/"+out.FailKey, out.FailDesc, bfs.ReplayData[qop]{Scenario: rp.Scenario, History: rp.History})
					}
				}
			}
			return
		}

		synctest.Test(t, func(t *testing.T) { pairs(r) })

		type plan struct {
			depth int
			addrs []int
			tag   string
		}
		plans := []plan{{4, []int{0, 1, 2}, ""}}
		if r.Thorough() {
			plans = []plan{{5, []int{0, 1, 2}, ""}, {3, []int{0, 1, 2, 3, 4}, "-5addrs"}}
		}
		{ // the cache exactly as large as the number of groups
			c, depth := capCfg, 3
			if r.Thorough() {
				depth = 5
			}
			res := bfs.Explore(bfs.Config[qop]{Name: c.Name, Ops: c.ops([]int{0, 1, 2}), Depth: depth,
				Shard: r.Shard, NShards: r.NShards, Deadline: r.DeadlineTime(),
				Run: func(h []qop) bfs.Outcome { return runQuota(t, c, h) }})
			res.Merge(r, "quota-"+c.Name)
		}
		for _, pl := range plans {
			for _, c := range qcfgs {
				c := c
				res := bfs.Explore(bfs.Config[qop]{Name: c.Name, Ops: c.ops(pl.addrs), Depth: pl.depth,
					Shard: r.Shard, NShards: r.NShards, Deadline: r.DeadlineTime(),
					Run: func(h []qop) bfs.Outcome { return runQuota(t, c, h) }})
				res.Merge(r, "quota-"+c.Name+pl.tag)
			}
		}
	})
}
