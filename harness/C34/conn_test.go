package netmc

// C34 (pass "conn") — "A connection's packet limiter closes IT exactly when ...": the limiter
// wired into a real client connection. NewMinecraftConn is given a real packetlimiter.Limiter
// and one end of a net.Pipe; the harness writes whole frames (unknown packet id, so the frame is
// handed to the session handler undecoded) into the other end under testing/synctest's fake
// clock, lets the read loop reach quiescence after every frame, and compares with the same naive
// sliding window as pass main: the connection must be open (and the frame delivered) while the
// packets / wire bytes of the trailing window do not exceed rate*window, and must be closed by
// the first frame that makes them exceed it. A nil limiter (both rates off — what backend
// connections get) never closes.

import (
	"bytes"
	"compress/zlib"
	"context"
	"fmt"
	"net"
	"testing"
	"testing/synctest"
	"time"

	"go.minekube.com/gate/pkg/edition/java/proto/state"
	"go.minekube.com/gate/pkg/edition/java/proxy/zzverif/bfs"
	"go.minekube.com/gate/pkg/edition/java/proxy/zzverif/vrt"
	"go.minekube.com/gate/pkg/gate/proto"
	"go.minekube.com/gate/pkg/internal/packetlimiter"
)

// cop: advance the clock by Dt, then send N frames of Wire bytes each (on the wire, length prefix
// included) back to back.
type cop struct {
	Dt   int64 `json:"dt"`
	N    int   `json:"n"`
	Wire int   `json:"wire"`
	// Inflate: (compressed connections only) the frame is a zlib-compressed packet of 6000 zero
	// bytes: a few dozen bytes on the wire (Wire is ignored; the real size is what gets written)
	Inflate bool `json:"inflate,omitempty"`
}

func (o cop) String() string {
	if o.Inflate {
		return fmt.Sprintf("+%dns:%dx(zlib frame inflating to 6000B)", o.Dt, o.N)
	}
	return fmt.Sprintf("+%dns:%dx%dB", o.Dt, o.N, o.Wire)
}

type connCfg struct {
	Name     string
	PPS, BPS int
	W        time.Duration
	// Compressed: the connection has a compression threshold set (as every client connection has
	// after login): frames carry the data-length envelope
	Compressed bool
}

var connCfgs = []connCfg{
	{"conn-packets-10ps-1s", 10, 0, time.Second, false},
	{"conn-bytes-500Bps-1s", 0, 500, time.Second, false},
	{"conn-both-10ps-500Bps-2s", 10, 500, 2 * time.Second, false},
	{"conn-limiter-off", 0, -1, time.Second, false},
	{"conn-compressed-both-10ps-500Bps-1s", 10, 500, time.Second, true},
}

const compressionThreshold = 1024

func (c connCfg) ops() []cop {
	w := int64(c.W)
	var ops []cop
	for _, dt := range []int64{0, w / 2, w - 1, w + 1} {
		// 130 and 300: frames whose length prefix takes two bytes
		ops = append(ops, cop{Dt: dt, N: 1, Wire: 4}, cop{Dt: dt, N: 1, Wire: 100}, cop{Dt: dt, N: 5, Wire: 4}, cop{Dt: dt, N: 11, Wire: 4}, cop{Dt: dt, N: 4, Wire: 126},
			cop{Dt: dt, N: 1, Wire: 130}, cop{Dt: dt, N: 2, Wire: 300})
		if c.Compressed {
			ops = append(ops, cop{Dt: dt, N: 1, Inflate: true}, cop{Dt: dt, N: 9, Inflate: true})
		}
	}
	return ops
}

func putVarInt(b []byte, v int) []byte {
	for {
		if v&^0x7f == 0 {
			return append(b, byte(v))
		}
		b = append(b, byte(v&0x7f|0x80))
		v >>= 7
	}
}

// frame builds one frame of exactly `wire` bytes on the wire (4 <= wire, not 129): VarInt length,
// [data-length envelope 0 = "not compressed" on compressed connections,] packet id 0x7f (unknown
// in every handshake registry), zero padding.
func frame(wire int, compressed bool) []byte {
	prefix := 1
	if wire-1 > 127 {
		prefix = 2
	}
	body := wire - prefix
	if body < 3 || (prefix == 2 && body < 128) {
		panic(fmt.Sprintf("no frame of %d wire bytes", wire))
	}
	b := putVarInt(nil, body)
	if compressed {
		b = append(b, 0)
	}
	b = append(b, 0x7f)
	return append(b, make([]byte, wire-len(b))...)
}

// inflatingFrame: data length 6000, zlib stream of (0x7f + 5999 zero bytes).
func inflatingFrame() []byte {
	var z bytes.Buffer
	zw := zlib.NewWriter(&z)
	_, _ = zw.Write(append([]byte{0x7f}, make([]byte, 5999)...))
	_ = zw.Close()
	body := append(putVarInt(nil, 6000), z.Bytes()...)
	return append(putVarInt(nil, len(body)), body...)
}

type countingHandler struct {
	packets int
	bytes   []int
	gone    bool
}

func (h *countingHandler) HandlePacket(pc *proto.PacketContext) {
	h.packets++
	h.bytes = append(h.bytes, pc.BytesRead)
}
func (h *countingHandler) Disconnected() { h.gone = true }
func (h *countingHandler) Activated()    {}
func (h *countingHandler) Deactivated()  {}

type cev struct{ t, n int64 }

func cnaive(list []cev, now, w int64) (closed, open int64) {
	for _, e := range list {
		if e.t >= now-w {
			closed += e.n
		}
		if e.t > now-w {
			open += e.n
		}
	}
	return
}

func cexceeds(amount int64, perSecond int, w int64) bool {
	return perSecond > 0 && amount*1_000_000_000 > int64(perSecond)*w
}

func runConn(t *testing.T, cfg connCfg, h []cop) (out bfs.Outcome) {
	synctest.Test(t, func(t *testing.T) {
		a, b := net.Pipe()
		lim := packetlimiter.New(cfg.PPS, cfg.BPS, cfg.W)
		conn, readLoop := NewMinecraftConn(context.Background(), a, proto.ServerBound, time.Hour, time.Hour, -1, lim)
		hd := &countingHandler{}
		conn.SetActiveSessionHandler(state.Handshake, hd)
		if cfg.Compressed {
			if err := conn.SetCompressionThreshold(compressionThreshold); err != nil {
				out = bfs.Outcome{FailKey: "harness/compression", FailDesc: err.Error()}
				return
			}
		}
		done := make(chan struct{})
		go func() { readLoop(); close(done) }()
		defer func() {
			_ = conn.Close()
			_ = b.Close()
			<-done
		}()
		synctest.Wait()
		w := int64(cfg.W)
		var pk, by []cev
		sent := 0
		for i, o := range h {
			if o.Dt > 0 {
				time.Sleep(time.Duration(o.Dt))
			}
			f := frame(max(o.Wire, 4), cfg.Compressed)
			if o.Inflate {
				f = inflatingFrame()
			}
			wire := len(f)
			for k := 0; k < o.N; k++ {
				now := time.Now().UnixNano()
				before := hd.packets
				werr := make(chan error, 1)
				go func() { _, err := b.Write(f); werr <- err }()
				synctest.Wait()
				select {
				case <-werr:
				default:
					out = bfs.Outcome{FailKey: "conn/frame-not-consumed", FailDesc: fmt.Sprintf("cfg %+v: op %d (%v) frame %d: the connection is open but the read loop did not take the frame", cfg, i, o, k+1)}
					_ = b.Close()
					return
				}
				sent++
				pk = append(pk, cev{now, 1})
				by = append(by, cev{now, int64(wire)})
				pc, po := cnaive(pk, now, w)
				bc, bo := cnaive(by, now, w)
				mustClose := cexceeds(po, cfg.PPS, w) || cexceeds(bo, cfg.BPS, w)
				mayClose := cexceeds(pc, cfg.PPS, w) || cexceeds(bc, cfg.BPS, w)
				closed := Closed(conn)
				where := fmt.Sprintf("cfg %+v: op %d (%v) frame %d (#%d of the connection): trailing window holds %d packets / %d wire bytes", cfg, i, o, k+1, sent, po, bo)
				switch {
				case closed && !mayClose:
					out = bfs.Outcome{FailKey: "conn/closed-within-limit", FailDesc: where + ", within the limits, but the connection was closed"}
					return
				case !closed && mustClose:
					out = bfs.Outcome{FailKey: "conn/over-limit-not-closed", FailDesc: where + ", over the limit, but the connection is still open"}
					return
				case !closed && hd.packets != before+1:
					out = bfs.Outcome{FailKey: "conn/frame-within-limit-not-delivered", FailDesc: fmt.Sprintf("%s, within the limits, but the session handler saw %d new packets", where, hd.packets-before)}
					return
				}
				if closed {
					if !hd.gone {
						out = bfs.Outcome{FailKey: "conn/closed-without-teardown", FailDesc: where + ": closed by the limiter but the session handler was not told (Disconnected)"}
						return
					}
					out = bfs.Outcome{Key: "closed", Terminal: true, Obs: "closed"}
					return
				}
			}
		}
		// state: the limiter's window relative to now (events older than W cannot matter again)
		now := time.Now().UnixNano()
		key := ""
		for _, e := range by {
			if e.t >= now-w {
				key += fmt.Sprintf("%d:%d,", e.t-now, e.n)
			}
		}
		out = bfs.Outcome{Key: key, Obs: "open"}
	})
	return
}

func TestVerif(t *testing.T) {
	vrt.Run(t, "C34", func(r *vrt.R) {
		var rp bfs.ReplayData[cop]
		if r.ReplayInto(&rp) {
			r.Eval(1)
			for _, c := range connCfgs {
				if c.Name == rp.Scenario {
					if out := runConn(t, c, rp.History); out.FailKey != "" {
						r.Violation(rp.Scenario+"/"+out.FailKey, out.FailDesc, rp)
					}
				}
			}
			return
		}
		depth := 3
		if r.Thorough() {
			depth = 4
		}
		for _, c := range connCfgs {
			c := c
			res := bfs.Explore(bfs.Config[cop]{Name: c.Name, Ops: c.ops(), Depth: depth,
				Shard: r.Shard, NShards: r.NShards, Deadline: r.DeadlineTime(),
				Run: func(h []cop) bfs.Outcome { return runConn(t, c, h) }})
			res.Merge(r, c.Name)
		}
	})
}
