package netmc

// C34 (pass "conn") — "A connection's packet limiter closes IT exactly when ...": the limiter
// wired into a real client connection. NewMinecraftConn is given a real packetlimiter.Limiter
// and one end of a net.Pipe; the harness writes whole frames (unknown packet id, so the frame is
// handed to the session handler undecoded) into the other end under testing/synctest's fake
// clock, lets the read loop reach quiescence after every frame, and compares with the same naive
// sliding window as pass main: the connection must be open (and the frame delivered) while the
// packets / wire bytes of the trailing window do not exceed rate*window, and must be closed by
// the first frame that makes them exceed it. A nil limiter (both rates off — what backend
// connections get) never closes.

import (
	"context"
	"fmt"
	"net"
	"testing"
	"testing/synctest"
	"time"

	"go.minekube.com/gate/pkg/edition/java/proto/state"
	"go.minekube.com/gate/pkg/edition/java/proxy/zzverif/bfs"
	"go.minekube.com/gate/pkg/edition/java/proxy/zzverif/vrt"
	"go.minekube.com/gate/pkg/gate/proto"
	"go.minekube.com/gate/pkg/internal/packetlimiter"
)

// cop: advance the clock by Dt, then send N frames of Wire bytes each (on the wire, length prefix
// included) back to back.
type cop struct {
	Dt   int64 `json:"dt"`
	N    int   `json:"n"`
	Wire int   `json:"wire"`
}

func (o cop) String() string { return fmt.Sprintf("+%dns:%dx%dB", o.Dt, o.N, o.Wire) }

type connCfg struct {
	Name     string
	PPS, BPS int
	W        time.Duration
}

var connCfgs = []connCfg{
	{"conn-packets-10ps-1s", 10, 0, time.Second},
	{"conn-bytes-500Bps-1s", 0, 500, time.Second},
	{"conn-both-10ps-500Bps-2s", 10, 500, 2 * time.Second},
	{"conn-limiter-off", 0, -1, time.Second},
}

func (c connCfg) ops() []cop {
	w := int64(c.W)
	var ops []cop
	for _, dt := range []int64{0, w / 2, w - 1, w + 1} {
		ops = append(ops, cop{dt, 1, 3}, cop{dt, 1, 100}, cop{dt, 5, 3}, cop{dt, 11, 3}, cop{dt, 4, 126})
	}
	return ops
}

// frame builds one uncompressed frame of exactly `wire` bytes (3 <= wire <= 129): VarInt length,
// packet id 0x7f (unknown in every handshake registry), zero padding.
func frame(wire int) []byte {
	if wire < 3 || wire > 128 {
		panic("frame size out of the one-byte length prefix range")
	}
	b := make([]byte, wire)
	b[0] = byte(wire - 1)
	b[1] = 0x7f
	return b
}

type countingHandler struct {
	packets int
	bytes   []int
	gone    bool
}

func (h *countingHandler) HandlePacket(pc *proto.PacketContext) {
	h.packets++
	h.bytes = append(h.bytes, pc.BytesRead)
}
func (h *countingHandler) Disconnected() { h.gone = true }
func (h *countingHandler) Activated()    {}
func (h *countingHandler) Deactivated()  {}

type cev struct{ t, n int64 }

func cnaive(list []cev, now, w int64) (closed, open int64) {
	for _, e := range list {
		if e.t >= now-w {
			closed += e.n
		}
		if e.t > now-w {
			open += e.n
		}
	}
	return
}

func cexceeds(amount int64, perSecond int, w int64) bool {
	return perSecond > 0 && amount*1_000_000_000 > int64(perSecond)*w
}

func runConn(t *testing.T, cfg connCfg, h []cop) (out bfs.Outcome) {
	synctest.Test(t, func(t *testing.T) {
		a, b := net.Pipe()
		lim := packetlimiter.New(cfg.PPS, cfg.BPS, cfg.W)
		conn, readLoop := NewMinecraftConn(context.Background(), a, proto.ServerBound, time.Hour, time.Hour, -1, lim)
		hd := &countingHandler{}
		conn.SetActiveSessionHandler(state.Handshake, hd)
		done := make(chan struct{})
		go func() { readLoop(); close(done) }()
		defer func() {
			_ = conn.Close()
			_ = b.Close()
			<-done
		}()
		synctest.Wait()
		w := int64(cfg.W)
		var pk, by []cev
		sent := 0
		for i, o := range h {
			if o.Dt > 0 {
				time.Sleep(time.Duration(o.Dt))
			}
			f := frame(o.Wire)
			for k := 0; k < o.N; k++ {
				now := time.Now().UnixNano()
				before := hd.packets
				werr := make(chan error, 1)
				go func() { _, err := b.Write(f); werr <- err }()
				synctest.Wait()
				select {
				case <-werr:
				default:
					out = bfs.Outcome{FailKey: "conn/frame-not-consumed", FailDesc: fmt.Sprintf("cfg %+v: op %d (%v) frame %d: the connection is open but the read loop did not take the frame", cfg, i, o, k+1)}
					_ = b.Close()
					return
				}
				sent++
				pk = append(pk, cev{now, 1})
				by = append(by, cev{now, int64(o.Wire)})
				pc, po := cnaive(pk, now, w)
				bc, bo := cnaive(by, now, w)
				mustClose := cexceeds(po, cfg.PPS, w) || cexceeds(bo, cfg.BPS, w)
				mayClose := cexceeds(pc, cfg.PPS, w) || cexceeds(bc, cfg.BPS, w)
				closed := Closed(conn)
				where := fmt.Sprintf("cfg %+v: op %d (%v) frame %d (#%d of the connection): trailing window holds %d packets / %d wire bytes", cfg, i, o, k+1, sent, po, bo)
				switch {
				case closed && !mayClose:
					out = bfs.Outcome{FailKey: "conn/closed-within-limit", FailDesc: where + ", within the limits, but the connection was closed"}
					return
				case !closed && mustClose:
					out = bfs.Outcome{FailKey: "conn/over-limit-not-closed", FailDesc: where + ", over the limit, but the connection is still open"}
					return
				case !closed && hd.packets != before+1:
					out = bfs.Outcome{FailKey: "conn/frame-within-limit-not-delivered", FailDesc: fmt.Sprintf("%s, within the limits, but the session handler saw %d new packets", where, hd.packets-before)}
					return
				case !closed && hd.bytes[len(hd.bytes)-1] != o.Wire:
					out = bfs.Outcome{FailKey: "conn/bytes-read-differs-from-wire-size", FailDesc: fmt.Sprintf("%s: a frame of %d wire bytes is reported as %d bytes read", where, o.Wire, hd.bytes[len(hd.bytes)-1])}
					return
				}
				if closed {
					if !hd.gone {
						out = bfs.Outcome{FailKey: "conn/closed-without-teardown", FailDesc: where + ": closed by the limiter but the session handler was not told (Disconnected)"}
						return
					}
					out = bfs.Outcome{Key: "closed", Terminal: true, Obs: "closed"}
					return
				}
			}
		}
		// state: the limiter's window relative to now (events older than W cannot matter again)
		now := time.Now().UnixNano()
		key := ""
		for _, e := range by {
			if e.t >= now-w {
				key += fmt.Sprintf("%d:%d,", e.t-now, e.n)
			}
		}
		out = bfs.Outcome{Key: key, Obs: "open"}
	})
	return
}

func TestVerif(t *testing.T) {
	vrt.Run(t, "C34", func(r *vrt.R) {
		var rp bfs.ReplayData[cop]
		if r.ReplayInto(&rp) {
			r.Eval(1)
			for _, c := range connCfgs {
				if c.Name == rp.Scenario {
					if out := runConn(t, c, rp.History); out.FailKey != "" {
						r.Violation(rp.Scenario+"/"+out.FailKey, out.FailDesc, rp)
					}
				}
			}
			return
		}
		depth := 3
		if r.Thorough() {
			depth = 4
		}
		for _, c := range connCfgs {
			c := c
			res := bfs.Explore(bfs.Config[cop]{Name: c.Name, Ops: c.ops(), Depth: depth,
				Shard: r.Shard, NShards: r.NShards, Deadline: r.DeadlineTime(),
				Run: func(h []cop) bfs.Outcome { return runConn(t, c, h) }})
			res.Merge(r, c.Name)
		}
	})
}
