package proxy

// C34 (pass "proxy") — "The connection and login quotas group addresses ... and allow each group at
// most burst plus rate-times-elapsed events": the two quotas as they are wired into the proxy.
// A real Proxy (New with quota settings in its config) serves fresh in-memory connections from
// scripted remote addresses through HandleConn inside a testing/synctest bubble. A connection
// event is ADMITTED by the connection quota when HandleConn does not close it right away; an
// admitted connection may then send a Handshake with next-state login, which is ADMITTED by the
// login quota when it is not disconnected. Oracle per quota and per address group (IPv4 /24 incl.
// the IPv4-mapped form, IPv6 /64): over every interval the admitted events are at most
// burst + rate*elapsed (exact rationals); the first event of a fresh group is admitted; the two
// quotas have separate budgets. Both quotas switched off: nothing is ever refused.

import (
	"context"
	"errors"
	"fmt"
	"math/big"
	"net"
	"net/netip"
	"sort"
	"strings"
	"testing"
	"testing/synctest"
	"time"

	"github.com/robinbraemer/event"

	"go.minekube.com/gate/pkg/edition/java/auth"
	"go.minekube.com/gate/pkg/edition/java/config"
	liteconfig "go.minekube.com/gate/pkg/edition/java/lite/config"
	"go.minekube.com/gate/pkg/edition/java/proxy/zzverif/bfs"
	"go.minekube.com/gate/pkg/edition/java/proxy/zzverif/e2e"
	"go.minekube.com/gate/pkg/edition/java/proxy/zzverif/vrt"
)

type c34Auth struct{}

func (c34Auth) PublicKey() []byte                            { return []byte{1} }
func (c34Auth) Verify(a, b []byte) (bool, error)             { return false, errors.New("fake") }
func (c34Auth) DecryptSharedSecret(b []byte) ([]byte, error) { return nil, errors.New("fake") }
func (c34Auth) GenerateServerID(b []byte) (string, error)    { return "", errors.New("fake") }
func (c34Auth) SetHasJoinedURLFn(fn auth.HasJoinedURLFn)     {}
func (c34Auth) AuthenticateJoin(context.Context, string, string, string) (auth.Response, error) {
	return nil, errors.New("fake")
}

// pop: advance the clock, then N new connections from address Addr; Login: each admitted
// connection sends Handshake(next = login).
type pop struct {
	Dt    int64 `json:"dt"`
	Addr  int   `json:"addr"`
	N     int   `json:"n"`
	Login bool  `json:"login"`
	// Transfer: the login arrives with the "transfer" intent (next state 3, clients >= 1.20.5;
	// acceptTransfers is on): it is a login like any other for the login quota
	Transfer bool `json:"transfer,omitempty"`
}

// remote addresses as the listener reports them; groups: A = {0,1,2}, B = {3,4}, C = {5}
var c34Remotes = []string{"10.1.2.3:40000", "10.1.2.200:40001", "[::ffff:10.1.2.77]:40002", "[2001:db8:0:7::1]:40003", "[2001:db8:0:7:ffff::2]:40004", "10.1.3.3:40005"}

func (o pop) String() string {
	k := "connect"
	if o.Login {
		k = "connect+login"
	}
	if o.Transfer {
		k = "connect+transfer-login"
	}
	return fmt.Sprintf("+%dns:%dx%s(%s)", o.Dt, o.N, k, c34Remotes[o.Addr])
}

func c34Group(remote string) string {
	ap, err := netip.ParseAddrPort(remote)
	if err != nil {
		return ""
	}
	a := ap.Addr().WithZone("").Unmap()
	if a.Is4() {
		b := a.As4()
		return fmt.Sprintf("v4:%d.%d.%d/24", b[0], b[1], b[2])
	}
	b := a.As16()
	return fmt.Sprintf("v6:%x/64", b[:8])
}

type pcfg struct {
	Name        string
	Conn, Login config.QuotaSettings
	// Lite: the proxy runs in Lite mode (connections only: a Lite login is piped to a backend)
	Lite bool
}

var pcfgs = []pcfg{
	{"proxy-conn-0.5ps-burst2+login-0.5ps-burst1", config.QuotaSettings{Enabled: true, OPS: 0.5, Burst: 2, MaxEntries: 100}, config.QuotaSettings{Enabled: true, OPS: 0.5, Burst: 1, MaxEntries: 100}, false},
	{"proxy-conn-off+login-0.5ps-burst2", config.QuotaSettings{Enabled: false, OPS: 0.5, Burst: 1, MaxEntries: 100}, config.QuotaSettings{Enabled: true, OPS: 0.5, Burst: 2, MaxEntries: 100}, false},
	{"proxy-both-off", config.QuotaSettings{Enabled: false, OPS: 0.5, Burst: 1, MaxEntries: 100}, config.QuotaSettings{Enabled: false, OPS: 0.5, Burst: 1, MaxEntries: 100}, false},
	{"proxy-lite-conn-0.5ps-burst2", config.QuotaSettings{Enabled: true, OPS: 0.5, Burst: 2, MaxEntries: 100}, config.QuotaSettings{Enabled: true, OPS: 0.5, Burst: 1, MaxEntries: 100}, true},
}

func (c pcfg) ops() []pop {
	period := int64(2 * time.Second) // one token at 0.5/s
	var ops []pop
	for _, dt := range []int64{0, period - 1, period + 1, 4 * period} {
		for a := range c34Remotes {
			ops = append(ops, pop{Dt: dt, Addr: a, N: 1, Login: !c.Lite})
		}
		ops = append(ops, pop{Dt: dt, Addr: 0, N: 3})
		if !c.Lite {
			ops = append(ops, pop{Dt: dt, Addr: 0, N: 3, Login: true}, pop{Dt: dt, Addr: 3, N: 3, Login: true},
				pop{Dt: dt, Addr: 1, N: 1, Login: true, Transfer: true}, pop{Dt: dt, Addr: 3, N: 2, Login: true, Transfer: true})
		}
	}
	return ops
}

func c34Handshake(next int32) []byte {
	p := e2e.PutVarInt(nil, 0)
	protocol := int32(764) // 1.20.2
	if next == 3 {
		protocol = 767 // 1.21: knows the transfer intent
	}
	p = e2e.PutVarInt(p, protocol)
	host := "mc.example.com"
	p = e2e.PutVarInt(p, int32(len(host)))
	p = append(p, host...)
	p = append(p, 0x63, 0xDD)
	p = e2e.PutVarInt(p, next)
	return e2e.Frame(p, -1)
}

// boundBroken: the newest admitted event together with any earlier one: count <= burst + rate*dt.
func boundBroken(ts []int64, q config.QuotaSettings) (bool, string) {
	rateR := new(big.Rat).SetFloat64(float64(q.OPS))
	slack := big.NewRat(1, 1_000_000)
	j := len(ts) - 1
	for i := range ts {
		n := big.NewRat(int64(j-i+1), 1)
		bound := new(big.Rat).Add(big.NewRat(int64(q.Burst), 1), new(big.Rat).Mul(rateR, big.NewRat(ts[j]-ts[i], 1_000_000_000)))
		bound.Add(bound, slack)
		if n.Cmp(bound) > 0 {
			f, _ := bound.Float64()
			return true, fmt.Sprintf("%d events admitted within %dns; burst %d + rate %g * elapsed = %.6f", j-i+1, ts[j]-ts[i], q.Burst, q.OPS, f)
		}
	}
	return false, ""
}

func refLevelStr(ts []int64, now int64, q config.QuotaSettings) string {
	rateR := new(big.Rat).SetFloat64(float64(q.OPS))
	level := big.NewRat(int64(q.Burst), 1)
	for i := range ts {
		v := new(big.Rat).Mul(rateR, big.NewRat(now-ts[i], 1_000_000_000))
		v.Add(v, big.NewRat(int64(q.Burst-(len(ts)-i)), 1))
		if v.Cmp(level) < 0 {
			level = v
		}
	}
	return level.RatString()
}

func runProxyQuota(t *testing.T, c pcfg, h []pop) (out bfs.Outcome) {
	synctest.Test(t, func(t *testing.T) {
		cfg := config.DefaultConfig
		cfg.OnlineMode = false
		cfg.Servers = map[string]string{}
		cfg.Try = nil
		cfg.ForcedHosts = map[string][]string{}
		cfg.Quota.Connections = c.Conn
		cfg.Quota.Logins = c.Login
		cfg.AcceptTransfers = true
		if c.Lite {
			cfg.Lite.Enabled = true
			cfg.Lite.Routes = []liteconfig.Route{{Host: []string{"*"}, Backend: []string{"127.0.0.1:1"}}}
		}
		p, err := New(Options{Config: &cfg, EventMgr: event.New(), Authenticator: c34Auth{}})
		if err == nil {
			err = p.init()
		}
		if err != nil {
			out = bfs.Outcome{FailKey: "harness/new-proxy", FailDesc: err.Error()}
			return
		}
		var open []*e2e.Conn
		defer func() {
			for _, cn := range open {
				cn.PeerClose()
			}
			synctest.Wait()
		}()
		admC, admL := map[string][]int64{}, map[string][]int64{}
		seenC, seenL := map[string]bool{}, map[string]bool{}
		for i, o := range h {
			if o.Dt > 0 {
				time.Sleep(time.Duration(o.Dt))
			}
			remote := c34Remotes[o.Addr]
			g := c34Group(remote)
			for k := 0; k < o.N; k++ {
				now := time.Now().UnixNano()
				where := fmt.Sprintf("cfg %s: op %d (%v) event %d", c.Name, i, o, k+1)
				conn := e2e.NewConn("10.0.0.1:25565", remote)
				if _, ok := conn.RemoteAddr().(*net.TCPAddr); !ok {
					out = bfs.Outcome{FailKey: "harness/remote-addr", FailDesc: remote}
					return
				}
				open = append(open, conn)
				go p.HandleConn(conn)
				synctest.Wait()
				refused := conn.ClosedByProxy()
				switch {
				case refused && !c.Conn.Enabled:
					out = bfs.Outcome{FailKey: "connection-quota/refused-although-disabled", FailDesc: where + ": quota.connections is disabled but the connection was closed on accept"}
					return
				case refused && !seenC[g]:
					out = bfs.Outcome{FailKey: "connection-quota/fresh-group-refused", FailDesc: where + ": the first connection ever of group " + g + " was refused"}
					return
				}
				seenC[g] = true
				if refused {
					continue
				}
				if c.Conn.Enabled {
					admC[g] = append(admC[g], now)
					if bad, why := boundBroken(admC[g], c.Conn); bad {
						out = bfs.Outcome{FailKey: "connection-quota/more-than-burst-plus-rate-elapsed", FailDesc: fmt.Sprintf("%s: group %s: %s", where, g, why)}
						return
					}
				}
				if !o.Login {
					continue
				}
				next := int32(2)
				if o.Transfer {
					next = 3
				}
				conn.Inject(c34Handshake(next))
				synctest.Wait()
				kicked := conn.ClosedByProxy()
				switch {
				case kicked && !c.Login.Enabled:
					out = bfs.Outcome{FailKey: "login-quota/refused-although-disabled", FailDesc: where + ": quota.logins is disabled but the login was disconnected"}
					return
				case kicked && !seenL[g]:
					out = bfs.Outcome{FailKey: "login-quota/fresh-group-refused", FailDesc: where + ": the first login ever of group " + g + " was refused (the login quota must have a budget of its own)"}
					return
				}
				seenL[g] = true
				if !kicked && c.Login.Enabled {
					admL[g] = append(admL[g], now)
					if bad, why := boundBroken(admL[g], c.Login); bad {
						out = bfs.Outcome{FailKey: "login-quota/more-than-burst-plus-rate-elapsed", FailDesc: fmt.Sprintf("%s: group %s: %s", where, g, why)}
						return
					}
				}
			}
		}
		// state: reference bucket levels of every group in both quotas (exact rationals)
		now := time.Now().UnixNano()
		var parts []string
		for g, ts := range admC {
			parts = append(parts, "C"+g+"~"+refLevelStr(ts, now, c.Conn))
		}
		for g, ts := range admL {
			parts = append(parts, "L"+g+"~"+refLevelStr(ts, now, c.Login))
		}
		for g := range seenC {
			parts = append(parts, "c"+g)
		}
		for g := range seenL {
			parts = append(parts, "l"+g)
		}
		sort.Strings(parts)
		out = bfs.Outcome{Key: strings.Join(parts, ","), Obs: fmt.Sprintf("conn=%d login=%d", total(admC), total(admL))}
	})
	return
}

func total(m map[string][]int64) int {
	n := 0
	for _, v := range m {
		n += len(v)
	}
	return n
}

func TestVerif(t *testing.T) {
	vrt.Run(t, "C34", func(r *vrt.R) {
		var rp bfs.ReplayData[pop]
		if r.ReplayInto(&rp) {
			r.Eval(1)
			for _, c := range pcfgs {
				if c.Name == rp.Scenario {
					if out := runProxyQuota(t, c, rp.History); out.FailKey != "" {
						r.Violation(rp.Scenario+"/"+out.FailKey, out.FailDesc, rp)
					}
				}
			}
			return
		}
		for i, c := range pcfgs {
			c := c
			depth := 3
			if i > 0 && r.Quick() {
				depth = 2
			}
			if r.Thorough() {
				depth = 4 - min(i, 1)
			}
			res := bfs.Explore(bfs.Config[pop]{Name: c.Name, Ops: c.ops(), Depth: depth,
				Shard: r.Shard, NShards: r.NShards, Deadline: r.DeadlineTime(),
				Run: func(h []pop) bfs.Outcome { return runProxyQuota(t, c, h) }})
			res.Merge(r, c.Name)
		}
	})
}
