package packetlimiter

// C34 (pass "main") — packet limiter == straightforward sliding-window count.
//
// counter is driven in-package with an explicit `now`; Limiter runs inside a testing/synctest
// bubble so that the time.Now() it calls is a fake clock the history advances exactly.
// Reference: a plain list of every (time, amount) ever recorded; the amount "in the trailing
// window" at `now` is the sum over list entries with now-W <= time <= now.

import (
	"fmt"
	"math"
	"strings"
	"testing"
	"testing/synctest"
	"time"

	"go.minekube.com/gate/pkg/edition/java/proxy/zzverif/bfs"
	"go.minekube.com/gate/pkg/edition/java/proxy/zzverif/vrt"
)

// op: advance the clock by Dt nanoseconds, then record N events of Size each (at that instant).
type op struct {
	Dt   int64 `json:"dt"`
	N    int   `json:"n"`
	Size int64 `json:"size"`
}

func (o op) String() string { return fmt.Sprintf("+%dns:%dx%d", o.Dt, o.N, o.Size) }

type ev struct{ t, n int64 }

// naive window sums. closed: now-W <= t; open: now-W < t. The statement does not say whether an
// event exactly one window old still counts; the oracle accepts either (and only that).
func naive(list []ev, now, w int64) (closed, open int64) {
	for _, e := range list {
		if e.t >= now-w {
			closed += e.n
		}
		if e.t > now-w {
			open += e.n
		}
	}
	return
}

// counterKey is the exact implementation state relative to `now` (equal keys => equal futures).
func counterKey(c *counter, now int64) string {
	if c == nil {
		return "nil"
	}
	var sb strings.Builder
	fmt.Fprintf(&sb, "L%d h%d t%d T%d m%d|", len(c.times), c.head, c.tail, c.total, c.minTime-now)
	for i := c.head; i != c.tail; i = (i + 1) % len(c.times) {
		fmt.Fprintf(&sb, "%d:%d,", c.times[i]-now, c.counts[i])
	}
	// residue in dead slots influences later `+=`
	for i := c.tail; i != c.head; i = (i + 1) % len(c.times) {
		if c.counts[i] != 0 {
			fmt.Fprintf(&sb, "dead%d=%d,", i, c.counts[i])
		}
	}
	return sb.String()
}

func dts(w int64) []int64 { return []int64{0, 1, w / 2, w - 1, w, w + 1, 3 * w} }

func counterOps(w int64, big int64) []op {
	var ops []op
	for _, dt := range dts(w) {
		ops = append(ops, op{dt, 1, 1}, op{dt, 1, 0}, op{dt, 1, big})
		for _, n := range []int{7, 8, 9, 17} {
			ops = append(ops, op{dt, n, 1})
		}
	}
	return ops
}

// runCounter replays a history on a fresh real counter and the list model.
//
// The reference lives on an unbounded time line (rel = nanoseconds since the first instant of the
// history); the implementation is handed base+rel in int64 arithmetic, which for the "wrap"
// scenario crosses math.MaxInt64 (the counter documents that it stays correct across clock
// wraparound; all its comparisons must be differences, never absolute).
func runCounter(w, base int64, h []op) bfs.Outcome {
	c := newCounter(time.Duration(w))
	var list []ev
	var rel int64
	now := base
	for i, o := range h {
		rel += o.Dt
		now = base + rel // wraps for bases close to MaxInt64
		for k := 0; k < o.N; k++ {
			c.updateAndAdd(o.Size, now)
			list = append(list, ev{rel, o.Size})
			closed, open := naive(list, rel, w)
			if got := c.sum(); got != closed && got != open {
				return bfs.Outcome{FailKey: "counter.sum/differs-from-naive-window",
					FailDesc: fmt.Sprintf("window %dns, base %d: after op %d (%v) event %d: sum()=%d, naive window count=%d (half-open %d); impl state %s", w, base, i, o, k+1, got, closed, open, counterKey(c, now))}
			}
			wantRate := float64(c.sum()) / (float64(w) / 1e9)
			if r := c.rate(); r < wantRate*(1-1e-12) || r > wantRate*(1+1e-12) {
				return bfs.Outcome{FailKey: "counter.rate/not-sum-per-second",
					FailDesc: fmt.Sprintf("window %dns: rate()=%g, sum/window=%g", w, r, wantRate)}
			}
		}
	}
	closed, _ := naive(list, rel, w)
	return bfs.Outcome{Key: counterKey(c, now), Obs: fmt.Sprintf("sum=%d ring=%d", closed, len(c.times))}
}

// ---- Limiter inside a bubble ----

type limCfg struct {
	Name     string
	PPS, BPS int
	W        time.Duration
}

func (c limCfg) ops() []op {
	w := int64(c.W)
	limB := int64(0)
	if c.BPS > 0 {
		limB = int64(c.BPS) * w / 1e9
	}
	sizes := []int64{0, 1}
	if limB > 0 {
		sizes = append(sizes, limB/2, limB, limB+1)
	}
	var ops []op
	for _, dt := range dts(w) {
		for _, s := range sizes {
			ops = append(ops, op{dt, 1, s})
		}
		for _, n := range []int{7, 8, 9, 17} {
			ops = append(ops, op{dt, n, 1})
		}
	}
	return ops
}

// exceeds reports whether amount > perSecond * window, exactly (integers, window in ns).
func exceeds(amount int64, perSecond int, w int64) bool {
	// amount * 1e9 > perSecond * w ; amounts stay far below 2^63/1e9 in this harness
	return amount*1_000_000_000 > int64(perSecond)*w
}

func runLimiter(t *testing.T, cfg limCfg, h []op) (out bfs.Outcome) {
	synctest.Test(t, func(t *testing.T) {
		l := New(cfg.PPS, cfg.BPS, cfg.W)
		w := int64(cfg.W)
		var pk, by []ev
		for i, o := range h {
			if o.Dt > 0 {
				time.Sleep(time.Duration(o.Dt))
			}
			for k := 0; k < o.N; k++ {
				now := time.Now().UnixNano()
				ok := l.Account(int(o.Size))
				pk = append(pk, ev{now, 1})
				by = append(by, ev{now, o.Size})
				pc, po := naive(pk, now, w)
				bc, bo := naive(by, now, w)
				mustClose := (cfg.PPS > 0 && exceeds(po, cfg.PPS, w)) || (cfg.BPS > 0 && exceeds(bo, cfg.BPS, w))
				mayClose := (cfg.PPS > 0 && exceeds(pc, cfg.PPS, w)) || (cfg.BPS > 0 && exceeds(bc, cfg.BPS, w))
				switch {
				case ok && mustClose:
					out = bfs.Outcome{FailKey: "Limiter.Account/over-limit-not-closed",
						FailDesc: fmt.Sprintf("cfg %+v: op %d (%v) event %d: window holds %d packets / %d bytes (limits %d/s, %d/s over %v) but Account returned true", cfg, i, o, k+1, po, bo, cfg.PPS, cfg.BPS, cfg.W)}
					return
				case !ok && !mayClose:
					out = bfs.Outcome{FailKey: "Limiter.Account/closed-within-limit",
						FailDesc: fmt.Sprintf("cfg %+v: op %d (%v) event %d: window holds %d packets / %d bytes (limits %d/s, %d/s over %v) but Account returned false", cfg, i, o, k+1, pc, bc, cfg.PPS, cfg.BPS, cfg.W)}
					return
				}
				if !ok {
					out = bfs.Outcome{Key: "closed", Terminal: true, Obs: "closed"}
					return
				}
			}
		}
		now := time.Now().UnixNano()
		out = bfs.Outcome{Key: counterKey(l.packets, now) + "#" + counterKey(l.bytes, now), Obs: "open"}
	})
	return
}

var limCfgs = []limCfg{
	{"packets-only-20ps-1s", 20, 0, time.Second},
	{"bytes-only-1000Bps-1s", 0, 1000, time.Second},
	{"both-20ps-1000Bps-1s", 20, 1000, time.Second},
	{"fractional-3ps-7Bps-1500ms", 3, 7, 1500 * time.Millisecond},
	{"default-shape-2ps-off-7s", 2, -1, 7 * time.Second},
}

type counterScen struct {
	Name    string
	W, Base int64
	Quick   int // quick-tier depth
}

var counterScens = []counterScen{
	{"counter-w1000ns-base0", 1000, 0, 4},
	{"counter-w7s-unixnano", int64(7 * time.Second), 1_758_000_000_000_000_000, 3},
	// timestamps cross MaxInt64 -> MinInt64 within the first two or three operations
	{"counter-w1000ns-wraparound", 1000, math.MaxInt64 - 1500, 3},
}

func depthOf(r *vrt.R, quick, thorough int) int {
	if r.Thorough() {
		return thorough
	}
	return quick
}

func TestVerif(t *testing.T) {
	vrt.Run(t, "C34", func(r *vrt.R) {
		var rp bfs.ReplayData[op]
		if r.ReplayInto(&rp) {
			r.Eval(1)
			var out bfs.Outcome
			for _, s := range counterScens {
				if s.Name == rp.Scenario {
					out = runCounter(s.W, s.Base, rp.History)
				}
			}
			for _, c := range limCfgs {
				if "limiter-"+c.Name == rp.Scenario {
					out = runLimiter(t, c, rp.History)
				}
			}
			if out.FailKey != "" {
				r.Violation(rp.Scenario+"/"+out.FailKey, out.FailDesc, rp)
			}
			return
		}

		// 1. counter, explicit now
		for _, s := range counterScens { // quick: the second and third scenario one level shallower
			s := s
			res := bfs.Explore(bfs.Config[op]{Name: s.Name, Ops: counterOps(s.W, 1_000_000), Depth: depthOf(r, s.Quick, 5),
				Shard: r.Shard, NShards: r.NShards, Deadline: r.DeadlineTime(),
				Run: func(h []op) bfs.Outcome { return runCounter(s.W, s.Base, h) }})
			res.Merge(r, s.Name)
		}

		// 2. Limiter under the fake clock
		for _, c := range limCfgs {
			c := c
			res := bfs.Explore(bfs.Config[op]{Name: c.Name, Ops: c.ops(), Depth: depthOf(r, 3, 4),
				Shard: r.Shard, NShards: r.NShards, Deadline: r.DeadlineTime(),
				Run: func(h []op) bfs.Outcome { return runLimiter(t, c, h) }})
			res.Merge(r, "limiter-"+c.Name)
		}

		// 3. New(): nil (disabled) exactly when both limits <= 0 or window <= 0; a nil limiter
		// allows everything; a single disabled dimension is never the reason to close.
		if r.Mine(0) {
			for _, pps := range []int{-1, 0, 1, 5} {
				for _, bps := range []int{-1, 0, 1, 5} {
					for _, w := range []time.Duration{-1, 0, 1, time.Second} {
						r.Eval(1)
						l := New(pps, bps, w)
						wantNil := w <= 0 || (pps <= 0 && bps <= 0)
						if (l == nil) != wantNil {
							r.Violation("New/disabled-mismatch", fmt.Sprintf("New(%d,%d,%v) nil=%v, want nil=%v", pps, bps, w, l == nil, wantNil), nil)
						}
						if l == nil {
							for i := 0; i < 50; i++ {
								if !l.Account(1 << 20) {
									r.Violation("Account/disabled-limiter-closed", fmt.Sprintf("New(%d,%d,%v) is disabled but Account returned false", pps, bps, w), nil)
								}
							}
							r.Class("limiter-disabled")
						} else {
							r.Class("limiter-enabled")
						}
					}
				}
			}
			// 4. exact limit boundary for many (rate, window) shapes through Account, bytes dimension
			// in one call: amount == floor(rate*W) must pass, +1 must close (float rate() vs exact).
			synctest.Test(t, func(t *testing.T) {
				for _, wms := range []int64{1, 3, 7, 10, 100, 250, 300, 333, 500, 700, 999, 1000, 1001, 1500, 3000, 7000, 10000, 30000, 60000} {
					w := wms * int64(time.Millisecond)
					for _, rate := range []int{1, 2, 3, 7, 10, 20, 50, 100, 333, 500, 1000, 4096, 65535, 1_000_000, 10_000_000} {
						lim := int64(rate) * w / 1_000_000_000 // floor(rate*W)
						for _, amount := range []int64{lim, lim + 1} {
							if amount <= 0 {
								continue
							}
							r.Eval(1)
							l := New(0, rate, time.Duration(w))
							got := !l.Account(int(amount))
							if want := exceeds(amount, rate, w); got != want {
								r.Violation("Limiter.Account/limit-boundary", fmt.Sprintf("bytes limit %d/s window %dms, one packet of %d bytes: closed=%v, exact arithmetic says %v", rate, wms, amount, got, want), nil)
							}
							r.Class("limit-boundary")
						}
					}
				}
			})
		}
	})
}
