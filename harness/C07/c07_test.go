package c07

import (
	"bytes"
	"crypto/rsa"
	"fmt"
	"math"
	"reflect"
	"sort"
	"strings"
	"testing"
	"time"

	"github.com/go-logr/logr"
	"go.minekube.com/common/minecraft/color"
	"go.minekube.com/common/minecraft/component"

	"go.minekube.com/gate/pkg/edition/java/profile"
	"go.minekube.com/gate/pkg/edition/java/proto/codec"
	"go.minekube.com/gate/pkg/edition/java/proto/packet"
	"go.minekube.com/gate/pkg/edition/java/proto/packet/chat"
	"go.minekube.com/gate/pkg/edition/java/proto/packet/plugin"
	"go.minekube.com/gate/pkg/edition/java/proto/packet/tablist/playerinfo"
	"go.minekube.com/gate/pkg/edition/java/proto/state"
	"go.minekube.com/gate/pkg/edition/java/proto/state/states"
	"go.minekube.com/gate/pkg/edition/java/proto/version"
	"go.minekube.com/gate/pkg/edition/java/proxy/crypto"
	"go.minekube.com/gate/pkg/edition/java/proxy/crypto/keyrevision"
	rv "go.minekube.com/gate/pkg/edition/java/proxy/zzverif/refvanilla"
	"go.minekube.com/gate/pkg/edition/java/proxy/zzverif/vrt"
	"go.minekube.com/gate/pkg/gate/proto"
	"go.minekube.com/gate/pkg/util/uuid"
)

// ------------------------------------------------------------------------------------------------ plumbing

type replayCase struct {
	Group    string
	Protocol int
}

type H struct {
	r      *vrt.R
	group  string
	protos []int
	seen   map[string]bool
}

const (
	SB = proto.ServerBound
	CB = proto.ClientBound
)

func dirName(d proto.Direction) string {
	if d == SB {
		return "SB"
	}
	return "CB"
}

// exists: is the packet type registered for this state/direction/protocol (i.e. does the packet "exist" there)?
func exists(reg *state.Registry, d proto.Direction, p int, pk proto.Packet) bool {
	pr := state.FromDirection(d, reg, proto.Protocol(p))
	if pr == nil || int(pr.Protocol) != p {
		return false
	}
	_, ok := pr.PacketID(pk)
	return ok
}

// encode sends pk through the proxy's real packet encoder (uncompressed) and splits the produced frame with the
// reference frame reader.
func encode(reg *state.Registry, d proto.Direction, p int, pk proto.Packet) (id int32, body []byte, err error) {
	var buf bytes.Buffer
	enc := codec.NewEncoder(&buf, d, logr.Discard())
	enc.SetProtocol(proto.Protocol(p))
	enc.SetState(reg)
	if _, err = enc.WritePacket(pk); err != nil {
		return 0, nil, fmt.Errorf("proxy encoder: %w", err)
	}
	var rest []byte
	id, body, rest, err = rv.Frame(buf.Bytes())
	if err == nil && len(rest) != 0 {
		err = fmt.Errorf("%d bytes after the frame", len(rest))
	}
	return
}

func hx(b []byte) string {
	if len(b) > 48 {
		return fmt.Sprintf("%x…(%d bytes)", b[:48], len(b))
	}
	return fmt.Sprintf("%x", b)
}

func short(v any) string {
	s := fmt.Sprintf("%+v", v)
	if len(s) > 300 {
		s = s[:300] + "…"
	}
	return s
}

// one enumerated case. pkt: packet name; era: wire-layout era of the version (part of the violation key so that a
// defect in the 1.7 layout and one in the modern layout stay different findings); label: the input.
func (h *H) do(pkt, era string, reg *state.Registry, d proto.Direction, p int, label string, pk proto.Packet,
	check func(body []byte) (field string, detail string)) {
	h.r.Eval(1)
	h.r.Class(pkt + "/" + era)
	id, body, err := encode(reg, d, p, pk)
	rc := replayCase{h.group, p}
	where := fmt.Sprintf("%s %s/%s protocol %d, input %s", pkt, reg.State, dirName(d), p, label)
	if err != nil {
		h.r.Violation(pkt+"/"+era+"/encode-error", where+": "+err.Error(), rc)
		return
	}
	if want, _ := state.FromDirection(d, reg, proto.Protocol(p)).PacketID(pk); int32(want) != id {
		h.r.Violation(pkt+"/"+era+"/frame-packet-id", fmt.Sprintf("%s: frame carries id %#x, registry says %#x", where, id, want), rc)
	}
	k := pkt + "|" + era + "|" + label
	if !h.seen[k] {
		h.seen[k] = true
		if len(body) > 0 {
			h.r.Nontrivial(1)
		}
	}
	if field, detail := check(body); field != "" {
		h.r.Violation(pkt+"/"+era+"/"+field, fmt.Sprintf("%s: %s; body=%s", where, detail, hx(body)), rc)
	}
}

// cmp helpers return ("", "") on equality.
func decErr(err error) (string, string) {
	return "reference-decoder-rejects", "the vanilla reference decoder fails: " + err.Error()
}
func diff(field string, got, want any) (string, string) {
	return "field:" + field, fmt.Sprintf("reference decoder reads %s = %s, the proxy meant %s", field, short(got), short(want))
}
func beq(a, b []byte) bool { return bytes.Equal(a, b) }

// ------------------------------------------------------------------------------------------------ alphabets

func pat(n int, seed byte) []byte {
	b := make([]byte, n)
	for i := range b {
		b[i] = byte(i*7+3) ^ seed
	}
	return b
}

func str(n int) string { // n ASCII bytes
	var sb strings.Builder
	for i := 0; i < n; i++ {
		sb.WriteByte("abcdefghijklmnopqrstuvwxyz0123456789"[i%36])
	}
	return sb.String()
}

var varInts = []int{0, 1, 2, 127, 128, 255, 256, 16383, 16384, 2097151, 2097152, 268435455, 268435456, math.MaxInt32, -1, -128, math.MinInt32}
var int64s = []int64{0, 1, -1, 127, 128, 0x0102030405060708, 1 << 31, 1<<31 - 1, -(1 << 31), 1 << 32, math.MaxInt64, math.MinInt64, 1700000000123}
var int32s = []int64{0, 1, -1, 127, 128, 255, 16383, 16384, 0x01020304, math.MaxInt32, math.MinInt32}

func U(hi, lo uint64) uuid.UUID {
	var u uuid.UUID
	for i := 0; i < 8; i++ {
		u[i] = byte(hi >> (56 - 8*uint(i)))
		u[8+i] = byte(lo >> (56 - 8*uint(i)))
	}
	return u
}

var uuids = []uuid.UUID{
	U(0x0123456789abcdef, 0xfedcba9876543210),
	uuid.Nil,
	U(math.MaxUint64, math.MaxUint64),
	U(0x8000000000000000, 0x8000000000000001), // sign bits of both halves
	U(0x069a79f444e94726, 0xa5befca90e38aaf5), // a real-looking v4 id (leading zero nibble)
	U(1, 0),
}

func ru(u uuid.UUID) rv.UUID { return rv.UUID(u) }

var propSets = [][]profile.Property{
	nil,
	{{Name: "textures", Value: "dmFsdWU=", Signature: "c2ln"}},
	{{Name: "textures", Value: str(300), Signature: ""}, {Name: "ünï", Value: "", Signature: str(130)}},
}

func wantProps(ps []profile.Property) []rv.Property {
	var out []rv.Property
	for _, p := range ps {
		out = append(out, rv.Property{Name: p.Name, Value: p.Value, Signed: p.Signature != "", Signature: p.Signature})
	}
	return out
}

// fakeKey implements crypto.IdentifiedKey with arbitrary content: the encoders only use the accessor methods.
type fakeKey struct {
	expiry int64
	pub    []byte
	sig    []byte
	holder uuid.UUID
}

func (k *fakeKey) Signer() *rsa.PublicKey                    { return nil }
func (k *fakeKey) ExpiryTemporal() time.Time                 { return time.UnixMilli(k.expiry) }
func (k *fakeKey) Expired() bool                             { return false }
func (k *fakeKey) Signature() []byte                         { return k.sig }
func (k *fakeKey) SignatureValid() bool                      { return true }
func (k *fakeKey) Salt() []byte                              { return nil }
func (k *fakeKey) SignedPublicKey() *rsa.PublicKey           { return nil }
func (k *fakeKey) SignedPublicKeyBytes() []byte              { return k.pub }
func (k *fakeKey) VerifyDataSignature([]byte, ...[]byte) bool { return true }
func (k *fakeKey) SignatureHolder() uuid.UUID                { return k.holder }
func (k *fakeKey) KeyRevision() keyrevision.Revision         { return keyrevision.LinkedV2 }
func (k *fakeKey) String() string {
	return fmt.Sprintf("key{exp=%d pub=%d sig=%d holder=%s}", k.expiry, len(k.pub), len(k.sig), k.holder)
}

var _ crypto.IdentifiedKey = (*fakeKey)(nil)

func keys() []*fakeKey {
	return []*fakeKey{
		nil,
		{expiry: 1700000000123, pub: pat(294, 0), sig: pat(512, 1)},
		{expiry: 0, pub: pat(162, 2), sig: pat(256, 3), holder: uuids[4]},
		{expiry: -1, pub: pat(1, 4), sig: nil},
		{expiry: 1, pub: pat(512, 5), sig: pat(4096, 6), holder: uuids[2]},
		{expiry: 1700000000123, pub: pat(127, 7), sig: pat(128, 8)},
	}
}

func wantSig(k *fakeKey) *rv.SigData {
	if k == nil {
		return nil
	}
	return &rv.SigData{Expiry: k.expiry, PublicKey: append([]byte{}, k.pub...), Signature: append([]byte{}, k.sig...)}
}

func sigEq(a, b *rv.SigData) bool {
	if a == nil || b == nil {
		return a == b
	}
	return a.Expiry == b.Expiry && beq(a.PublicKey, b.PublicKey) && beq(a.Signature, b.Signature)
}

// ------------------------------------------------------------------------------------------------ groups

func gHandshake(h *H) {
	addrs := []string{"", "localhost", "play.example.com\x00FML\x00", "müñchen.example", str(127), str(128), str(255), "a"}
	ports := []int{0, 1, 80, 25565, 32767, 32768, 65535}
	nexts := []int{1, 2, 3}
	type hs struct{ pv, ai, pi, ni int }
	var cases []hs
	if h.r.Thorough() {
		for a := range varInts {
			for b := range addrs {
				for c := range ports {
					for d := range nexts {
						cases = append(cases, hs{a, b, c, d})
					}
				}
			}
		}
	} else {
		for a := range varInts {
			cases = append(cases, hs{a, 1, 3, 1})
		}
		for b := range addrs {
			for c := range ports {
				cases = append(cases, hs{0, b, c, 0}, hs{12, b, c, 2})
			}
		}
		for d := range nexts {
			cases = append(cases, hs{5, 1, 3, d})
		}
	}
	for _, p := range h.protos {
		for _, c := range cases {
			pk := &packet.Handshake{ProtocolVersion: varInts[c.pv], ServerAddress: addrs[c.ai], Port: ports[c.pi], NextStatus: nexts[c.ni]}
			// the protocol number a proxy sends to a backend is the player's; also enumerate it as a free field
			label := fmt.Sprintf("{pv=%d addr=%d bytes port=%d next=%d}", pk.ProtocolVersion, len(pk.ServerAddress), pk.Port, pk.NextStatus)
			h.do("Handshake", "all", state.Handshake, SB, p, label, pk, func(body []byte) (string, string) {
				got, err := rv.DecodeHandshake(body)
				switch {
				case err != nil:
					return decErr(err)
				case int(got.Protocol) != pk.ProtocolVersion:
					return diff("ProtocolVersion", got.Protocol, pk.ProtocolVersion)
				case got.Address != pk.ServerAddress:
					return diff("ServerAddress", got.Address, pk.ServerAddress)
				case int(got.Port) != pk.Port:
					return diff("Port", got.Port, pk.Port)
				case int(got.Next) != pk.NextStatus:
					return diff("NextStatus", got.Next, pk.NextStatus)
				}
				return "", ""
			})
		}
	}
}

func loginStartEra(p int) string {
	switch {
	case p >= rv.V1_20_2:
		return "1.20.2+(uuid)"
	case p >= rv.V1_19_3:
		return "1.19.3-1.20.1(optional-uuid)"
	case p >= rv.V1_19_1:
		return "1.19.1(key+optional-uuid)"
	case p >= rv.V1_19:
		return "1.19(key)"
	}
	return "pre-1.19(name)"
}

func gLoginStart(h *H) {
	names := []string{"Notch", "a", "abcdefghijklmnop", "Ünï_çødé"}
	holders := []uuid.UUID{uuid.Nil, uuids[0], uuids[2], uuids[3]}
	for _, p := range h.protos {
		for ni, name := range names {
			for ki, k := range keys() {
				for hi, holder := range holders {
					if !h.r.Thorough() && ni > 0 && ki > 1 && hi > 1 {
						continue // quick: every pair of non-default fields, not every triple
					}
					pk := &packet.ServerLogin{Username: name, HolderID: holder}
					if k != nil {
						pk.PlayerKey = k
					}
					label := fmt.Sprintf("{name=%q key=%v holder=%s}", name, k, holder)
					k := k
					h.do("LoginStart", loginStartEra(p), state.Login, SB, p, label, pk, func(body []byte) (string, string) {
						got, err := rv.DecodeLoginStart(p, body)
						if err != nil {
							return decErr(err)
						}
						if got.Name != name {
							return diff("Username", got.Name, name)
						}
						var wantSigData *rv.SigData
						if p >= rv.V1_19 && p < rv.V1_19_3 {
							wantSigData = wantSig(k)
						}
						if !sigEq(got.Sig, wantSigData) {
							return diff("PlayerKey", got.Sig, wantSigData)
						}
						// holder: the key's signature holder wins over HolderID (1.19.1–1.20.1); HolderID alone from 1.20.2
						wantHas, wantID := false, uuid.Nil
						switch {
						case p >= rv.V1_20_2:
							wantHas, wantID = true, holder
						case p >= rv.V1_19_1:
							if k != nil && k.holder != uuid.Nil {
								wantHas, wantID = true, k.holder
							} else if holder != uuid.Nil {
								wantHas, wantID = true, holder
							}
						}
						if got.HasUUID != wantHas || got.UUID != ru(wantID) {
							return diff("HolderID", fmt.Sprintf("present=%v %s", got.HasUUID, got.UUID), fmt.Sprintf("present=%v %s", wantHas, wantID))
						}
						return "", ""
					})
				}
			}
		}
	}
}

func loginSuccessEra(p int) string {
	switch {
	case p >= rv.V26_2:
		return "26.2+(session-id)"
	case p >= rv.V1_21_2:
		return "1.21.2+(uuid,props)"
	case p >= rv.V1_20_5:
		return "1.20.5-1.21.1(strict-flag)"
	case p >= rv.V1_19:
		return "1.19+(uuid,props)"
	case p >= rv.V1_16:
		return "1.16-1.18.2(uuid-ints)"
	case p >= rv.V1_7_6:
		return "1.7.6-1.15.2(dashed-text)"
	}
	return "1.7.2(undashed-text)"
}

func gLoginSuccess(h *H) {
	names := []string{"Notch", "a", "abcdefghijklmnop", "Ünï_çødé"}
	sessions := []uuid.UUID{uuid.Nil, uuids[0], uuids[3]}
	for _, p := range h.protos {
		for ui, u := range uuids {
			for ni, name := range names {
				for pi, props := range propSets {
					for si, sess := range sessions {
						nd := 0
						for _, x := range []int{ui, ni, pi, si} {
							if x > 0 {
								nd++
							}
						}
						if !h.r.Thorough() && nd > 2 {
							continue
						}
						pk := &packet.ServerLoginSuccess{UUID: u, Username: name, Properties: props, SessionID: sess}
						label := fmt.Sprintf("{uuid=%s name=%q props=%d session=%s}", u, name, len(props), sess)
						h.do("LoginSuccess", loginSuccessEra(p), state.Login, CB, p, label, pk, func(body []byte) (string, string) {
							got, err := rv.DecodeLoginSuccess(p, body)
							if err != nil {
								return decErr(err)
							}
							if got.UUID != ru(u) {
								return diff("UUID", got.UUID, u)
							}
							if got.Name != name {
								return diff("Username", got.Name, name)
							}
							if p >= rv.V1_19 && !reflect.DeepEqual(got.Properties, wantProps(props)) {
								return diff("Properties", got.Properties, wantProps(props))
							}
							if got.HasStrict {
								h.r.Class(fmt.Sprintf("LoginSuccess/strict-error-handling-flag=%v", got.Strict))
							}
							if got.HasSession && got.Session != ru(sess) {
								return diff("SessionID", got.Session, sess)
							}
							return "", ""
						})
					}
				}
			}
		}
	}
}

func arrEra(p int) string {
	if p < rv.V1_8 {
		return "1.7(short-length)"
	}
	return "1.8+(varint-length)"
}

func gEncryptionRequest(h *H) {
	ids := []string{"", "abc", str(20)}
	keyLens := []int{162, 0, 1, 127, 128, 255, 256, 294, 550, 32767}
	tokLens := []int{4, 0, 16, 127, 128, 256}
	for _, p := range h.protos {
		era := arrEra(p)
		if p >= rv.V1_20_5 {
			era = "1.20.5+(should-authenticate)"
		}
		for ii, sid := range ids {
			for ki, kl := range keyLens {
				for ti, tl := range tokLens {
					for _, dis := range []bool{false, true} {
						nd := 0
						for _, x := range []int{ii, ki, ti} {
							if x > 0 {
								nd++
							}
						}
						if nd > 1 && !(h.r.Thorough() && nd == 2) {
							continue
						}
						pk := &packet.EncryptionRequest{ServerID: sid, PublicKey: pat(kl, 9), VerifyToken: pat(tl, 10), DisableAuthenticate: dis}
						label := fmt.Sprintf("{serverID=%q key=%d token=%d disableAuth=%v}", sid, kl, tl, dis)
						h.do("EncryptionRequest", era, state.Login, CB, p, label, pk, func(body []byte) (string, string) {
							got, err := rv.DecodeEncryptionRequest(p, body)
							switch {
							case err != nil:
								return decErr(err)
							case got.ServerID != sid:
								return diff("ServerID", got.ServerID, sid)
							case !beq(got.PublicKey, pk.PublicKey):
								return diff("PublicKey", hx(got.PublicKey), hx(pk.PublicKey))
							case !beq(got.VerifyToken, pk.VerifyToken):
								return diff("VerifyToken", hx(got.VerifyToken), hx(pk.VerifyToken))
							case got.HasAuthFlag && got.ShouldAuthenticate == dis:
								return diff("ShouldAuthenticate", got.ShouldAuthenticate, !dis)
							}
							return "", ""
						})
					}
				}
			}
		}
	}
}

func gEncryptionResponse(h *H) {
	secLens := []int{128, 0, 1, 127, 255, 256, 32767}
	tokLens := []int{128, 0, 4, 127, 256, 300, 32767}
	salts := []*int64{nil, &int64s[0], &int64s[5], &int64s[2], &int64s[11]}
	for _, p := range h.protos {
		era := arrEra(p)
		if p >= rv.V1_19 && p < rv.V1_19_3 {
			era = "1.19-1.19.2(token-or-salt+signature)"
		}
		for si, sl := range secLens {
			for ti, tl := range tokLens {
				for _, salt := range salts {
					if si > 0 && ti > 0 && !h.r.Thorough() {
						continue
					}
					pk := &packet.EncryptionResponse{SharedSecret: pat(sl, 11), VerifyToken: pat(tl, 12), Salt: salt}
					sv := "nil"
					if salt != nil {
						sv = fmt.Sprint(*salt)
					}
					label := fmt.Sprintf("{secret=%d token=%d salt=%s}", sl, tl, sv)
					h.do("EncryptionResponse", era, state.Login, SB, p, label, pk, func(body []byte) (string, string) {
						got, err := rv.DecodeEncryptionResponse(p, body)
						if err != nil {
							return decErr(err)
						}
						if !beq(got.SharedSecret, pk.SharedSecret) {
							return diff("SharedSecret", hx(got.SharedSecret), hx(pk.SharedSecret))
						}
						salted := salt != nil && p >= rv.V1_19 && p < rv.V1_19_3
						if got.HasVerifyToken == salted {
							return diff("has-verify-token", got.HasVerifyToken, !salted)
						}
						if salted {
							// with a salt the VerifyToken field carries the message signature
							if got.Salt != *salt {
								return diff("Salt", got.Salt, *salt)
							}
							if !beq(got.Signature, pk.VerifyToken) {
								return diff("Signature", hx(got.Signature), hx(pk.VerifyToken))
							}
						} else if !beq(got.VerifyToken, pk.VerifyToken) {
							return diff("VerifyToken", hx(got.VerifyToken), hx(pk.VerifyToken))
						}
						return "", ""
					})
				}
			}
		}
	}
}

func gSetCompression(h *H) {
	for _, p := range h.protos {
		if !exists(state.Login, CB, p, &packet.SetCompression{}) {
			continue
		}
		for _, v := range varInts {
			pk := &packet.SetCompression{Threshold: v}
			h.do("SetCompression", "1.8+", state.Login, CB, p, fmt.Sprint(v), pk, func(body []byte) (string, string) {
				got, err := rv.DecodeSetCompression(body)
				if err != nil {
					return decErr(err)
				}
				if int(got) != v {
					return diff("Threshold", got, v)
				}
				return "", ""
			})
		}
	}
}

func gPlugin(h *H) {
	// channel as given -> channel a vanilla peer must see. Modern identifiers pass unchanged in every version; legacy
	// names pass unchanged before 1.13 and are rewritten to their well-known modern names from 1.13 on.
	type ch struct{ in, modern string }
	chans := []ch{
		{"minecraft:brand", "minecraft:brand"}, {"bungeecord:main", "bungeecord:main"}, {"velocity:player_info", "velocity:player_info"},
		{"ns:" + str(120), "ns:" + str(120)}, {"ns:" + str(130), "ns:" + str(130)},
		{"MC|Brand", "minecraft:brand"}, {"BungeeCord", "bungeecord:main"}, {"REGISTER", "minecraft:register"}, {"UNREGISTER", "minecraft:unregister"},
	}
	lens := []int{0, 1, 2, 127, 128, 255, 256, 257, 300, 16383, 16384, 32766, 32767}
	big := []int{32768, 65535, 65536, 100000, 1048576}
	type sd struct {
		reg *state.Registry
		d   proto.Direction
	}
	for _, s := range []sd{{state.Play, SB}, {state.Play, CB}, {state.Config, SB}, {state.Config, CB}} {
		for _, p := range h.protos {
			if !exists(s.reg, s.d, p, &plugin.Message{}) {
				continue
			}
			all := append([]int{}, lens...)
			if s.d == CB || p < rv.V1_8 { // serverbound payloads above 32767 are outside what a vanilla server accepts (modern)
				all = append(all, big...)
			}
			for ci, c := range chans {
				for li, n := range all {
					if ci > 0 && li > 6 && !h.r.Thorough() {
						continue
					}
					data := pat(n, byte(ci))
					pk := &plugin.Message{Channel: c.in, Data: data}
					wantCh := c.in
					if p >= rv.V1_13 {
						wantCh = c.modern
					}
					era, forge := "1.8+(rest-of-packet)", false
					if p < rv.V1_8 {
						era = "1.7(short-length)"
						if n > 32767 {
							era, forge = "1.7(forge-extended-length)", true
						}
					}
					label := fmt.Sprintf("{channel=%q data=%d bytes}", c.in, n)
					h.do("PluginMessage", era, s.reg, s.d, p, label, pk, func(body []byte) (string, string) {
						got, err := rv.DecodePluginMessage(p, forge, body)
						switch {
						case err != nil:
							return decErr(err)
						case got.Channel != wantCh:
							return diff("Channel", got.Channel, wantCh)
						case !beq(got.Data, data):
							return diff("Data", hx(got.Data), hx(data))
						}
						return "", ""
					})
				}
			}
		}
	}
}

func gLoginPlugin(h *H) {
	chans := []string{"velocity:player_info", "a:b", "ns:" + str(130)}
	lens := []int{0, 1, 127, 128, 1000, 65536}
	for _, p := range h.protos {
		if !exists(state.Login, CB, p, &packet.LoginPluginMessage{}) {
			continue
		}
		for _, id := range varInts {
			for ci, c := range chans {
				for li, n := range lens {
					if (ci > 0 || li > 0) && id != 1 {
						continue
					}
					data := pat(n, 20)
					pk := &packet.LoginPluginMessage{ID: id, Channel: c, Data: data}
					h.do("LoginPluginMessage", "1.13+", state.Login, CB, p, fmt.Sprintf("{id=%d channel=%q data=%d}", id, c, n), pk, func(body []byte) (string, string) {
						got, err := rv.DecodeLoginPluginRequest(body)
						switch {
						case err != nil:
							return decErr(err)
						case int(got.ID) != id:
							return diff("ID", got.ID, id)
						case got.Channel != c:
							return diff("Channel", got.Channel, c)
						case !beq(got.Data, data):
							return diff("Data", hx(got.Data), hx(data))
						}
						return "", ""
					})
				}
			}
			for _, sc := range []struct {
				ok bool
				n  int
			}{{false, 0}, {true, 0}, {true, 1}, {true, 128}, {true, 1000}} {
				if sc.n > 0 && id != 1 {
					continue
				}
				data := pat(sc.n, 21)
				pk := &packet.LoginPluginResponse{ID: id, Success: sc.ok, Data: data}
				h.do("LoginPluginResponse", "1.13+", state.Login, SB, p, fmt.Sprintf("{id=%d success=%v data=%d}", id, sc.ok, sc.n), pk, func(body []byte) (string, string) {
					got, err := rv.DecodeLoginPluginResponse(body)
					switch {
					case err != nil:
						return decErr(err)
					case int(got.ID) != id:
						return diff("ID", got.ID, id)
					case got.Success != sc.ok:
						return diff("Success", got.Success, sc.ok)
					case !beq(got.Data, data):
						return diff("Data", hx(got.Data), hx(data))
					}
					return "", ""
				})
			}
		}
	}
}

// components with their loose text. class names the kind of content; it is part of the violation key because the
// component codec fails differently per kind of content (what fails = "NBT disconnect with a backslash in the text").
type comp struct {
	class string
	c     component.Component
	plain string
}

func comps() []comp {
	txt := func(class, s string) comp { return comp{class, &component.Text{Content: s}, s} }
	return []comp{
		txt("plain", "Kicked by an operator"),
		txt("empty", ""),
		txt("quotes", `say "hi" and 'bye'`),
		txt("backslash", `C:\temp\new folder\`),
		txt("newline-tab", "line1\nline2\tend"),
		txt("bmp-unicode", "Ünï€ ß 日本"),
		txt("non-bmp-unicode", "smile 😀!"),
		txt("long", str(300)),
		{"styled", &component.Text{Content: "red", S: component.Style{Color: color.Red, Bold: component.True}}, "red"},
		{"nested-extra", &component.Text{Content: "a", Extra: []component.Component{
			&component.Text{Content: "b", S: component.Style{Color: color.Blue}},
			&component.Text{Content: "c", Extra: []component.Component{&component.Text{Content: "d"}}},
		}}, "abcd"},
	}
}

func gDisconnect(h *H) {
	type sd struct {
		reg   *state.Registry
		st    states.State
		login bool
	}
	for _, s := range []sd{{state.Login, states.LoginState, true}, {state.Config, states.ConfigState, false}, {state.Play, states.PlayState, false}} {
		for _, p := range h.protos {
			if !exists(s.reg, CB, p, &packet.Disconnect{}) {
				continue
			}
			for i, c := range comps() {
				pk := packet.NewDisconnect(c.c, proto.Protocol(p), s.st)
				era := "json-string"
				if !s.login && p >= rv.V1_20_3 {
					era = "1.20.3+(nbt)"
				}
				if s.login {
					era = "login(json-string)"
				}
				_ = i
				h.do("Disconnect", era+"/text:"+c.class, s.reg, CB, p, fmt.Sprintf("reason %q", c.plain), pk, func(body []byte) (string, string) {
					got, err := rv.DecodeDisconnect(p, s.login, body)
					if err != nil {
						return decErr(err)
					}
					if got.Text.Plain != c.plain {
						return diff("Reason.text", got.Text.Plain, c.plain)
					}
					return "", ""
				})
			}
		}
	}
}

func gKeepAlive(h *H) {
	type sd struct {
		reg *state.Registry
		d   proto.Direction
	}
	for _, s := range []sd{{state.Play, SB}, {state.Play, CB}, {state.Config, SB}, {state.Config, CB}} {
		for _, p := range h.protos {
			if !exists(s.reg, s.d, p, &packet.KeepAlive{}) {
				continue
			}
			era, vals := "1.12.2+(long)", int64s
			switch {
			case p < rv.V1_8:
				era, vals = "1.7(int)", int32s
			case p < rv.V1_12_2:
				era, vals = "1.8-1.12.1(varint)", int32s
			}
			for _, v := range vals {
				pk := &packet.KeepAlive{RandomID: v}
				h.do("KeepAlive", era, s.reg, s.d, p, fmt.Sprint(v), pk, func(body []byte) (string, string) {
					got, err := rv.DecodeKeepAlive(p, body)
					if err != nil {
						return decErr(err)
					}
					if got != v {
						return diff("RandomID", got, v)
					}
					return "", ""
				})
			}
		}
	}
}

func gStatus(h *H) {
	jsons := []string{`{}`, `{"version":{"name":"1.21","protocol":767},"players":{"max":20,"online":1},"description":{"text":"Ünï€😀"}}`,
		`{"d":"` + str(119) + `"}`, `{"d":"` + str(120) + `"}`, `{"d":"` + str(16375) + `"}`, `{"d":"` + str(16376) + `"}`, `{"d":"` + str(32759) + `"}`}
	for _, p := range h.protos {
		h.do("StatusRequest", "all", state.Status, SB, p, "{}", &packet.StatusRequest{}, func(body []byte) (string, string) {
			if err := rv.DecodeStatusRequest(body); err != nil {
				return decErr(err)
			}
			return "", ""
		})
		for _, js := range jsons {
			pk := &packet.StatusResponse{Status: js}
			h.do("StatusResponse", "all", state.Status, CB, p, fmt.Sprintf("json of %d bytes", len(js)), pk, func(body []byte) (string, string) {
				got, err := rv.DecodeStatusResponse(body)
				if err != nil {
					return decErr(err)
				}
				if got != js {
					return diff("Status", got, js)
				}
				return "", ""
			})
		}
		for _, d := range []proto.Direction{SB, CB} {
			for _, v := range int64s {
				pk := &packet.StatusPing{RandomID: v}
				h.do("StatusPing", "all", state.Status, d, p, fmt.Sprint(v), pk, func(body []byte) (string, string) {
					got, err := rv.DecodeStatusPing(body)
					if err != nil {
						return decErr(err)
					}
					if got != v {
						return diff("RandomID", got, v)
					}
					return "", ""
				})
			}
		}
	}
}

func gTransfer(h *H) {
	hosts := []string{"example.com", "", "müñchen.example", str(127), str(128), str(255)}
	ports := []int{25565, 0, 1, 127, 128, 16383, 16384, 65535}
	for _, reg := range []*state.Registry{state.Config, state.Play} {
		for _, p := range h.protos {
			if !exists(reg, CB, p, &packet.Transfer{}) {
				continue
			}
			for _, host := range hosts {
				for _, port := range ports {
					pk := &packet.Transfer{Host: host, Port: port}
					h.do("Transfer", "1.20.5+", reg, CB, p, fmt.Sprintf("{host=%d bytes port=%d}", len(host), port), pk, func(body []byte) (string, string) {
						got, err := rv.DecodeTransfer(body)
						switch {
						case err != nil:
							return decErr(err)
						case got.Host != host:
							return diff("Host", got.Host, host)
						case int(got.Port) != port:
							return diff("Port", got.Port, port)
						}
						return "", ""
					})
				}
			}
		}
	}
}

func gRemove(h *H) {
	var lists [][]uuid.UUID
	lists = append(lists, nil)
	for _, a := range uuids {
		lists = append(lists, []uuid.UUID{a})
		for _, b := range uuids {
			lists = append(lists, []uuid.UUID{a, b})
		}
	}
	lists = append(lists, append([]uuid.UUID{}, uuids...))
	many := make([]uuid.UUID, 130) // count crosses the 1-byte VarInt boundary
	for i := range many {
		many[i] = U(uint64(i), uint64(i)*3)
	}
	lists = append(lists, many)
	for _, p := range h.protos {
		if !exists(state.Play, CB, p, &playerinfo.Remove{}) {
			continue
		}
		for _, l := range lists {
			pk := &playerinfo.Remove{PlayersToRemove: l}
			h.do("PlayerInfoRemove", "1.19.3+", state.Play, CB, p, fmt.Sprintf("%d ids %v", len(l), first(l, 3)), pk, func(body []byte) (string, string) {
				got, err := rv.DecodePlayerInfoRemove(p, body)
				if err != nil {
					return decErr(err)
				}
				if len(got) != len(l) {
					return diff("count", len(got), len(l))
				}
				for i := range l {
					if got[i] != ru(l[i]) {
						return diff(fmt.Sprintf("id[%d]", i), got[i], l[i])
					}
				}
				return "", ""
			})
		}
	}
}

func first(l []uuid.UUID, n int) []uuid.UUID {
	if len(l) > n {
		return l[:n]
	}
	return l
}

// ------------------------------------------------------------------------------------------------ upsert

var actionByOrdinal = []playerinfo.UpsertAction{
	playerinfo.AddPlayerAction, playerinfo.InitializeChatAction, playerinfo.UpdateGameModeAction, playerinfo.UpdateListedAction,
	playerinfo.UpdateLatencyAction, playerinfo.UpdateDisplayNameAction, playerinfo.UpdateListOrderAction, playerinfo.UpdateHatAction,
}

type entryVal struct {
	e     *playerinfo.Entry
	key   *fakeKey
	plain string
}

func mkEntries(p int) []entryVal {
	k := &fakeKey{expiry: 1700000000123, pub: pat(294, 30), sig: pat(512, 31)}
	dn := &component.Text{Content: "Dáve", S: component.Style{Color: color.Gold}}
	a := &playerinfo.Entry{
		ProfileID: uuids[0], Profile: profile.GameProfile{ID: uuids[0], Name: "Alice", Properties: propSets[1]},
		Listed: true, Latency: 77, GameMode: 1, DisplayName: chat.FromComponentProtocol(dn, proto.Protocol(p)),
		ShowHat: true, ListOrder: 5, RemoteChatSession: &chat.RemoteChatSession{ID: uuids[4], Key: k},
	}
	b := &playerinfo.Entry{
		ProfileID: uuids[3], Profile: profile.GameProfile{ID: uuids[3], Name: "Bob_16chars_long", Properties: nil},
		Listed: false, Latency: 300, GameMode: 3, DisplayName: nil, ShowHat: false, ListOrder: -1, RemoteChatSession: nil,
	}
	return []entryVal{{a, k, "Dáve"}, {b, nil, ""}}
}

// what a vanilla peer must read for entry ev under the action SET mask
func wantEntry(ev entryVal, mask uint8) rv.InfoEntry {
	e := ev.e
	w := rv.InfoEntry{UUID: ru(e.ProfileID)}
	has := func(a int) bool { return mask&(1<<uint(a)) != 0 }
	if has(rv.ActAddPlayer) {
		w.Name = e.Profile.Name
		w.Properties = wantProps(e.Profile.Properties)
	}
	if has(rv.ActInitializeChat) && e.RemoteChatSession != nil {
		w.HasChatSession = true
		w.ChatSession = rv.ChatSession{ID: ru(e.RemoteChatSession.ID), Sig: *wantSig(ev.key)}
	}
	if has(rv.ActUpdateGameMode) {
		w.GameMode = int32(e.GameMode)
	}
	if has(rv.ActUpdateListed) {
		w.Listed = e.Listed
	}
	if has(rv.ActUpdateLatency) {
		w.Latency = int32(e.Latency)
	}
	if has(rv.ActUpdateDisplayName) && e.DisplayName != nil {
		w.HasDisplayName = true
		w.DisplayName = rv.Text{Plain: ev.plain}
	}
	if has(rv.ActUpdateListOrder) {
		w.ListOrder = int32(e.ListOrder)
	}
	if has(rv.ActUpdateHat) {
		w.ShowHat = e.ShowHat
	}
	return w
}

func entryDiff(got, want rv.InfoEntry) string {
	got.DisplayName.Styles, want.DisplayName.Styles = nil, nil // loose: text content only
	if reflect.DeepEqual(got, want) {
		return ""
	}
	gv, wv := reflect.ValueOf(got), reflect.ValueOf(want)
	var out []string
	for i := 0; i < gv.NumField(); i++ {
		if !reflect.DeepEqual(gv.Field(i).Interface(), wv.Field(i).Interface()) {
			out = append(out, fmt.Sprintf("%s: read %s, meant %s", gv.Type().Field(i).Name, short(gv.Field(i).Interface()), short(wv.Field(i).Interface())))
		}
	}
	return strings.Join(out, "; ")
}

// all ordered selections (no repetition) of k elements out of n
func arrangements(n, k int) [][]int {
	var out [][]int
	var rec func(cur []int, used uint)
	rec = func(cur []int, used uint) {
		if len(cur) == k {
			out = append(out, append([]int{}, cur...))
			return
		}
		for i := 0; i < n; i++ {
			if used&(1<<uint(i)) == 0 {
				rec(append(cur, i), used|1<<uint(i))
			}
		}
	}
	rec(nil, 0)
	return out
}

func actionLists(n int, maxPerm int) (lists [][]int) {
	// every subset of the n actions in canonical order and in reverse order
	for m := 0; m < 1<<uint(n); m++ {
		var asc []int
		for a := 0; a < n; a++ {
			if m&(1<<uint(a)) != 0 {
				asc = append(asc, a)
			}
		}
		lists = append(lists, asc)
		if len(asc) > 1 {
			desc := make([]int, len(asc))
			for i, a := range asc {
				desc[len(asc)-1-i] = a
			}
			lists = append(lists, desc)
		}
	}
	// every permutation of every selection of up to maxPerm supplied actions
	for k := 2; k <= maxPerm; k++ {
		lists = append(lists, arrangements(n, k)...)
	}
	// duplicates: every list of 1..2 distinct actions with one of them supplied twice, in every position
	for k := 1; k <= 2; k++ {
		for _, base := range arrangements(n, k) {
			for _, dup := range base {
				for pos := 0; pos <= len(base); pos++ {
					l := append(append(append([]int{}, base[:pos]...), dup), base[pos:]...)
					lists = append(lists, l)
				}
			}
		}
	}
	// de-duplicate
	seen := map[string]bool{}
	var out [][]int
	for _, l := range lists {
		k := fmt.Sprint(l)
		if !seen[k] {
			seen[k] = true
			out = append(out, l)
		}
	}
	return out
}

func gUpsert(h *H) {
	maxPerm := 3
	if h.r.Thorough() {
		maxPerm = 4
	}
	for _, p := range h.protos {
		n := rv.ActionCount(p)
		if n == 0 || !exists(state.Play, CB, p, &playerinfo.Upsert{}) {
			continue
		}
		era := "json-display-name"
		if p >= rv.V1_20_3 {
			era = "nbt-display-name"
		}
		lists := actionLists(n, maxPerm)
		for _, l := range lists {
			var mask uint8
			dup, sorted := false, true
			for i, a := range l {
				if mask&(1<<uint(a)) != 0 {
					dup = true
				}
				mask |= 1 << uint(a)
				if i > 0 && l[i-1] >= a {
					sorted = false
				}
			}
			scenario := "canonical-order"
			switch {
			case dup:
				scenario = "duplicate-action"
			case !sorted:
				scenario = "api-order-differs-from-protocol-order"
			}
			var names []string
			for _, a := range l {
				names = append(names, rv.ActionNames[a])
			}
			for ne := 0; ne <= 2; ne++ {
				evs := mkEntries(p)[:ne]
				pk := &playerinfo.Upsert{}
				for _, a := range l {
					pk.ActionSet = append(pk.ActionSet, actionByOrdinal[a])
				}
				for _, ev := range evs {
					pk.Entries = append(pk.Entries, ev.e)
				}
				label := fmt.Sprintf("{actions=%v entries=%d}", names, ne)
				h.r.Class("PlayerInfoUpdate/scenario:" + scenario)
				h.upsertCase(era, scenario, p, label, pk, mask, evs)
			}
		}
		// field values under the full canonical action set (d=1 around entry A)
		full := make([]int, n)
		for i := range full {
			full[i] = i
		}
		for _, v := range varInts {
			for f := 0; f < 3; f++ {
				evs := mkEntries(p)[:1]
				switch f {
				case 0:
					evs[0].e.Latency = v
				case 1:
					evs[0].e.GameMode = v
				case 2:
					evs[0].e.ListOrder = v
				}
				pk := &playerinfo.Upsert{Entries: []*playerinfo.Entry{evs[0].e}}
				for _, a := range full {
					pk.ActionSet = append(pk.ActionSet, actionByOrdinal[a])
				}
				h.r.Class("PlayerInfoUpdate/scenario:field-values")
				h.upsertCase(era, "canonical-order", p, fmt.Sprintf("{all actions, field#%d=%d}", f, v), pk, uint8(1<<uint(n)-1), evs)
			}
		}
		for pi, props := range propSets {
			for _, name := range []string{"a", "abcdefghijklmnop"} {
				evs := mkEntries(p)[:1]
				evs[0].e.Profile.Name, evs[0].e.Profile.Properties = name, props
				pk := &playerinfo.Upsert{Entries: []*playerinfo.Entry{evs[0].e}}
				for _, a := range full {
					pk.ActionSet = append(pk.ActionSet, actionByOrdinal[a])
				}
				h.upsertCase(era, "canonical-order", p, fmt.Sprintf("{all actions, name=%q props#%d}", name, pi), pk, uint8(1<<uint(n)-1), evs)
			}
		}
	}
}

func (h *H) upsertCase(era, scenario string, p int, label string, pk *playerinfo.Upsert, mask uint8, evs []entryVal) {
	h.r.Eval(1)
	h.r.Class("PlayerInfoUpdate/" + era)
	rc := replayCase{h.group, p}
	where := fmt.Sprintf("PlayerInfoUpdate Play/CB protocol %d, input %s", p, label)
	_, body, err := encode(state.Play, CB, p, pk)
	if err != nil {
		h.r.Violation("PlayerInfoUpdate/"+scenario+"/encode-error", where+": "+err.Error(), rc)
		return
	}
	if k := "U|" + era + "|" + label; !h.seen[k] {
		h.seen[k] = true
		h.r.Nontrivial(1)
	}
	bad := func(kind, detail string) {
		key := "PlayerInfoUpdate/" + scenario + "/" + kind
		if scenario != "canonical-order" {
			// one defect (per-entry data follows the supplied list, not the action set) shows either as a decode
			// failure or as values landing in the wrong fields, depending on the wire types involved: one key
			key = "PlayerInfoUpdate/" + scenario + "/misparsed-by-vanilla"
		}
		h.r.Violation(key, fmt.Sprintf("%s: [%s] %s; body=%s", where, kind, detail, hx(body)), rc)
	}
	got, derr := rv.DecodePlayerInfoUpdate(p, body)
	if derr != nil {
		bad("reference-decoder-rejects", "the vanilla reference decoder fails: "+derr.Error())
		return
	}
	if got.Actions != mask {
		bad("action-bit-set", fmt.Sprintf("action bits read %08b, meant %08b", got.Actions, mask))
		return
	}
	if len(got.Entries) != len(evs) {
		bad("entry-count", fmt.Sprintf("read %d entries, meant %d", len(got.Entries), len(evs)))
		return
	}
	for i, ev := range evs {
		if d := entryDiff(got.Entries[i], wantEntry(ev, mask)); d != "" {
			bad("entry-data", fmt.Sprintf("entry %d: %s", i, d))
			return
		}
	}
}

// ------------------------------------------------------------------------------------------------ entry point

func TestVerif(t *testing.T) {
	vrt.Run(t, "C07", func(r *vrt.R) {
		groups := []struct {
			name string
			f    func(h *H)
		}{
			{"upsert", gUpsert}, {"plugin", gPlugin}, {"loginsuccess", gLoginSuccess}, {"loginstart", gLoginStart},
			{"encreq", gEncryptionRequest}, {"encresp", gEncryptionResponse}, {"handshake", gHandshake},
			{"setcompression", gSetCompression}, {"loginplugin", gLoginPlugin}, {"disconnect", gDisconnect},
			{"keepalive", gKeepAlive}, {"status", gStatus}, {"transfer", gTransfer}, {"remove", gRemove},
			// gap review: constructors and nil inputs (c07_ctor_test.go)
			{"brand", gBrand}, {"register", gRegister}, {"ctormisc", gCtorMisc},
		}
		var protos []int
		for _, v := range version.SupportedVersions {
			protos = append(protos, int(v.Protocol))
		}
		sort.Ints(protos)
		var rp replayCase
		replay := r.ReplayInto(&rp)
		item := 0
		for _, g := range groups {
			if replay && g.name != rp.Group {
				continue
			}
			// one work item per (group, protocol)
			for _, p := range protos {
				item++
				if replay && rp.Protocol != p {
					continue
				}
				if !replay && !r.Mine(item) {
					continue
				}
				if r.Expired() {
					return
				}
				g.f(&H{r: r, group: g.name, protos: []int{p}, seen: map[string]bool{}})
			}
		}
		if !replay {
			r.Extra("protocols", len(protos))
			r.Extra("reference_decoder", "lib/refvanilla (own VarInt/String/UUID/byte-array/NBT readers; written from the protocol documentation; shares no code with pkg/edition/java/proto/util)")
			r.Sample(map[string]any{"packet": "PlayerInfoUpdate", "protocol": 767, "actions_supplied": "[UPDATE_LATENCY UPDATE_LISTED]", "vanilla_order": "UPDATE_LISTED then UPDATE_LATENCY"})
			r.Sample(map[string]any{"packet": "PluginMessage", "protocol": 5, "data_len": 300, "vanilla_layout": "String channel, Short 0x012c, 300 bytes"})
		}
	})
}
