package c07

// Added by the gap review: the packet CONSTRUCTORS of the proxy (API entry points that build the listed packets instead
// of a struct literal) and nil-valued inputs.
//
//   - plugin.RewriteMinecraftBrand: the brand plugin message the proxy sends in place of the peer's. A vanilla peer reads
//     the payload as ONE String that fills it exactly (>= 1.8) or as raw UTF-8 (1.7).
//   - plugin.ConstructChannelsPacket: the channel-registration plugin message (REGISTER before 1.13, minecraft:register
//     from 1.13): channel names separated by single NUL bytes.
//   - packet.NewDisconnect with a nil reason (documented to send an empty text).
//   - nil byte slices where the struct-literal groups only used empty non-nil ones.

import (
	"fmt"
	"reflect"
	"strings"

	"go.minekube.com/gate/pkg/edition/java/proto/packet"
	"go.minekube.com/gate/pkg/edition/java/proto/packet/plugin"
	"go.minekube.com/gate/pkg/edition/java/proto/state"
	"go.minekube.com/gate/pkg/edition/java/proto/state/states"
	rv "go.minekube.com/gate/pkg/edition/java/proxy/zzverif/refvanilla"
	"go.minekube.com/gate/pkg/gate/proto"
)

type pside struct {
	reg *state.Registry
	d   proto.Direction
}

var pluginSides = []pside{{state.Play, SB}, {state.Play, CB}, {state.Config, SB}, {state.Config, CB}}

// own VarInt writer (inputs to the constructors are built by the harness, not by proto/util)
func vi(n int) []byte {
	u := uint32(n)
	var out []byte
	for u >= 0x80 {
		out = append(out, byte(u)|0x80)
		u >>= 7
	}
	return append(out, byte(u))
}

func pluginEra(p int) string {
	if p < rv.V1_8 {
		return "1.7(short-length)"
	}
	return "1.8+(rest-of-packet)"
}

func gBrand(h *H) {
	brands := []string{"vanilla", "", "Paper", "Ünï😀 brand", str(300)}
	for n := 100; n <= 130; n++ { // the rewritten brand crosses the 1-byte VarInt length boundary whatever the suffix length
		brands = append(brands, str(n))
	}
	for _, s := range pluginSides {
		for _, p := range h.protos {
			if !exists(s.reg, s.d, p, &plugin.Message{}) {
				continue
			}
			chans := []string{"MC|Brand"}
			if p >= rv.V1_13 {
				chans = []string{"minecraft:brand", "MC|Brand"}
			}
			for _, ch := range chans {
				for _, brand := range brands {
					in := &plugin.Message{Channel: ch}
					if p >= rv.V1_8 {
						in.Data = append(vi(len(brand)), brand...)
					} else {
						// 1.7 brands are raw UTF-8. The proxy (like the reference implementation) first tries to read ANY
						// brand payload in the 1.8 format, so a raw brand whose first byte happens to be a plausible length
						// ('a' = 97 followed by >= 97 more bytes) is ambiguous input; that is a matter of how the incoming
						// message is interpreted, not of how the outgoing one is encoded. Long 1.7 brands therefore start
						// with a 2-byte character, which can never be taken for a length that fits.
						if len(brand) >= 90 {
							brand = "Ü" + brand
						}
						in.Data = []byte(brand)
					}
					brand := brand
					pk := plugin.RewriteMinecraftBrand(in, proto.Protocol(p))
					wantCh := ch
					if p >= rv.V1_13 {
						wantCh = "minecraft:brand"
					}
					label := fmt.Sprintf("RewriteMinecraftBrand{channel=%q brand=%d bytes}", ch, len(brand))
					h.do("PluginBrand", pluginEra(p), s.reg, s.d, p, label, pk, func(body []byte) (string, string) {
						got, err := rv.DecodePluginMessage(p, false, body)
						if err != nil {
							return decErr(err)
						}
						if got.Channel != wantCh {
							return diff("Channel", got.Channel, wantCh)
						}
						b, err := rv.DecodeBrandPayload(p, got.Data)
						if err != nil {
							return "brand-payload-rejected", "a vanilla peer cannot read the brand payload: " + err.Error()
						}
						if !strings.HasPrefix(b, brand) || len(b) <= len(brand) {
							return diff("brand", b, brand+" (+ proxy marker)")
						}
						return "", ""
					})
				}
			}
		}
	}
}

func gRegister(h *H) {
	many := make([]string, 60)
	for i := range many {
		many[i] = fmt.Sprintf("ns%d:channel_%d", i, i)
	}
	lists := [][]string{
		{"a:b"}, {"velocity:player_info", "bungeecord:main"}, {"BungeeCord", "FML|HS", "x"}, {"ns:" + str(130)},
		{"a:b", "c:d", "e:f", "g:h"}, many,
	}
	for _, s := range pluginSides {
		for _, p := range h.protos {
			if !exists(s.reg, s.d, p, &plugin.Message{}) {
				continue
			}
			wantCh := "REGISTER"
			if p >= rv.V1_13 {
				wantCh = "minecraft:register"
			}
			for _, l := range lists {
				l := l
				pk := plugin.ConstructChannelsPacket(proto.Protocol(p), l...)
				label := fmt.Sprintf("ConstructChannelsPacket(%d channels, first %q)", len(l), l[0])
				h.do("PluginRegister", pluginEra(p), s.reg, s.d, p, label, pk, func(body []byte) (string, string) {
					got, err := rv.DecodePluginMessage(p, false, body)
					if err != nil {
						return decErr(err)
					}
					if got.Channel != wantCh {
						return diff("Channel", got.Channel, wantCh)
					}
					chs, err := rv.DecodeRegisterPayload(got.Data)
					if err != nil {
						return "register-payload-rejected", err.Error()
					}
					if !reflect.DeepEqual(chs, l) {
						return diff("channels", fmt.Sprintf("%d %q", len(chs), chs), fmt.Sprintf("%d %q", len(l), l))
					}
					return "", ""
				})
			}
		}
	}
}

func gCtorMisc(h *H) {
	for _, p := range h.protos {
		// NewDisconnect(nil): an empty text
		for _, s := range []struct {
			reg   *state.Registry
			st    states.State
			login bool
		}{{state.Login, states.LoginState, true}, {state.Config, states.ConfigState, false}, {state.Play, states.PlayState, false}} {
			if !exists(s.reg, CB, p, &packet.Disconnect{}) {
				continue
			}
			s := s
			pk := packet.NewDisconnect(nil, proto.Protocol(p), s.st)
			era := "json-string"
			if !s.login && p >= rv.V1_20_3 {
				era = "1.20.3+(nbt)"
			}
			if s.login {
				era = "login(json-string)"
			}
			h.do("Disconnect", era+"/text:nil-reason", s.reg, CB, p, "NewDisconnect(nil)", pk, func(body []byte) (string, string) {
				got, err := rv.DecodeDisconnect(p, s.login, body)
				if err != nil {
					return decErr(err)
				}
				if got.Text.Plain != "" {
					return diff("Reason.text", got.Text.Plain, "")
				}
				return "", ""
			})
		}
		// nil payloads
		for _, s := range pluginSides {
			if !exists(s.reg, s.d, p, &plugin.Message{}) {
				continue
			}
			pk := &plugin.Message{Channel: "a:b", Data: nil}
			h.do("PluginMessage", pluginEra(p), s.reg, s.d, p, "{channel=\"a:b\" data=nil}", pk, func(body []byte) (string, string) {
				got, err := rv.DecodePluginMessage(p, false, body)
				switch {
				case err != nil:
					return decErr(err)
				case got.Channel != "a:b":
					return diff("Channel", got.Channel, "a:b")
				case len(got.Data) != 0:
					return diff("Data", hx(got.Data), "")
				}
				return "", ""
			})
		}
		if exists(state.Login, CB, p, &packet.LoginPluginMessage{}) {
			h.do("LoginPluginMessage", "1.13+", state.Login, CB, p, "{id=7 data=nil}", &packet.LoginPluginMessage{ID: 7, Channel: "a:b"}, func(body []byte) (string, string) {
				got, err := rv.DecodeLoginPluginRequest(body)
				switch {
				case err != nil:
					return decErr(err)
				case got.ID != 7 || got.Channel != "a:b" || len(got.Data) != 0:
					return diff("packet", got, "{7 a:b []}")
				}
				return "", ""
			})
			for _, ok := range []bool{false, true} {
				ok := ok
				h.do("LoginPluginResponse", "1.13+", state.Login, SB, p, fmt.Sprintf("{id=7 success=%v data=nil}", ok), &packet.LoginPluginResponse{ID: 7, Success: ok}, func(body []byte) (string, string) {
					got, err := rv.DecodeLoginPluginResponse(body)
					switch {
					case err != nil:
						return decErr(err)
					case got.ID != 7 || got.Success != ok || len(got.Data) != 0:
						return diff("packet", got, fmt.Sprintf("{7 %v []}", ok))
					}
					return "", ""
				})
			}
		}
		era := arrEra(p)
		if p >= rv.V1_20_5 {
			era = "1.20.5+(should-authenticate)"
		}
		h.do("EncryptionRequest", era, state.Login, CB, p, "{serverID=\"\" key=nil token=nil}", &packet.EncryptionRequest{}, func(body []byte) (string, string) {
			got, err := rv.DecodeEncryptionRequest(p, body)
			switch {
			case err != nil:
				return decErr(err)
			case got.ServerID != "" || len(got.PublicKey) != 0 || len(got.VerifyToken) != 0:
				return diff("packet", got, "all empty")
			}
			return "", ""
		})
		era = arrEra(p)
		if p >= rv.V1_19 && p < rv.V1_19_3 {
			era = "1.19-1.19.2(token-or-salt+signature)"
		}
		h.do("EncryptionResponse", era, state.Login, SB, p, "{secret=nil token=nil salt=nil}", &packet.EncryptionResponse{}, func(body []byte) (string, string) {
			got, err := rv.DecodeEncryptionResponse(p, body)
			switch {
			case err != nil:
				return decErr(err)
			case len(got.SharedSecret) != 0 || len(got.VerifyToken) != 0 || !got.HasVerifyToken:
				return diff("packet", got, "empty secret, empty verify token")
			}
			return "", ""
		})
	}
}
