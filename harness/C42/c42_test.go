package c42

import (
	"fmt"
	"sort"
	"strings"
	"sync"
	"testing"

	"go.minekube.com/gate/pkg/edition/java/proxy/zzverif/dualrun"
	"go.minekube.com/gate/pkg/edition/java/proxy/zzverif/vrt"
	"go.minekube.com/gate/pkg/internal/future"
)

// log records harness-visible events of one execution. Under the scheduler only one thread runs at a
// time, so the slices and the clock are a faithful real-time order. In the free-running race pass the
// harness state is guarded by its own mutex (never held across a call into the code under test), so that
// the race detector reports races of future.go only.
type log struct {
	x     *dualrun.Env
	mu    sync.Mutex
	cb    map[string][]int // callback name -> values it was invoked with
	order []string
	steps []string // composition functions, in the order they ran
	who   []int    // scheduler thread that ran each step (scheduler pass only): shows that schedules differ
	compl []complCall
}
type complCall struct{ v, call, ret int }

func newLog(x *dualrun.Env) *log { return &log{x: x, cb: map[string][]int{}} }
func (l *log) callback(name string) func(int) {
	l.mu.Lock()
	l.cb[name] = nil
	l.mu.Unlock()
	return func(v int) {
		l.mu.Lock()
		defer l.mu.Unlock()
		l.cb[name] = append(l.cb[name], v)
		l.order = append(l.order, fmt.Sprintf("%s(%d)", name, v))
	}
}

// step records that a composition function ran.
func (l *log) step(format string, a ...any) {
	l.mu.Lock()
	defer l.mu.Unlock()
	l.steps = append(l.steps, fmt.Sprintf(format, a...))
	if !l.x.Free() {
		l.who = append(l.who, l.x.X.CurID())
	}
}
func (l *log) complete(f *future.Future[int], v int) {
	c := complCall{v: v, call: l.x.Tick()}
	f.Complete(v)
	c.ret = l.x.Tick()
	l.mu.Lock()
	l.compl = append(l.compl, c)
	l.mu.Unlock()
}

// check is the oracle for one future: registered lists every callback registered on it.
func (l *log) check(completedWith []int) {
	x := l.x
	l.mu.Lock()
	defer l.mu.Unlock()
	if len(l.who) > 0 {
		x.Outcome(fmt.Sprint("ran-on", l.who))
	}
	var val *int
	names := make([]string, 0, len(l.cb))
	for n := range l.cb {
		names = append(names, n)
	}
	sort.Strings(names)
	for _, n := range names {
		vs := l.cb[n]
		if len(completedWith) == 0 {
			if len(vs) != 0 {
				x.Fail("callback-without-completion", "%s ran %v although the future was never completed", n, vs)
			}
			continue
		}
		if len(vs) != 1 {
			x.Fail("callback-count", "callback %s ran %d times (values %v), want exactly once; order=%v", n, len(vs), vs, l.order)
			continue
		}
		if val == nil {
			v := vs[0]
			val = &v
		} else if *val != vs[0] {
			x.Fail("callbacks-disagree", "callbacks saw different values: %v", l.cb)
		}
	}
	if val != nil {
		ok := false
		for _, c := range completedWith {
			if c == *val {
				ok = true
			}
		}
		if !ok {
			x.Fail("value-not-completed", "callbacks saw %d which no Complete supplied (%v)", *val, completedWith)
		}
		// first completion wins: if Complete(a) returned before Complete(b) was called, value must not be b
		for _, a := range l.compl {
			for _, b := range l.compl {
				if a.ret < b.call && *val == b.v && a.v != b.v {
					x.Fail("later-completion-won", "Complete(%d) returned before Complete(%d) was called, yet callbacks saw %d", a.v, b.v, *val)
				}
			}
		}
	}
	x.Outcome(strings.Join(l.order, ","))
}

// free-running rounds per scenario (quick, thorough) of the supplementary -race pass
const fq, ft = 400, 4000

func c42Scenarios() []dualrun.Scenario {
	return []dualrun.Scenario{
		{Name: "reg2-vs-complete", Quick: -1, Thorough: -1, FreeQuick: fq, FreeThorough: ft, Body: func(x *dualrun.Env) {
			l := newLog(x)
			f := future.New[int]()
			x.Go("reg", func() { f.ThenAccept(l.callback("a")); f.ThenAccept(l.callback("b")) })
			x.Go("complete", func() { l.complete(f, 7) })
			x.AtEnd(func() { f.ThenAccept(l.callback("late")); l.check([]int{7}) })
		}},
		{Name: "two-completers-one-registrar", Quick: 2, Thorough: -1, FreeQuick: fq, FreeThorough: ft, Body: func(x *dualrun.Env) {
			l := newLog(x)
			f := future.New[int]()
			f.ThenAccept(l.callback("pre"))
			x.Go("c1", func() { l.complete(f, 1) })
			x.Go("c2", func() { l.complete(f, 2) })
			x.Go("reg", func() { f.ThenAccept(l.callback("a")); f.ThenAccept(l.callback("b")) })
			x.AtEnd(func() { f.ThenAccept(l.callback("late")); l.check([]int{1, 2}) })
		}},
		{Name: "double-complete-same-thread-vs-registrars", Quick: 2, Thorough: -1, FreeQuick: fq, FreeThorough: ft, Body: func(x *dualrun.Env) {
			l := newLog(x)
			f := future.New[int]()
			x.Go("c", func() { l.complete(f, 1); l.complete(f, 2) })
			x.Go("r1", func() { f.ThenAccept(l.callback("a")) })
			x.Go("r2", func() { f.ThenAccept(l.callback("b")) })
			x.AtEnd(func() {
				l.check([]int{1, 2})
				if vs := l.cb["a"]; len(vs) == 1 && vs[0] != 1 {
					x.Fail("second-completion-won", "sequential Complete(1);Complete(2) yielded %d", vs[0])
				}
			})
		}},
		{Name: "compose-chain-2", Quick: 2, Thorough: -1, FreeQuick: fq, FreeThorough: ft, Body: func(x *dualrun.Env) {
			l := newLog(x)
			f1, f2 := future.New[int](), future.New[int]()
			out := future.ThenCompose(f1, func(v int) *future.Future[int] { l.step("g1(%d)", v); return f2 })
			x.Go("c1", func() { f1.Complete(10) })
			x.Go("c2", func() { f2.Complete(20) })
			x.Go("reg", func() { out.ThenAccept(l.callback("final")) })
			x.AtEnd(func() {
				if len(l.steps) != 1 || l.steps[0] != "g1(10)" {
					x.Fail("compose-step", "composition function ran %v, want exactly [g1(10)]", l.steps)
				}
				l.who = nil // as before rev9: the outcome of this scenario is the callback log only
				l.check([]int{20})
			})
		}},
		{Name: "compose-chain-3", Quick: 2, Thorough: 3, FreeQuick: fq, FreeThorough: ft, Body: func(x *dualrun.Env) {
			l := newLog(x)
			f1, f2, f3 := future.New[int](), future.New[int](), future.New[int]()
			mid := future.ThenCompose(f1, func(v int) *future.Future[int] { l.step("g1(%d)", v); return f2 })
			out := future.ThenCompose(mid, func(v int) *future.Future[int] { l.step("g2(%d)", v); return f3 })
			out.ThenAccept(l.callback("pre"))
			x.Go("c1", func() { f1.Complete(1) })
			x.Go("c2", func() { f2.Complete(2) })
			x.Go("c3", func() { f3.Complete(3) })
			x.Go("reg", func() { out.ThenAccept(l.callback("final")) })
			x.AtEnd(func() {
				if strings.Join(l.steps, ",") != "g1(1),g2(2)" {
					x.Fail("compose-order", "composition functions ran %v, want [g1(1) g2(2)] in chain order", l.steps)
				}
				l.who = nil
				l.check([]int{3})
			})
		}},
		// ---- rev9: ThenCompose itself races with completions (the shape of chatQueue.queueTask: the chain is
		// grown by one goroutine while the goroutine of writePacket completes earlier links) ----
		{Name: "chain-grown-while-completing", Quick: -1, Thorough: -1, FreeQuick: fq, FreeThorough: ft, Body: func(x *dualrun.Env) {
			l := newLog(x)
			head := future.New[int]().Complete(0) // newChatQueue: a head that is complete from the start
			f1 := future.New[int]()               // the write future of task 1
			x.Go("queue", func() {
				h1 := future.ThenCompose(head, func(v int) *future.Future[int] { l.step("t1(%d)", v); return f1 })
				// task 2 answers with a future that is already complete (HandleAcknowledgement with nothing to forward)
				h2 := future.ThenCompose(h1, func(v int) *future.Future[int] {
					l.step("t2(%d)", v)
					return future.New[int]().Complete(v + 1)
				})
				h2.ThenAccept(l.callback("tail"))
			})
			x.Go("writer", func() { l.complete(f1, 10) })
			x.AtEnd(func() {
				if strings.Join(l.steps, ",") != "t1(0),t2(10)" {
					x.Fail("compose-order", "tasks ran %v, want [t1(0) t2(10)] in queue order", l.steps)
				}
				l.check([]int{11})
			})
		}},
		{Name: "two-composers-vs-complete", Quick: 2, Thorough: -1, FreeQuick: fq, FreeThorough: ft, Body: func(x *dualrun.Env) {
			l := newLog(x)
			f := future.New[int]()
			compose := func(name string) func() {
				return func() {
					o := future.ThenCompose(f, func(v int) *future.Future[int] {
						l.step("g%s(%d)", name, v)
						return future.New[int]().Complete(v * 2)
					})
					o.ThenAccept(l.callback(name))
				}
			}
			x.Go("ca", compose("a"))
			x.Go("cb", compose("b"))
			x.Go("c", func() { l.complete(f, 4) })
			x.AtEnd(func() {
				sorted := append([]string(nil), l.steps...)
				sort.Strings(sorted)
				if strings.Join(sorted, ",") != "ga(4),gb(4)" {
					x.Fail("compose-step", "composition functions ran %v, want each exactly once with 4", l.steps)
				}
				l.check([]int{8})
			})
		}},
		// QueuePacket: the composition function itself composes on a future that a third goroutine completes
		{Name: "nested-compose-in-task", Quick: 2, Thorough: -1, FreeQuick: fq, FreeThorough: ft, Body: func(x *dualrun.Env) {
			l := newLog(x)
			head := future.New[int]().Complete(0)
			p, w := future.New[int](), future.New[int]() // nextPacket result, write future
			x.Go("queue", func() {
				h1 := future.ThenCompose(head, func(int) *future.Future[int] {
					l.step("task")
					return future.ThenCompose(p, func(v int) *future.Future[int] { l.step("write(%d)", v); return w })
				})
				h1.ThenAccept(l.callback("tail"))
			})
			x.Go("event", func() { p.Complete(5) })
			x.Go("writer", func() { w.Complete(6) })
			x.AtEnd(func() {
				if strings.Join(l.steps, ",") != "task,write(5)" {
					x.Fail("compose-order", "steps ran %v, want [task write(5)]", l.steps)
				}
				l.check([]int{6})
			})
		}},
	}
}

func TestVerif(t *testing.T) {
	vrt.Run(t, "C42", func(r *vrt.R) { dualrun.Run(r, c42Scenarios()) })
}
