package c42

import (
	"fmt"
	"sort"
	"strings"
	"testing"

	"go.minekube.com/gate/pkg/edition/java/proxy/zzverif/sched"
	"go.minekube.com/gate/pkg/edition/java/proxy/zzverif/schedrun"
	"go.minekube.com/gate/pkg/edition/java/proxy/zzverif/vrt"
	"go.minekube.com/gate/pkg/internal/future"
)

// log records harness-visible events of one execution; only one thread runs at a time, so a
// plain slice and counter are a faithful real-time order.
type log struct {
	x     *sched.X
	clock int
	cb    map[string][]int // callback name -> values it was invoked with
	order []string
	compl []complCall
}
type complCall struct{ v, call, ret int }

func newLog(x *sched.X) *log { return &log{x: x, cb: map[string][]int{}} }
func (l *log) tick() int     { l.clock++; return l.clock }
func (l *log) callback(name string) func(int) {
	l.cb[name] = nil
	return func(v int) {
		l.tick()
		l.cb[name] = append(l.cb[name], v)
		l.order = append(l.order, fmt.Sprintf("%s(%d)", name, v))
	}
}
func (l *log) complete(f *future.Future[int], v int) {
	c := complCall{v: v, call: l.tick()}
	f.Complete(v)
	c.ret = l.tick()
	l.compl = append(l.compl, c)
}

// check is the oracle for one future: registered lists every callback registered on it.
func (l *log) check(completedWith []int) {
	x := l.x
	var val *int
	names := make([]string, 0, len(l.cb))
	for n := range l.cb {
		names = append(names, n)
	}
	sort.Strings(names)
	for _, n := range names {
		vs := l.cb[n]
		if len(completedWith) == 0 {
			if len(vs) != 0 {
				x.Fail("callback-without-completion", "%s ran %v although the future was never completed", n, vs)
			}
			continue
		}
		if len(vs) != 1 {
			x.Fail("callback-count", "callback %s ran %d times (values %v), want exactly once; order=%v", n, len(vs), vs, l.order)
			continue
		}
		if val == nil {
			v := vs[0]
			val = &v
		} else if *val != vs[0] {
			x.Fail("callbacks-disagree", "callbacks saw different values: %v", l.cb)
		}
	}
	if val != nil {
		ok := false
		for _, c := range completedWith {
			if c == *val {
				ok = true
			}
		}
		if !ok {
			x.Fail("value-not-completed", "callbacks saw %d which no Complete supplied (%v)", *val, completedWith)
		}
		// first completion wins: if Complete(a) returned before Complete(b) was called, value must not be b
		for _, a := range l.compl {
			for _, b := range l.compl {
				if a.ret < b.call && *val == b.v && a.v != b.v {
					x.Fail("later-completion-won", "Complete(%d) returned before Complete(%d) was called, yet callbacks saw %d", a.v, b.v, *val)
				}
			}
		}
	}
	x.Outcome(strings.Join(l.order, ","))
}

func TestVerif(t *testing.T) {
	vrt.Run(t, "C42", func(r *vrt.R) {
		schedrun.Run(r, []schedrun.Scenario{
			{Name: "reg2-vs-complete", Quick: -1, Thorough: -1, Body: func(x *sched.X) {
				l := newLog(x)
				f := future.New[int]()
				x.Go("reg", func() { f.ThenAccept(l.callback("a")); f.ThenAccept(l.callback("b")) })
				x.Go("complete", func() { l.complete(f, 7) })
				x.AtEnd(func() { f.ThenAccept(l.callback("late")); l.check([]int{7}) })
			}},
			{Name: "two-completers-one-registrar", Quick: 2, Thorough: -1, Body: func(x *sched.X) {
				l := newLog(x)
				f := future.New[int]()
				f.ThenAccept(l.callback("pre"))
				x.Go("c1", func() { l.complete(f, 1) })
				x.Go("c2", func() { l.complete(f, 2) })
				x.Go("reg", func() { f.ThenAccept(l.callback("a")); f.ThenAccept(l.callback("b")) })
				x.AtEnd(func() { f.ThenAccept(l.callback("late")); l.check([]int{1, 2}) })
			}},
			{Name: "double-complete-same-thread-vs-registrars", Quick: 2, Thorough: -1, Body: func(x *sched.X) {
				l := newLog(x)
				f := future.New[int]()
				x.Go("c", func() { l.complete(f, 1); l.complete(f, 2) })
				x.Go("r1", func() { f.ThenAccept(l.callback("a")) })
				x.Go("r2", func() { f.ThenAccept(l.callback("b")) })
				x.AtEnd(func() {
					l.check([]int{1, 2})
					if vs := l.cb["a"]; len(vs) == 1 && vs[0] != 1 {
						x.Fail("second-completion-won", "sequential Complete(1);Complete(2) yielded %d", vs[0])
					}
				})
			}},
			{Name: "compose-chain-2", Quick: 2, Thorough: -1, Body: func(x *sched.X) {
				l := newLog(x)
				f1, f2 := future.New[int](), future.New[int]()
				var steps []string
				out := future.ThenCompose(f1, func(v int) *future.Future[int] { steps = append(steps, fmt.Sprintf("g1(%d)", v)); return f2 })
				x.Go("c1", func() { f1.Complete(10) })
				x.Go("c2", func() { f2.Complete(20) })
				x.Go("reg", func() { out.ThenAccept(l.callback("final")) })
				x.AtEnd(func() {
					if len(steps) != 1 || steps[0] != "g1(10)" {
						x.Fail("compose-step", "composition function ran %v, want exactly [g1(10)]", steps)
					}
					l.check([]int{20})
				})
			}},
			{Name: "compose-chain-3", Quick: 2, Thorough: 3, Body: func(x *sched.X) {
				l := newLog(x)
				f1, f2, f3 := future.New[int](), future.New[int](), future.New[int]()
				var steps []string
				mid := future.ThenCompose(f1, func(v int) *future.Future[int] { steps = append(steps, fmt.Sprintf("g1(%d)", v)); return f2 })
				out := future.ThenCompose(mid, func(v int) *future.Future[int] { steps = append(steps, fmt.Sprintf("g2(%d)", v)); return f3 })
				out.ThenAccept(l.callback("pre"))
				x.Go("c1", func() { f1.Complete(1) })
				x.Go("c2", func() { f2.Complete(2) })
				x.Go("c3", func() { f3.Complete(3) })
				x.Go("reg", func() { out.ThenAccept(l.callback("final")) })
				x.AtEnd(func() {
					if strings.Join(steps, ",") != "g1(1),g2(2)" {
						x.Fail("compose-order", "composition functions ran %v, want [g1(1) g2(2)] in chain order", steps)
					}
					l.check([]int{3})
				})
			}},
		})
	})
}
