package c01

// C01 — packet frames survive compression, encryption and arbitrary stream chunking.
//
// Engine: enum. The REAL netmc.NewWriter writes payload sequences into a recording net.Conn; the bytes are fed
// to the REAL netmc.NewReader through a net.Conn whose Read returns scripted chunk sizes. The reference is the
// identity: what was written must come back, in order. (A 0-byte payload has no packet id and is outside
// Encoder.Write's contract; the reader's documented behaviour is to skip empty frames, so size 0 is asserted
// only as "skipped, the stream stays in sync".)

import (
	"bytes"
	"encoding/hex"
	"errors"
	"fmt"
	"io"
	"net"
	"strings"
	"sync/atomic"
	"testing"
	"time"

	"github.com/go-logr/logr"
	"github.com/go-logr/logr/funcr"

	"go.minekube.com/gate/pkg/edition/java/netmc"
	"go.minekube.com/gate/pkg/edition/java/proto/state"
	"go.minekube.com/gate/pkg/edition/java/proto/state/states"
	"go.minekube.com/gate/pkg/edition/java/proto/version"
	"go.minekube.com/gate/pkg/edition/java/proxy/zzverif/vrt"
	"go.minekube.com/gate/pkg/gate/proto"
)

const maxFrame = 1<<21 - 1 // what a 21-bit length prefix can announce (vanilla's and the reader's frame cap)

// ---- connections ----

type addr struct{}

func (addr) Network() string { return "mem" }
func (addr) String() string  { return "mem" }

type baseConn struct{}

func (baseConn) Close() error                     { return nil }
func (baseConn) LocalAddr() net.Addr              { return addr{} }
func (baseConn) RemoteAddr() net.Addr             { return addr{} }
func (baseConn) SetDeadline(time.Time) error      { return nil }
func (baseConn) SetReadDeadline(time.Time) error  { return nil }
func (baseConn) SetWriteDeadline(time.Time) error { return nil }

// recConn records everything written to it.
type recConn struct {
	baseConn
	buf bytes.Buffer
}

func (c *recConn) Write(p []byte) (int, error) { return c.buf.Write(p) }
func (c *recConn) Read([]byte) (int, error)    { return 0, io.EOF }

// chunkConn serves data in reads of scripted sizes: sizes[i] for the i-th read, then `cycle` repeated.
// A Read never returns more than asked for (a smaller buffer splits the scripted chunk further).
type chunkConn struct {
	baseConn
	data  []byte
	pos   int
	sizes []int
	cycle []int
	i     int
	left  int // rest of the current scripted chunk
	reads int
}

func (c *chunkConn) Write(p []byte) (int, error) { return len(p), nil }
func (c *chunkConn) Read(p []byte) (int, error) {
	if len(p) == 0 {
		return 0, nil
	}
	if c.pos >= len(c.data) {
		return 0, io.EOF
	}
	if c.left == 0 {
		switch {
		case c.i < len(c.sizes):
			c.left = c.sizes[c.i]
		case len(c.cycle) > 0:
			c.left = c.cycle[(c.i-len(c.sizes))%len(c.cycle)]
		default:
			c.left = len(c.data) - c.pos
		}
		c.i++
		if c.left <= 0 {
			c.left = 1
		}
	}
	n := min(c.left, len(p), len(c.data)-c.pos)
	copy(p, c.data[c.pos:c.pos+n])
	c.pos += n
	c.left -= n
	c.reads++
	return n, nil
}

// ---- case description (also the replay record) ----

type step struct {
	Size    int    `json:"size"`
	Content string `json:"content"` // rep | lcg
	// Via overrides the case's writer entry point for this payload:
	//   write        Writer.Write(payload)
	//   packet       Writer.WritePacket(&blobPacket)   (id 0x55, decodes its whole data)
	//   lazy         Writer.WritePacket(&lazyPacket)   (id 0x56; its Decode leaves bytes unread, so the reader
	//                takes the ErrDecoderLeftBytes path - the payload must come back all the same)
	//   fail-error   Writer.WritePacket of a registered packet whose Encode writes half its data and returns an error
	//   fail-panic   ... whose Encode writes half its data and panics (with a non-error value)
	//   unregistered Writer.WritePacket of a packet type the registry does not know
	// The last three write nothing that counts as "written": the calls fail, and the payloads around them must
	// come back exactly (nothing of the failed packet may reach the wire or stay behind in a pooled buffer).
	Via string `json:"via,omitempty"`
	// applied (to writer and reader alike) BEFORE this payload is written / read:
	SetThreshold *int   `json:"set_threshold,omitempty"`
	Encrypt      string `json:"encrypt,omitempty"` // hex secret
}

type caseSpec struct {
	Dir       string `json:"dir"`       // serverbound | clientbound
	Threshold int    `json:"threshold"` // -1 = compression never enabled
	Level     int    `json:"level"`
	Secret    string `json:"secret"` // hex, "" = no encryption; enabled before the first payload
	Steps     []step `json:"steps"`
	// FlushAtEnd: the writer's buffer is flushed once after the last payload instead of after every payload
	// (the proxy batches writes the same way: BufferPacket ... Flush)
	FlushAtEnd bool `json:"flush_at_end,omitempty"`
	// Via: "" = Writer.Write(payload); "packet" = Writer.WritePacket(&blobPacket{...}) (registered as id 0x55;
	// goes through the packet registry and the pooled encode buffers), payload = 0x55 + data
	Via string `json:"via,omitempty"`
	// Log: writer and reader get an enabled logger (verbosity 10) instead of logr.Discard(), which switches on
	// the debug branches of Encoder.WritePacket and Decoder.readPacket
	Log      bool   `json:"log,omitempty"`
	Chunking string `json:"chunking"` // name, see chunkings()
	Sizes    []int  `json:"sizes,omitempty"`
	Cycle    []int  `json:"cycle,omitempty"`
}

func (c *caseSpec) String() string {
	var ss []string
	for _, s := range c.Steps {
		x := fmt.Sprintf("%s%d", s.Content, s.Size)
		if s.Via != "" {
			x = s.Via + ":" + x
		}
		if s.SetThreshold != nil {
			x = fmt.Sprintf("[thr:=%d]", *s.SetThreshold) + x
		}
		if s.Encrypt != "" {
			x = "[encrypt]" + x
		}
		ss = append(ss, x)
	}
	enc := "plain"
	if c.Secret != "" {
		enc = "aes:" + c.Secret[:4]
	}
	fl := ""
	if c.FlushAtEnd {
		fl = " flush-at-end"
	}
	if c.Via != "" {
		fl += " via-WritePacket"
	}
	if c.Log {
		fl += " logging-on"
	}
	return fmt.Sprintf("%s thr=%d lvl=%d %s%s payloads=[%s] chunking=%s", c.Dir, c.Threshold, c.Level, enc, fl, strings.Join(ss, ","), c.Chunking)
}

func payload(size int, kind string) []byte {
	b := make([]byte, size)
	switch kind {
	case "rep": // highly compressible
		for i := range b {
			b[i] = 0x55
		}
	case "lcg": // incompressible
		x := uint32(size)*2654435761 + 12345
		for i := range b {
			x = x*1664525 + 1013904223
			b[i] = byte(x >> 24)
		}
		if size > 0 {
			b[0] &= 0x7F // one-byte packet id
		}
	default:
		panic("content kind " + kind)
	}
	return b
}

func dirOf(s string) proto.Direction {
	if s == "serverbound" {
		return proto.ServerBound
	}
	return proto.ClientBound
}

// blobPacket is the only packet of the harness registry (id 0x55 in both directions): its data is the rest
// of the payload. Payloads starting with another id are "unknown" and handed through as they are, so both
// branches of the decoder's packet layer see traffic.
type blobPacket struct{ Data []byte }

func (b *blobPacket) Encode(_ *proto.PacketContext, wr io.Writer) error {
	_, err := wr.Write(b.Data)
	return err
}
func (b *blobPacket) Decode(_ *proto.PacketContext, rd io.Reader) (err error) {
	b.Data, err = io.ReadAll(rd)
	return err
}

const (
	blobID = 0x55
	lazyID = 0x56
	failID = 0x57
)

// lazyPacket reads at most two bytes of its data: whenever there is more, the decoder reports
// proto.ErrDecoderLeftBytes together with the context, and netmc's reader hands the packet on regardless.
type lazyPacket struct{ Data []byte }

func (b *lazyPacket) Encode(_ *proto.PacketContext, wr io.Writer) error {
	_, err := wr.Write(b.Data)
	return err
}
func (b *lazyPacket) Decode(_ *proto.PacketContext, rd io.Reader) error {
	b.Data = make([]byte, 2)
	n, err := io.ReadFull(rd, b.Data)
	b.Data = b.Data[:n]
	if err == io.EOF || err == io.ErrUnexpectedEOF {
		err = nil
	}
	return err
}

// failPacket writes half of its data into the encode buffer and then fails.
type failPacket struct {
	Data  []byte
	Panic bool
}

var errEncode = errors.New("harness: packet refuses to encode")

func (b *failPacket) Encode(_ *proto.PacketContext, wr io.Writer) error {
	_, _ = wr.Write(b.Data[:(len(b.Data)+1)/2])
	if b.Panic {
		panic("harness: packet encoder panics")
	}
	return errEncode
}
func (b *failPacket) Decode(_ *proto.PacketContext, rd io.Reader) (err error) {
	b.Data, err = io.ReadAll(rd)
	return err
}

// strangerPacket is not registered.
type strangerPacket struct{ blobPacket }

func (s step) via(cs *caseSpec) string {
	switch {
	case s.Via != "":
		return s.Via
	case cs.Via == "packet":
		return "packet"
	}
	return "write"
}

// writesNothing: the step's write call fails by construction.
func (s step) writesNothing() bool {
	return s.Via == "fail-error" || s.Via == "fail-panic" || s.Via == "unregistered"
}

func caseLogger(cs *caseSpec) logr.Logger {
	if !cs.Log {
		return logr.Discard()
	}
	return funcr.New(func(prefix, args string) {}, funcr.Options{Verbosity: 10})
}

var harnessRegistry = func() *state.Registry {
	reg := state.NewRegistry(states.HandshakeState)
	reg.ServerBound.Register(&blobPacket{}, &state.PacketMapping{ID: blobID, Protocol: version.MinimumVersion.Protocol})
	reg.ClientBound.Register(&blobPacket{}, &state.PacketMapping{ID: blobID, Protocol: version.MinimumVersion.Protocol})
	reg.ServerBound.Register(&lazyPacket{}, &state.PacketMapping{ID: lazyID, Protocol: version.MinimumVersion.Protocol})
	reg.ClientBound.Register(&lazyPacket{}, &state.PacketMapping{ID: lazyID, Protocol: version.MinimumVersion.Protocol})
	reg.ServerBound.Register(&failPacket{}, &state.PacketMapping{ID: failID, Protocol: version.MinimumVersion.Protocol})
	reg.ClientBound.Register(&failPacket{}, &state.PacketMapping{ID: failID, Protocol: version.MinimumVersion.Protocol})
	return reg
}()

type written struct {
	stream   []byte
	payloads [][]byte // what was handed to Write (in order)
	ends     []int    // stream offset after each Write+Flush
	err      error
	errAt    int
}

// encode runs the real writer over the steps.
func encode(cs *caseSpec) (w written) {
	conn := &recConn{}
	wr := netmc.NewWriter(conn, dirOf(cs.Dir), time.Second, cs.Level, caseLogger(cs))
	wr.SetState(harnessRegistry)
	if cs.Secret != "" {
		sec, _ := hex.DecodeString(cs.Secret)
		if err := wr.EnableEncryption(sec); err != nil {
			w.err, w.errAt = err, -1
			return
		}
	}
	if cs.Threshold >= 0 {
		if err := wr.SetCompressionThreshold(cs.Threshold); err != nil {
			w.err, w.errAt = err, -1
			return
		}
	}
	for i, st := range cs.Steps {
		if st.SetThreshold != nil {
			if err := wr.SetCompressionThreshold(*st.SetThreshold); err != nil {
				w.err, w.errAt = err, i
				return
			}
		}
		if st.Encrypt != "" {
			sec, _ := hex.DecodeString(st.Encrypt)
			if err := wr.EnableEncryption(sec); err != nil {
				w.err, w.errAt = err, i
				return
			}
		}
		p := payload(st.Size, st.Content)
		var err error
		switch st.via(cs) {
		case "packet":
			p[0] = blobID
			_, err = wr.WritePacket(&blobPacket{Data: p[1:]})
		case "lazy":
			p[0] = lazyID
			_, err = wr.WritePacket(&lazyPacket{Data: p[1:]})
		case "fail-error", "fail-panic":
			// a panic that escapes WritePacket is the caller's to survive (the proxy recovers around its
			// handlers); the statement is about what the following writes put on the wire
			_, _ = vrt.Catch(func() { _, err = wr.WritePacket(&failPacket{Data: p[1:], Panic: st.Via == "fail-panic"}) })
		case "unregistered":
			_, err = wr.WritePacket(&strangerPacket{blobPacket{Data: p[1:]}})
		default:
			_, err = wr.Write(p)
		}
		if err != nil && !st.writesNothing() {
			w.err, w.errAt = err, i
			return
		}
		if !cs.FlushAtEnd || i == len(cs.Steps)-1 {
			if err := wr.Flush(); err != nil {
				w.err, w.errAt = err, i
				return
			}
		}
		if !st.writesNothing() {
			w.payloads = append(w.payloads, p)
		}
		if !cs.FlushAtEnd {
			w.ends = append(w.ends, conn.buf.Len())
		}
	}
	w.stream = conn.buf.Bytes()
	return
}

type readBack struct {
	payloads [][]byte
	err      error // error that ended reading (io.EOF expected at the end)
	panicked bool
	panicVal any
	retries  int
}

// decode runs the real reader over the stream with the given chunking; state switches are applied after the
// same number of received payloads as on the writing side.
func decode(cs *caseSpec, w *written, sizes, cycle []int) (rb readBack) {
	conn := &chunkConn{data: w.stream, sizes: sizes, cycle: cycle}
	rd := netmc.NewReader(conn, dirOf(cs.Dir), time.Second, caseLogger(cs))
	rd.SetState(harnessRegistry)
	rb.panicked, rb.panicVal = vrt.Catch(func() {
		if cs.Secret != "" {
			sec, _ := hex.DecodeString(cs.Secret)
			if err := rd.EnableEncryption(sec); err != nil {
				rb.err = err
				return
			}
		}
		if cs.Threshold >= 0 {
			_ = rd.SetCompressionThreshold(cs.Threshold)
		}
		// the i-th non-empty payload read corresponds to the i-th non-empty step; switches attached to a step
		// are applied once every earlier non-empty payload has arrived (empty ones never arrive).
		next := 0
		advance := func() {
			for next < len(cs.Steps) {
				st := cs.Steps[next]
				if st.SetThreshold != nil {
					_ = rd.SetCompressionThreshold(*st.SetThreshold)
				}
				if st.Encrypt != "" {
					sec, _ := hex.DecodeString(st.Encrypt)
					if err := rd.EnableEncryption(sec); err != nil {
						rb.err = err
						return
					}
				}
				next++
				if st.Size > 0 && !st.writesNothing() {
					return
				}
			}
		}
		advance()
		for guard := 0; guard < len(cs.Steps)+64; guard++ {
			ctx, err := rd.ReadPacket()
			if errors.Is(err, netmc.ErrReadPacketRetry) {
				rb.retries++
				continue
			}
			if err != nil {
				rb.err = err
				return
			}
			if ctx == nil {
				rb.err = errors.New("harness: ReadPacket returned neither a packet nor an error")
				return
			}
			rb.payloads = append(rb.payloads, ctx.Payload)
			if bp, ok := ctx.Packet.(*blobPacket); ok && len(ctx.Payload) > 0 && !bytes.Equal(bp.Data, ctx.Payload[1:]) {
				rb.err = fmt.Errorf("harness: decoded packet data differs from the frame payload (%d vs %d bytes)", len(bp.Data), len(ctx.Payload)-1)
				rb.payloads[len(rb.payloads)-1] = append([]byte{0xBA, 0xD0}, bp.Data...) // surfaces as payload-differs
			}
			advance()
		}
		rb.err = errors.New("harness: reader yields more packets than were written")
	})
	return
}

type checker struct {
	r        *vrt.R
	progress atomic.Int64
	cur      atomic.Pointer[caseSpec]
}

func short(b []byte) string {
	if len(b) <= 40 {
		return hex.EncodeToString(b)
	}
	return fmt.Sprintf("%s…(%d bytes)…%s", hex.EncodeToString(b[:16]), len(b), hex.EncodeToString(b[len(b)-8:]))
}

// frameOverCap parses the PLAINTEXT stream written for the case into announced frame lengths; used only to
// tell "the writer produced a frame longer than a 21-bit length prefix can carry" from other failures.
func frameOverCap(cs *caseSpec, w *written) (int, bool) {
	// walk the length prefixes (the plaintext stream is a plain concatenation of frames)
	pos := 0
	for pos < len(w.stream) {
		var v uint32
		n := 0
		for i := 0; i < 5 && pos+i < len(w.stream); i++ {
			b := w.stream[pos+i]
			v |= uint32(b&0x7F) << (7 * uint(i))
			n = i + 1
			if b&0x80 == 0 {
				break
			}
		}
		if int(v) > maxFrame {
			return int(v), true
		}
		pos += n + int(v)
	}
	return 0, false
}

// evalEncoded checks every chunking of one encoded case.
func (c *checker) evalEncoded(cs *caseSpec, only *caseSpec) {
	r := c.r
	c.cur.Store(cs)
	w := encode(cs)
	c.progress.Add(1)
	if w.err != nil {
		r.Eval(1)
		r.Violation("writer-error", fmt.Sprintf("the writer refused a payload sequence inside the stated domain: step %d: %v\ncase: %s", w.errAt, w.err, cs.String()), cs)
		return
	}
	var want [][]byte
	for _, p := range w.payloads {
		if len(p) > 0 {
			want = append(want, p)
		}
	}
	nontrivial := len(want) > 0
	c.classify(cs, &w)
	// the writer/reader disagreement DESIGN 2a singles out: a frame the writer emits but no 21-bit reader accepts.
	// With encryption on the ciphertext hides the prefix; the plaintext twin of the case reports it.
	overKnown, overLen, over := false, 0, false
	overCap := func() bool {
		if overKnown {
			return over
		}
		overKnown = true
		twin := *cs
		twin.Secret = ""
		twin.Steps = append([]step(nil), cs.Steps...)
		plain := true
		for i := range twin.Steps {
			if twin.Steps[i].Encrypt != "" {
				plain = false
			}
			twin.Steps[i].Encrypt = ""
		}
		if cs.Secret == "" && plain {
			overLen, over = frameOverCap(cs, &w)
		} else if w2 := encode(&twin); w2.err == nil {
			overLen, over = frameOverCap(&twin, &w2)
		}
		return over
	}

	var list []chunking
	if only != nil {
		list = []chunking{{only.Chunking, only.Sizes, only.Cycle}}
	} else {
		list = chunkings(len(w.stream), w.ends, c.r.Thorough())
	}
	for _, ch := range list {
		cc := *cs
		cc.Chunking, cc.Sizes, cc.Cycle = ch.name, ch.sizes, ch.cycle
		c.cur.Store(&cc)
		rb := decode(cs, &w, ch.sizes, ch.cycle)
		c.progress.Add(1)
		r.Eval(1)
		r.Class("chunking:" + strings.SplitN(ch.name, "@", 2)[0])
		if rb.panicked {
			r.Violation("reader-panic", fmt.Sprintf("reader panicked: %v\ncase: %s", rb.panicVal, cc.String()), &cc)
			continue
		}
		ok := len(rb.payloads) == len(want)
		for i := 0; ok && i < len(want); i++ {
			ok = bytes.Equal(rb.payloads[i], want[i])
		}
		if hasEmpty(cs) && (!ok || !errors.Is(rb.err, io.EOF)) {
			// 0-byte payloads: only "skipped, stream stays in sync" is asserted; any failure of a case that
			// contains one goes under this key (its twin without the empty payload is enumerated as well and
			// reports other causes under their own keys)
			r.Violation("empty-payload-not-skipped", fmt.Sprintf("a 0-byte payload was written; the reader must skip it and stay in sync, but: read back %d of %d non-empty payload(s), reader ended with: %v\nstream: %d bytes %s\ncase: %s",
				len(rb.payloads), len(want), rb.err, len(w.stream), short(w.stream), cc.String()), &cc)
			continue
		}
		if ok && (rb.err == nil || !(errors.Is(rb.err, io.EOF))) {
			r.Violation("no-clean-eof", fmt.Sprintf("all payloads came back but the reader did not end with EOF at the end of the stream: %v\ncase: %s", rb.err, cc.String()), &cc)
			continue
		}
		if ok {
			continue
		}
		// classify
		i := 0
		for i < len(rb.payloads) && i < len(want) && bytes.Equal(rb.payloads[i], want[i]) {
			i++
		}
		detail := fmt.Sprintf("written %d payload(s) (%d non-empty), read back %d; first difference at #%d; reader ended with: %v\nstream: %d bytes %s\ncase: %s",
			len(w.payloads), len(want), len(rb.payloads), i, rb.err, len(w.stream), short(w.stream), cc.String())
		switch {
		case i >= len(rb.payloads) && overCap():
			r.Violation("compressed-frame-exceeds-21-bit-length/reader-rejects-what-writer-wrote",
				fmt.Sprintf("the writer emitted a frame announcing %d bytes (> %d): zlib expanded an incompressible payload; the reader rejects it\n%s", overLen, maxFrame, detail), &cc)
		case i < len(rb.payloads) && i < len(want):
			r.Violation("payload-differs", fmt.Sprintf("payload #%d: got %s want %s\n%s", i, short(rb.payloads[i]), short(want[i]), detail), &cc)
		case i >= len(rb.payloads):
			r.Violation("payload-lost", detail, &cc)
		default:
			r.Violation("extra-payload", detail, &cc)
		}
	}
	if nontrivial {
		r.Nontrivial(1)
	}
}

// classify records which shapes the writer case exercises.
func (c *checker) classify(cs *caseSpec, w *written) {
	r := c.r
	if cs.Secret != "" {
		r.Class("writer:encrypted-from-start")
	} else {
		r.Class("writer:plaintext-start")
	}
	r.Class(fmt.Sprintf("writer:level=%d", cs.Level))
	thr := cs.Threshold
	for _, st := range cs.Steps {
		if st.SetThreshold != nil {
			r.Class(fmt.Sprintf("switch:threshold %s->%s", thrName(thr), thrName(*st.SetThreshold)))
			thr = *st.SetThreshold
		}
		if st.Encrypt != "" {
			r.Class("switch:encryption-enabled-mid-stream")
		}
		if st.Via != "" {
			r.Class("step:via " + st.Via)
		}
		switch {
		case st.writesNothing():
		case st.Size == 0:
			r.Class("payload:empty")
		case thr < 0:
			r.Class("payload:plain-frame(compression off)")
		case st.Size < thr:
			if st.Size == thr-1 {
				r.Class("payload:size=threshold-1 (uncompressed, data length 0)")
			} else {
				r.Class("payload:below threshold (uncompressed, data length 0)")
			}
		case st.Size == thr:
			r.Class("payload:size=threshold (compressed)")
		default:
			r.Class("payload:above threshold (compressed)/" + st.Content)
		}
		if st.Size >= 4090 && st.Size <= 4098 {
			r.Class("payload:frame ends within 6 bytes of the 4096-byte buffer size")
		}
		if st.Size >= 1<<21-1000 {
			r.Class("payload:within 1000 bytes of 2^21-1/" + st.Content)
		}
	}
	if cs.FlushAtEnd {
		r.Class("writer:flush-at-end")
	}
	if cs.Log {
		r.Class("writer+reader:logging enabled (V10)")
	}
	if cs.Via == "packet" {
		r.Class("writer:via WritePacket (registry + pooled buffers)")
	} else if len(cs.Steps) > 0 && cs.Steps[0].Via != "" {
		r.Class("writer:entry point chosen per payload")
	} else {
		r.Class("writer:via Write(payload)")
	}
	if len(w.stream) > 0 && (len(w.stream) <= 24 || r.Thorough() && len(w.stream) <= 40) {
		r.Class("stream: short (all <=3-read splits)")
	}
	if len(cs.Steps) > 1 && (cs.Steps[0].Size > 1000 || cs.Steps[0].SetThreshold != nil) {
		r.Sample(cs.String())
	}
}

func thrName(t int) string {
	if t < 0 {
		return "off"
	}
	return fmt.Sprint(t)
}

func hasEmpty(cs *caseSpec) bool {
	for _, s := range cs.Steps {
		if s.Size == 0 {
			return true
		}
	}
	return false
}

func TestVerif(t *testing.T) {
	vrt.Run(t, "C01", func(r *vrt.R) {
		c := &checker{r: r}
		var rp caseSpec
		if r.ReplayInto(&rp) {
			c.guarded(func() { c.evalEncoded(&rp, &rp) })
			return
		}
		c.guarded(func() {
			i := 0
			enumerate(r, func(cs *caseSpec) bool {
				i++
				if !r.Mine(i) {
					return true
				}
				if r.Expired() {
					return false
				}
				c.evalEncoded(cs, nil)
				return true
			})
			if r.Shard == 0 {
				r.Extra("writer_cases_all_shards", int64(i))
			}
		})
	})
}

// guarded: the reader works on an in-memory stream, so it must always return; a stall is re-tried twice and
// only a stall that reproduces every time becomes a violation (otherwise the run is marked not exhaustive).
func (c *checker) guarded(work func()) {
	const limit = 60 * time.Second
	done := make(chan struct{})
	go func() { defer close(done); work() }()
	last, lastChange := c.progress.Load(), time.Now()
	tick := time.NewTicker(time.Second)
	defer tick.Stop()
	for {
		select {
		case <-done:
			return
		case <-tick.C:
			if p := c.progress.Load(); p != last {
				last, lastChange = p, time.Now()
				continue
			}
			if time.Since(lastChange) < limit {
				continue
			}
			cs := c.cur.Load()
			if cs == nil {
				c.r.NotExhaustive("watchdog: no progress before the first case")
				return
			}
			hung := 1
			for k := 0; k < 2; k++ {
				d2 := make(chan struct{})
				go func() {
					defer close(d2)
					w := encode(cs)
					if w.err == nil {
						decode(cs, &w, cs.Sizes, cs.Cycle)
					}
				}()
				select {
				case <-d2:
				case <-time.After(limit):
					hung++
				}
			}
			if hung == 3 {
				c.r.Violation("does-not-return", fmt.Sprintf("writing+reading an in-memory stream did not return within %v, 3 times out of 3: %s", limit, cs.String()), cs)
			} else {
				c.r.NotExhaustive(fmt.Sprintf("watchdog: %s stalled for %v once, did not reproduce (%d/3)", cs.String(), limit, hung))
			}
			return
		}
	}
}
