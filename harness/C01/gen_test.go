package c01

import (
	"fmt"

	"go.minekube.com/gate/pkg/edition/java/proxy/zzverif/vrt"
)

const (
	secret1 = "000102030405060708090a0b0c0d0e0f"
	secret2 = "ffeeddccbbaa99887766554433221100"
)

type chunking struct {
	name         string
	sizes, cycle []int
}

// chunkings of a stream of n bytes whose frames end at ends[]:
//   - n <= 24 (thorough: 40): EVERY split of the stream into at most 3 reads
//   - longer: one read; 1-byte reads (streams <= 70000 bytes, thorough: all); a cut at every frame end -1/0/+1;
//     4096-byte reads; a Fibonacci cycle of small reads; and (quick: only streams <= 256 KiB) cuts inside the
//     first length prefix, four 1-byte reads first, 4095/4097-byte reads
func chunkings(n int, ends []int, thorough bool) (out []chunking) {
	add := func(name string, sizes, cycle []int) {
		out = append(out, chunking{name, sizes, cycle})
	}
	add("whole", nil, nil)
	if n == 0 {
		return
	}
	all := 24
	if thorough {
		all = 40
	}
	if n <= all {
		for i := 1; i < n; i++ {
			add(fmt.Sprintf("split2@%d", i), []int{i}, nil)
			for j := i + 1; j < n; j++ {
				add(fmt.Sprintf("split3@%d,%d", i, j), []int{i, j - i}, nil)
			}
		}
		add("bytewise", nil, []int{1})
		return
	}
	if n <= 70000 || thorough {
		add("bytewise", nil, []int{1})
	}
	seen := map[int]bool{}
	cut := func(label string, at int) {
		if at > 0 && at < n && !seen[at] {
			seen[at] = true
			add(fmt.Sprintf("%s@%d", label, at), []int{at}, nil)
		}
	}
	for _, e := range ends {
		cut("frame-end-1", e-1)
		cut("frame-end", e)
		cut("frame-end+1", e+1)
	}
	add("cycle4096", nil, []int{4096})
	add("fib", nil, []int{1, 2, 3, 5, 8, 13, 21, 34, 55, 89, 144})
	if n > 256<<10 && !thorough {
		return // quick tier: MiB-sized streams get the six chunkings above
	}
	for _, k := range []int{1, 2, 3, 4} {
		cut("prefix-cut", k)
	}
	add("first-bytes-single", []int{1, 1, 1, 1}, nil)
	add("cycle4095", nil, []int{4095})
	add("cycle4097", nil, []int{4097})
	return
}

func hasZero(seq []int) bool {
	for _, v := range seq {
		if v == 0 {
			return true
		}
	}
	return false
}

func dedup(in []int) []int {
	seen := map[int]bool{}
	var out []int
	for _, v := range in {
		if v >= 0 && !seen[v] {
			seen[v] = true
			out = append(out, v)
		}
	}
	return out
}

func levels(r *vrt.R, threshold int) []int {
	if threshold < 0 {
		return []int{-1} // never used
	}
	if r.Thorough() {
		return []int{-1, 0, 1, 2, 3, 4, 5, 6, 7, 8, 9}
	}
	return []int{-1, 0, 6}
}

func enumerate(r *vrt.R, emit func(*caseSpec) bool) {
	if !enumSmall(r, emit) || !enumLarge(r, emit) || !enumSwitch(r, emit) || !enumPacketLayer(r, emit) || !enumBuffers(r, emit) {
		return
	}
}

// small payloads around the threshold and the 1->2 byte VarInt border: full product
func enumSmall(r *vrt.R, emit func(*caseSpec) bool) bool {
	maxLen := 2
	if r.Thorough() {
		maxLen = 3
	}
	dirs := []string{"serverbound"}
	if r.Thorough() {
		dirs = []string{"serverbound", "clientbound"}
	}
	for _, t := range []int{-1, 0, 1, 64, 256} {
		sizes := dedup([]int{0, 1, 2, t - 1, t, t + 1, 127, 128})
		var seqs [][]int
		var rec func(cur []int)
		rec = func(cur []int) {
			if len(cur) > 0 {
				seqs = append(seqs, append([]int(nil), cur...))
			}
			if len(cur) == maxLen {
				return
			}
			for _, s := range sizes {
				rec(append(cur, s))
			}
		}
		rec(nil)
		for _, dir := range dirs {
			lvls := levels(r, t)
			if !r.Thorough() && t >= 0 {
				lvls = []int{-1, 0, 6, 1, 9} // 1 and 9 (the ends of the range): single payloads only, see below
			}
			for _, lvl := range lvls {
				for _, mode := range []struct{ sec, via string }{{"", ""}, {secret1, ""}, {secret2, ""}, {"", "packet"}, {secret1, "packet"}} {
					for _, seq := range seqs {
						if mode.via == "packet" && hasZero(seq) {
							continue // a packet always has its id byte
						}
						if !r.Thorough() && (lvl == 1 || lvl == 9) && len(seq) > 1 {
							continue
						}
						for _, kind := range []string{"rep", "lcg"} {
							cs := &caseSpec{Dir: dir, Threshold: t, Level: lvl, Secret: mode.sec, Via: mode.via}
							for _, s := range seq {
								cs.Steps = append(cs.Steps, step{Size: s, Content: kind})
							}
							if !emit(cs) {
								return false
							}
						}
					}
				}
			}
		}
	}
	return true
}

// large payloads: VarInt borders 2^14, the 32 KiB/64 KiB deflate borders, threshold 2^20, and the top of the
// domain 2^21-1 where an incompressible payload no longer fits a 21-bit frame once zlib has expanded it
func enumLarge(r *vrt.R, emit func(*caseSpec) bool) bool {
	const M = 1 << 20
	sizes := []int{16383, 16384, 65536, M, 2*M - 1000, 2*M - 1}
	thresholds := []int{-1, 0, 256, M}
	secrets := []string{""}
	dirs := []string{"serverbound", "clientbound"}
	if r.Thorough() {
		sizes = []int{16383, 16384, 32768, 65535, 65536, M - 1, M, M + 1, 2*M - 1000, 2*M - 200, 2*M - 18, 2*M - 2, 2*M - 1}
		secrets = []string{"", secret1}
	}
	n := 0
	for _, size := range sizes {
		for _, t := range thresholds {
			if t == M && size < M-1 {
				continue
			}
			for _, lvl := range levels(r, t) {
				for _, kind := range []string{"rep", "lcg"} {
					for _, sec := range secrets {
						n++
						dir := dirs[n%2]
						via := []string{"", "packet"}[(n/2)%2] // large cases alternate between the two writer entry points
						cs := &caseSpec{Dir: dir, Threshold: t, Level: lvl, Secret: sec, Via: via, Steps: []step{{Size: size, Content: kind}, {Size: 3, Content: "rep"}}}
						if !emit(cs) {
							return false
						}
					}
				}
			}
		}
	}
	// quick tier: encryption over a large stream, a few representatives
	if !r.Thorough() {
		for _, size := range []int{65536, 2*M - 1000} {
			for _, t := range []int{-1, 256} {
				cs := &caseSpec{Dir: "clientbound", Threshold: t, Level: -1, Secret: secret1, Steps: []step{{Size: size, Content: "rep"}, {Size: 3, Content: "lcg"}}}
				if !emit(cs) {
					return false
				}
			}
		}
	}
	return true
}

// settings switched in mid-stream, as the login sequence does (SetCompression, then encryption or the
// other way round): the switch happens on both sides after the same frame. Both flush policies: after
// every payload, and once at the end (switching while earlier frames still sit in the write buffer).
func enumSwitch(r *vrt.R, emit func(*caseSpec) bool) bool {
	sizes := []int{1, 64, 300}
	thr := []int{-1, 0, 64, 256}
	kinds := []string{"rep"}
	if r.Thorough() {
		kinds = []string{"rep", "lcg"}
	}
	mk := func(dir string, seq []int, kind string, k, a int, sec string, flushAtEnd bool, setThr *int, encrypt string) *caseSpec {
		cs := &caseSpec{Dir: dir, Threshold: a, Level: -1, Secret: sec, FlushAtEnd: flushAtEnd}
		for i, s := range seq {
			st := step{Size: s, Content: kind}
			if i == k {
				st.SetThreshold, st.Encrypt = setThr, encrypt
			}
			cs.Steps = append(cs.Steps, st)
		}
		return cs
	}
	for _, s0 := range sizes {
		for _, s1 := range sizes {
			for _, s2 := range sizes {
				seq := []int{s0, s1, s2}
				for _, kind := range kinds {
					for k := 1; k <= 2; k++ {
						for _, a := range thr {
							for _, fl := range []bool{false, true} {
								// threshold a -> b before payload k, with and without encryption from the start
								for _, b := range thr {
									if a == b {
										continue
									}
									for _, sec := range []string{"", secret1} {
										bb := b
										if !emit(mk("serverbound", seq, kind, k, a, sec, fl, &bb, "")) {
											return false
										}
									}
								}
								// encryption enabled before payload k (threshold a throughout) ...
								if !emit(mk("clientbound", seq, kind, k, a, "", fl, nil, secret2)) {
									return false
								}
								// ... and together with a threshold switch
								bb := 64
								if a == 64 {
									bb = 0
								}
								if !emit(mk("clientbound", seq, kind, k, a, "", fl, &bb, secret2)) {
									return false
								}
							}
						}
					}
				}
			}
		}
	}
	return true
}

// the packet layer around the frames: every 3-step sequence over the six ways a payload can be handed to the
// writer (two of them succeed through different entry points, one makes the READER take its "packet decoder
// left bytes" path, three fail inside WritePacket), so that every failing or lazy step is met before, between
// and after good ones. Both flush policies, encryption off/on, three thresholds; with logging switched on for
// the plain/flush-each slice (thorough: everywhere).
func enumPacketLayer(r *vrt.R, emit func(*caseSpec) bool) bool {
	vias := []string{"write", "packet", "lazy", "fail-error", "fail-panic", "unregistered"}
	patterns := []struct {
		sizes [3]int
		kind  string
	}{{[3]int{70, 300, 5}, "lcg"}, {[3]int{300, 5, 70}, "rep"}}
	n := 0
	for _, v0 := range vias {
		for _, v1 := range vias {
			for _, v2 := range vias {
				if v0 == v1 && v1 == v2 && (v0 == "write" || v0 == "packet") {
					continue // enumSmall/enumSwitch territory
				}
				for _, pat := range patterns {
					for _, t := range []int{-1, 0, 64} {
						for _, sec := range []string{"", secret1} {
							for _, fl := range []bool{false, true} {
								for _, lg := range []bool{false, true} {
									if lg && !r.Thorough() && (sec != "" || fl) {
										continue
									}
									n++
									cs := &caseSpec{Dir: []string{"serverbound", "clientbound"}[n%2], Threshold: t, Level: -1, Secret: sec, FlushAtEnd: fl, Log: lg}
									for i, v := range []string{v0, v1, v2} {
										cs.Steps = append(cs.Steps, step{Size: pat.sizes[i], Content: pat.kind, Via: v})
									}
									if !emit(cs) {
										return false
									}
								}
							}
						}
					}
				}
			}
		}
	}
	return true
}

// the 4096-byte buffers between the codec and the connection (bufio.Writer under the encoder, bufio.Reader under
// the decoder): payload sizes that make a frame end just below / exactly at / just above the buffer size (with
// the 2-byte length prefix, +1 data-length byte under compression), alone, before and after a small payload and
// twice in a row; flushed after every payload or only once at the end, so that the write buffer overflows in the
// middle of a frame while earlier frames are still in it. Plain and encrypted, compression off / threshold above
// and below the size.
func enumBuffers(r *vrt.R, emit func(*caseSpec) bool) bool {
	n := 0
	for _, s := range []int{4090, 4091, 4092, 4093, 4094, 4095, 4096, 4097, 4098, 8190, 8192} {
		for _, seq := range [][]int{{s}, {s, 3}, {3, s}, {s, s}, {3000, 200, s}} {
			for _, t := range []int{-1, 256, 1 << 20} {
				for _, sec := range []string{"", secret1} {
					for _, fl := range []bool{false, true} {
						for _, kind := range []string{"rep", "lcg"} {
							if t == 256 && kind == "rep" && len(seq) > 2 {
								continue // compresses to a few bytes: nothing near the buffer size
							}
							n++
							cs := &caseSpec{Dir: []string{"serverbound", "clientbound"}[n%2], Threshold: t, Level: -1, Secret: sec, FlushAtEnd: fl,
								Via: []string{"", "packet"}[(n/2)%2]}
							for _, sz := range seq {
								cs.Steps = append(cs.Steps, step{Size: sz, Content: kind})
							}
							if !emit(cs) {
								return false
							}
						}
					}
				}
			}
		}
	}
	return true
}
