package proxy

// C10: offline identities match vanilla and only valid usernames are admitted.
//
// Engine enum, on the real chain handshakeSessionHandler -> initialLoginSessionHandler ->
// authSessionHandler of a fresh real Proxy in offline mode (kit_test.go), one fresh session per
// username. Reference (independent of the code under test):
//   - admission predicate from the statement: 2..16 characters, each in A-Z a-z 0-9 _
//   - vanilla's UUID.nameUUIDFromBytes("OfflinePlayer:"+name): MD5, version 3, IETF variant,
//     built with integer arithmetic on the two 64-bit halves and pinned by published values.

import (
	"bytes"
	"crypto/md5"
	"encoding/binary"
	"encoding/hex"
	"fmt"
	"strings"
	"testing"

	"github.com/go-logr/logr"
	"go.minekube.com/gate/pkg/edition/java/config"
	"go.minekube.com/gate/pkg/edition/java/proto/packet"
	"go.minekube.com/gate/pkg/edition/java/proto/state"
	"go.minekube.com/gate/pkg/edition/java/proto/version"
	"go.minekube.com/gate/pkg/edition/java/proxy/zzverif/vrt"
	"go.minekube.com/gate/pkg/gate/proto"
	"go.minekube.com/gate/pkg/util/netutil"
	"go.minekube.com/gate/pkg/util/uuid"
)

func refOfflineUUID(name string) uuid.UUID {
	sum := md5.Sum(append([]byte("OfflinePlayer:"), name...))
	hi := binary.BigEndian.Uint64(sum[0:8])
	lo := binary.BigEndian.Uint64(sum[8:16])
	hi = hi&^uint64(0xF000) | 0x3000                         // version 3 in time_hi_and_version
	lo = lo&^(uint64(3)<<62) | uint64(2)<<62                 // variant 10x
	var out uuid.UUID
	binary.BigEndian.PutUint64(out[0:8], hi)
	binary.BigEndian.PutUint64(out[8:16], lo)
	return out
}

func refNameOK(name string) bool {
	if len(name) < 2 || len(name) > 16 { // every admissible character is one byte
		return false
	}
	for i := 0; i < len(name); i++ {
		c := name[i]
		if !(c >= 'A' && c <= 'Z' || c >= 'a' && c <= 'z' || c >= '0' && c <= '9' || c == '_') {
			return false
		}
	}
	return true
}

type c10Replay struct {
	Kind  string `json:"kind"` // uuid | login
	Name  string `json:"name_hex"`
	Path  string `json:"path,omitempty"`  // handler | wire
	Proto int    `json:"proto,omitempty"` // protocol number
	Fwd   string `json:"forwarding,omitempty"`
	// Variant: "" = offline-mode proxy; online | online+force-offline | offline+force-online (PreLoginEvent
	// result) | key (1.19.x client with a valid profile key) | no-force-key (forceKeyAuthentication: false)
	Variant string `json:"variant,omitempty"`
	// Holder: the profile id the CLIENT announces in its login start (1.19.1+): "" = absent / nil UUID,
	// correct = the vanilla offline UUID, foreign = another player's offline UUID, ones = ff..ff
	Holder string `json:"holder,omitempty"`
}

// announcedID is the profile id a client writes into its login start.
func announcedID(kind, name string) uuid.UUID {
	switch kind {
	case "correct":
		return refOfflineUUID(name)
	case "foreign":
		if name == "Notch" {
			return refOfflineUUID("jeb_")
		}
		return refOfflineUUID("Notch")
	case "ones":
		var u uuid.UUID
		for i := range u {
			u[i] = 0xff
		}
		return u
	}
	return uuid.Nil
}

// refBackendWireLogin is the ServerLogin a keyless player's backend must receive, by protocol era.
func refBackendWireLogin(name string, id uuid.UUID, protocol proto.Protocol) []byte {
	full := refWireLogin(name, id) // VarInt length, name, 16-byte UUID
	nameOnly := full[:len(full)-16]
	switch {
	case protocol.GreaterEqual(version.Minecraft_1_20_2):
		return full
	case protocol.GreaterEqual(version.Minecraft_1_19_3): // optional UUID
		return append(append(append([]byte{}, nameOnly...), 1), id[:]...)
	case protocol.GreaterEqual(version.Minecraft_1_19_1): // no key, no UUID
		return append(append([]byte{}, nameOnly...), 0, 0)
	case protocol.GreaterEqual(version.Minecraft_1_19): // no key
		return append(append([]byte{}, nameOnly...), 0)
	}
	return append([]byte{}, nameOnly...)
}

// backendSees opens the backend login of the admitted player through the real
// serverConnection.startHandshake on a recording backend connection (forwarding none) and checks
// the identity the backend is given: the username it derives the offline UUID from and, where the
// protocol carries one, the UUID itself.
func (h *c10) backendSees(pl Player, name string, wantID uuid.UUID, protocol proto.Protocol, keyed bool, rp c10Replay) {
	r := h.r
	cp, ok := pl.(*connectedPlayer)
	if !ok {
		r.Violation("harness/player-type", fmt.Sprintf("%T", pl), rp)
		return
	}
	target := newRegisteredServer(NewServerInfo("backend", netutil.NewAddr("127.0.0.1:25566", "tcp")))
	backend := newKitConn("backend", protocol)
	backend.AddSessionHandler(state.Login, nopSessionHandler{})
	sc := &serverConnection{server: target, player: cp, log: logr.Discard(), connection: backend}
	resultChan := make(chan *connResponse, 1)
	resultChan <- &connResponse{}
	var err error
	if p, v := vrt.Catch(func() { _, err = sc.startHandshake(func() {}, resultChan) }); p {
		r.Violation("backend-login/panic", fmt.Sprintf("name %q: %v", name, v), rp)
		return
	}
	if err != nil {
		r.Violation("backend-login/error", fmt.Sprintf("name %q: %v", name, err), rp)
		return
	}
	var sl *packet.ServerLogin
	n := 0
	for _, p := range backend.packets() {
		if t, ok := p.(*packet.ServerLogin); ok {
			sl = t
			n++
		}
	}
	if n != 1 {
		r.Violation("backend-login/server-login-count", fmt.Sprintf("name %q: backend got %d ServerLogin packets: %s", name, n, backend.trace()), rp)
		return
	}
	r.Class("backend-login:observed")
	if sl.Username != name {
		r.Violation("backend-login/username-differs", fmt.Sprintf("name %q: backend is told %q (its offline UUID would be %s, not %s)", name, sl.Username, refOfflineUUID(sl.Username), wantID), rp)
		return
	}
	if keyed {
		return // a 1.19.x profile key travels instead of the UUID
	}
	if sl.HolderID != uuid.Nil && sl.HolderID != wantID {
		r.Violation("backend-login/uuid-not-offline-uuid", fmt.Sprintf("name %q proto %d: backend ServerLogin carries %s, vanilla offline UUID is %s", name, protocol, sl.HolderID, wantID), rp)
		return
	}
	var buf bytes.Buffer
	if e := sl.Encode(&proto.PacketContext{Direction: proto.ServerBound, Protocol: protocol}, &buf); e != nil {
		r.Violation("backend-login/encode", fmt.Sprintf("name %q: %v", name, e), rp)
		return
	}
	if want := refBackendWireLogin(name, wantID, protocol); !bytes.Equal(buf.Bytes(), want) {
		r.Violation("backend-login/wire-identity-differs", fmt.Sprintf("name %q proto %d: backend receives % x, expected % x (name + offline UUID %s)", name, protocol, buf.Bytes(), want, wantID), rp)
	}
}

type c10 struct {
	r    *vrt.R
	seen map[string]bool
}

func (h *c10) checkUUID(name string) {
	h.r.Eval(1)
	want := refOfflineUUID(name)
	got := uuid.OfflinePlayerUUID(name)
	if got != want {
		h.r.Violation("OfflinePlayerUUID/differs-from-vanilla", fmt.Sprintf("name %q: got %s, vanilla nameUUIDFromBytes gives %s", name, got, want), c10Replay{Kind: "uuid", Name: hex.EncodeToString([]byte(name))})
	}
}

func nameClass(name string) string {
	switch {
	case len(name) == 0:
		return "name:empty"
	case refNameOK(name):
		return fmt.Sprintf("name:valid-len-%d", len(name))
	case strings.IndexFunc(name, func(r rune) bool { return r > 0x7F }) >= 0:
		return "name:non-ascii"
	case len(name) == 1:
		return "name:len-1"
	case len(name) > 16:
		return "name:too-long"
	default:
		return "name:ascii-invalid-char"
	}
}

// refWireLogin encodes a 1.20.2+ ServerLogin by hand: VarInt byte length, UTF-8 bytes, 16-byte UUID.
func refWireLogin(name string, id uuid.UUID) []byte {
	var b bytes.Buffer
	n := uint32(len(name))
	for {
		if n&^0x7F == 0 {
			b.WriteByte(byte(n))
			break
		}
		b.WriteByte(byte(n&0x7F) | 0x80)
		n >>= 7
	}
	b.WriteString(name)
	b.Write(id[:])
	return b.Bytes()
}

// login runs one username through a fresh session and checks admission + identity.
func (h *c10) login(name, path string, protocol proto.Protocol, fwd config.ForwardingMode, count bool) {
	h.loginV(name, path, protocol, fwd, "", count)
}

func (h *c10) loginV(name, path string, protocol proto.Protocol, fwd config.ForwardingMode, variant string, count bool) {
	h.loginH(name, path, protocol, fwd, variant, "", count)
}

func (h *c10) loginH(name, path string, protocol proto.Protocol, fwd config.ForwardingMode, variant, holder string, count bool) {
	r := h.r
	r.Eval(1)
	rp := c10Replay{Kind: "login", Name: hex.EncodeToString([]byte(name)), Path: path, Proto: int(protocol), Fwd: string(fwd), Variant: variant, Holder: holder}
	if holder != "" {
		r.Class("client-announced-id:" + holder)
	}
	cfg := kitConfig()
	cfg.OnlineMode = strings.HasPrefix(variant, "online")
	cfg.Forwarding.Mode = fwd
	if variant == "no-force-key" {
		cfg.ForceKeyAuthentication = false
	}
	// does the player end up with an offline identity, or is it sent to authenticate (encryption request)?
	wantsEncryption := variant == "online" || variant == "offline+force-online"
	s := newKitSession(cfg, protocol)
	switch variant {
	case "online+force-offline":
		kitOn(s.Events, func(e *PreLoginEvent) { e.ForceOfflineMode() })
	case "offline+force-online":
		kitOn(s.Events, func(e *PreLoginEvent) { e.ForceOnlineMode() })
	}
	if variant != "" {
		r.Class("variant:" + variant)
	}
	s.handshake()
	if _, ok := s.Conn.active.(*initialLoginSessionHandler); !ok {
		r.Violation("harness/handshake-did-not-reach-login", s.Conn.trace(), rp)
		return
	}
	// observe the registry at the moment the proxy announces the login as complete
	var registeredAtLogin Player
	var postLoginID uuid.UUID
	kitOn(s.Events, func(e *PostLoginEvent) {
		postLoginID = e.Player().ID()
		registeredAtLogin = s.Proxy.Player(e.Player().ID())
	})

	login := &packet.ServerLogin{Username: name, HolderID: announcedID(holder, name)}
	if variant == "key" {
		login.PlayerKey = &kitClientKey{mojangValid: true}
	}
	decodeRejected := false
	if path == "wire" {
		login = &packet.ServerLogin{}
		err := login.Decode(&proto.PacketContext{Direction: proto.ServerBound, Protocol: protocol}, bytes.NewReader(refWireLogin(name, announcedID(holder, name))))
		if err != nil {
			decodeRejected = true // the read loop drops the connection on a decode error: not admitted
		} else if login.Username != name {
			r.Violation("ServerLogin.Decode/username-altered", fmt.Sprintf("sent %q decoded %q", name, login.Username), rp)
			return
		} else if holder != "" && login.HolderID != announcedID(holder, name) {
			r.NotExhaustive("harness: the announced profile id did not survive ServerLogin.Decode, the holder dimension is not driven on the wire path")
		}
	}
	var pan any
	if !decodeRejected {
		_, pan = s.Conn.deliver(login)
	}
	if pan != nil {
		r.Violation("login/panic", fmt.Sprintf("name %q: handler panicked: %v\n%s", name, pan, s.Conn.trace()), rp)
		return
	}

	want := refNameOK(name)
	wantID := refOfflineUUID(name)
	var success *packet.ServerLoginSuccess
	nSuccess := 0
	var disconnect *packet.Disconnect
	nEncReq := 0
	for _, p := range s.Conn.packets() {
		switch t := p.(type) {
		case *packet.ServerLoginSuccess:
			success = t
			nSuccess++
		case *packet.Disconnect:
			disconnect = t
		case *packet.EncryptionRequest:
			nEncReq++
		}
	}
	pre1202 := protocol.Lower(version.Minecraft_1_20_2)
	var registered Player
	if pre1202 {
		registered = registeredAtLogin // the player is kicked afterwards: no backend is configured
	} else {
		registered = s.Proxy.Player(wantID)
	}
	admitted := success != nil || registered != nil || s.Proxy.PlayerCount() > 0 || nEncReq > 0
	if count {
		r.Class(nameClass(name))
		if want {
			r.Class("outcome:admitted-expected")
		} else {
			r.Class("outcome:rejected-expected")
		}
		k := path + "|" + name
		if !h.seen[k] {
			h.seen[k] = true
			if len(name) >= 2 {
				r.Nontrivial(1)
			}
		}
	}
	switch {
	case want && !admitted:
		r.Violation("login/valid-username-rejected", fmt.Sprintf("name %q (%s, proto %d) satisfies 2-16 x [A-Za-z0-9_] but was not admitted; conn: %s", name, path, protocol, s.Conn.trace()), rp)
		return
	case !want && admitted:
		r.Violation("login/invalid-username-admitted", fmt.Sprintf("name %q (%x, %s, proto %d) violates 2-16 x [A-Za-z0-9_] but login success=%v registered=%v; conn: %s", name, name, path, protocol, success != nil, registered != nil, s.Conn.trace()), rp)
		return
	}
	if !want {
		// rejected: the client must have been told and the connection closed (handler path)
		if !decodeRejected {
			if !s.Conn.closed {
				r.Violation("login/invalid-username-left-open", fmt.Sprintf("name %q rejected but the connection stays open; conn: %s", name, s.Conn.trace()), rp)
			} else if disconnect != nil {
				r.Class("outcome:rejected-with-disconnect-packet")
			}
		}
		return
	}
	if wantsEncryption || nEncReq != 0 {
		// the name passed the username check and the client is asked to authenticate: this is not an
		// offline-mode player, the statement's identity clauses do not apply (the login outcome is C08's subject)
		r.Class("outcome:passed-check-sent-to-authentication")
		return
	}
	// admitted: identity checks
	if nSuccess != 1 {
		r.Violation("login/login-success-count", fmt.Sprintf("name %q: %d ServerLoginSuccess packets; conn: %s", name, nSuccess, s.Conn.trace()), rp)
		return
	}
	if success.Username != name {
		r.Violation("login/success-username-differs", fmt.Sprintf("name %q: ServerLoginSuccess.Username=%q", name, success.Username), rp)
	}
	if success.UUID != wantID {
		r.Violation("login/success-uuid-not-offline-uuid", fmt.Sprintf("name %q forwarding=%s: ServerLoginSuccess.UUID=%s, vanilla offline UUID=%s", name, fwd, success.UUID, wantID), rp)
	}
	if registered == nil {
		r.Violation("login/admitted-but-not-registered-under-offline-uuid", fmt.Sprintf("name %q: Proxy.Player(%s) is nil at login completion (PostLogin saw id %s)", name, wantID, postLoginID), rp)
		return
	}
	// this is the id the backend connection announces (ServerLogin.HolderID) and the name it logs in with
	if registered.ID() != wantID || registered.Username() != name {
		r.Violation("login/player-identity-differs", fmt.Sprintf("name %q: player id=%s username=%q want id=%s", name, registered.ID(), registered.Username(), wantID), rp)
	}
	if registered.OnlineMode() {
		r.Violation("login/offline-player-marked-online", fmt.Sprintf("name %q", name), rp)
	}
	if fwd == config.NoneForwardingMode {
		h.backendSees(registered, name, wantID, protocol, variant == "key", rp)
	}
}

func TestVerif(t *testing.T) {
	vrt.Run(t, "C10", func(r *vrt.R) {
		h := &c10{r: r, seen: map[string]bool{}}

		var rp c10Replay
		if r.ReplayInto(&rp) {
			nb, _ := hex.DecodeString(rp.Name)
			if rp.Kind == "uuid" {
				h.checkUUID(string(nb))
			} else {
				h.loginH(string(nb), rp.Path, proto.Protocol(rp.Proto), config.ForwardingMode(rp.Fwd), rp.Variant, rp.Holder, false)
			}
			return
		}

		// the reference itself is pinned by values published for vanilla / Bukkit offline servers
		if got := refOfflineUUID("Notch").String(); got != "b50ad385-829d-3141-a216-7e7d7539ba7f" {
			t.Fatalf("reference offline UUID for Notch = %s, published b50ad385-829d-3141-a216-7e7d7539ba7f", got)
		}

		syms := []string{"A", "z", "0", "9", "_", "-", " ", ".", "é", "ß", "\x00", "\n", "😀", "Ａ"}
		// characters adjacent to the three admitted ranges and the underscore
		edges := []string{"@", "[", "`", "{", "/", ":", "^", "Z", "a", "\x7f", "\xff", "\xc3", "ǅ", "К", "٣", "０"}
		maxLen := 3
		if r.Thorough() {
			maxLen = 4
			syms = append(syms, "Z", "a", "@", "[")
		}

		// ---- all strings of length 0..maxLen over the alphabet ----
		var names []string
		var gen func(prefix string, n int)
		gen = func(prefix string, n int) {
			names = append(names, prefix)
			if n == 0 {
				return
			}
			for _, s := range syms {
				gen(prefix+s, n-1)
			}
		}
		gen("", maxLen)
		// ---- boundary lengths of every symbol, and one foreign symbol at every position of a valid name ----
		all := append(append([]string{}, syms...), edges...)
		for _, s := range all {
			for _, l := range []int{1, 2, 3, 15, 16, 17, 18, 32, 64} {
				names = append(names, strings.Repeat(s, l))
			}
		}
		base := "Abcdefghij_01234Z" // 17 chars
		for _, l := range []int{2, 3, 15, 16, 17} {
			b := base[:l]
			names = append(names, b)
			for pos := 0; pos < l; pos++ {
				for _, s := range all {
					names = append(names, b[:pos]+s+b[pos+1:])
				}
			}
			// a trailing / leading foreign symbol (anchoring of the check)
			for _, s := range all {
				names = append(names, b+s, s+b)
			}
		}
		// ---- every rune of the Basic Latin / Latin-1 / Latin Extended-A blocks in the middle, front and end ----
		hiRune := rune(0x17F)
		if r.Thorough() {
			hiRune = 0x2FFF
		}
		for c := rune(0); c <= hiRune; c++ {
			names = append(names, "a"+string(c)+"b", string(c)+"ab", "ab"+string(c), string(c)+string(c))
		}
		// ---- runes beyond Latin Extended-A that case-fold, normalise or render to an admitted character, invisible and
		// directional characters, and malformed encodings of admitted characters (quantifier: "Unicode") ----
		for _, c := range []string{
			"\u212a", "\u017f", "\u0130", "\u0131", "\u2126", "\u00b5", "\u1e9e", // Kelvin, long s, dotted/dotless i, Ohm, micro, capital sharp s
			"\uff3f", "\uff10", "\uff19", "\uff21", "\uff5a", "\u0391", "\u0410", "\u0430", "\u0661", "\u09e7", "\u2170", "\u24d0", // full-width _, 0, 9, A, z; Greek/Cyrillic A a; other digits; roman numeral; circled a
			"\U0001d400", "\U0001d7ce", "\U0001f1e6", // mathematical bold A, bold 0, regional indicator A
			"a\u0301", "\u0301", "\u200b", "\u200c", "\u200d", "\u2060", "\ufeff", "\u00ad", "\u202e", "\u202d", "\u2028", "\u2029", "\u0085", "\u3000", // combining, zero-width, BOM, soft hyphen, bidi overrides, separators
			"\ufffd", "\ufffe", "\uffff", "\ue000", "\U0010ffff", // replacement, non-characters, private use, last code point
			"\xc1\x81", "\xe0\x81\x81", "\xc0\x80", "\xed\xa0\x80", "\xf4\x90\x80\x80", "\xe2\x84", // overlong 'A', overlong NUL, surrogate, > U+10FFFF, truncated Kelvin
		} {
			names = append(names, "a"+c+"b", c+"ab", "ab"+c, c+c, "Steve"+c, c+"Abcdefghij_0123", "Abcdefghij_0123"+c)
		}
		for b := 0x80; b <= 0xFF; b++ { // lone bytes: invalid UTF-8
			names = append(names, "a"+string([]byte{byte(b)})+"b")
		}

		if r.Shard == 0 {
			r.Extra("usernames_enumerated", len(names))
		}
		p1202 := version.Minecraft_1_20_2.Protocol
		for i, name := range names {
			if !r.Mine(i) {
				continue
			}
			if i%512 == 0 && r.Expired() {
				return
			}
			h.checkUUID(name)
			h.login(name, "handler", p1202, config.NoneForwardingMode, true)
			if len(name) > 0 {
				h.login(name, "wire", p1202, config.NoneForwardingMode, false)
			}
			// the username check does not depend on the proxy's online mode: same names, online-mode proxy
			h.loginV(name, "handler", p1202, config.NoneForwardingMode, "online", false)
			// other forwarding modes and the pre-1.20.2 completion path on a thinner slice
			if i%7 == 0 || refNameOK(name) {
				h.loginV(name, "handler", p1202, config.NoneForwardingMode, "online+force-offline", false)
				h.loginV(name, "handler", p1202, config.NoneForwardingMode, "offline+force-online", false)
				h.loginV(name, "handler", version.Minecraft_1_19_1.Protocol, config.NoneForwardingMode, "key", false)
				h.loginV(name, "handler", version.Minecraft_1_19_1.Protocol, config.NoneForwardingMode, "no-force-key", false)
				h.loginV(name, "handler", version.Minecraft_1_19.Protocol, config.NoneForwardingMode, "no-force-key", false)
				h.login(name, "handler", p1202, config.LegacyForwardingMode, false)
				h.login(name, "handler", version.Minecraft_1_8.Protocol, config.NoneForwardingMode, false)
				h.login(name, "handler", version.Minecraft_1_19_3.Protocol, config.NoneForwardingMode, false)
				// the other protocol gates of the login completion / backend login: 1.7.x, 1.13, 1.20.1 (last optional-id), 1.20.5, newest
				for _, v := range []*proto.Version{version.Minecraft_1_7_6, version.Minecraft_1_13, version.Minecraft_1_20, version.Minecraft_1_20_5, version.MaximumVersion} {
					if refNameOK(name) || i%49 == 0 {
						h.login(name, "handler", v.Protocol, config.NoneForwardingMode, false)
					}
				}
			}
			// the profile id the client announces in its login start (optional 1.19.1-1.20.1, always from 1.20.2) must
			// not influence the offline identity; absent / nil is what all runs above send
			if refNameOK(name) || i%61 == 0 {
				for _, holder := range []string{"correct", "foreign", "ones"} {
					h.loginH(name, "handler", p1202, config.NoneForwardingMode, "", holder, false)
					h.loginH(name, "handler", version.Minecraft_1_19_3.Protocol, config.NoneForwardingMode, "", holder, false)
					h.loginH(name, "handler", p1202, config.NoneForwardingMode, "online+force-offline", holder, false)
				}
				h.loginH(name, "wire", p1202, config.NoneForwardingMode, "", "foreign", false)
				h.loginH(name, "handler", version.Minecraft_1_19_1.Protocol, config.NoneForwardingMode, "no-force-key", "foreign", false)
				h.loginH(name, "handler", p1202, config.LegacyForwardingMode, "", "foreign", false)
			}
		}
	})
}
