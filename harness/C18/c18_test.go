package proxy

// C18 - keep-alive replies reach only the backend that asked, once.
//
// Part B (engine bfs): histories over {backend i sends keep-alive id k, client replies k, backend A
// floods 65 distinct ids, backend state changes, backend closes, in-flight backend is promoted} on two
// REAL serverConnections (A = current, B = in flight) with recording backend conns; client replies go
// through the real clientPlaySessionHandler.HandlePacket. Reference model = counters written from the
// statement: forwards[i][k] <= sends[i][k] at all times, a forward happens only while backend i is in
// CONFIG or PLAY, at most one write per reply, a reply whose id no backend ever sent is dropped.
//
// Part A (engine sched): the same seams with 2-3 threads (concurrent replies of the same id, reply vs.
// re-send, reply vs. promotion, reply vs. flood) under every interleaving within the preemption bound;
// whole-package instrumentation of proxy + netmc.

import (
	"encoding/binary"
	"encoding/json"
	"fmt"
	"net"
	"os"
	"reflect"
	"sort"
	"strings"
	"testing"
	"time"
	"unsafe"

	"github.com/dboslee/lru"
	"github.com/go-logr/logr"

	"go.minekube.com/gate/pkg/edition/java/config"
	"go.minekube.com/gate/pkg/edition/java/proto/packet"
	"go.minekube.com/gate/pkg/edition/java/proto/state"
	"go.minekube.com/gate/pkg/edition/java/proto/version"
	"go.minekube.com/gate/pkg/edition/java/proxy/phase"
	"go.minekube.com/gate/pkg/edition/java/proxy/zzverif/bfs"
	"go.minekube.com/gate/pkg/edition/java/proxy/zzverif/sched"
	"go.minekube.com/gate/pkg/edition/java/proxy/zzverif/schedrun"
	"go.minekube.com/gate/pkg/edition/java/proxy/zzverif/vrt"
	"go.minekube.com/gate/pkg/gate/proto"
)

// ---------- world ----------

type kaWrite struct {
	id    int64
	state string
}

type kaBackend struct {
	name   string
	sc     *serverConnection
	conn   *vconn
	writes []kaWrite // keep-alives written to this backend, with the conn state at write time
	other  int       // anything else written
	sends  map[int64]int
	via    map[string]int // which real backend handler received the keep-alives
}

type kaWorld struct {
	rig    string // "play": client in PLAY, A current, B in flight; "config": client in CONFIG (1.20.2+ switch), same roles; "join": client in CONFIG, NO current server, B in flight (initial join)
	player *connectedPlayer
	client *vconn
	h      *clientPlaySessionHandler
	hc     *clientConfigSessionHandler
	b      [2]*kaBackend // 0 = A (current at start, detached in rig "join"), 1 = B (in flight at start)
}

// kaPayload is the raw frame body of a keep-alive (packet id + big-endian long): a reply that the code
// under test forwards as raw bytes (forwardToServer) is observed and counted like a packet write.
func kaPayload(id int64) []byte {
	b := make([]byte, 9)
	b[0] = 0x15
	binary.BigEndian.PutUint64(b[1:], uint64(id))
	return b
}

func stName(s *state.Registry) string {
	switch s {
	case state.Login:
		return "login"
	case state.Config:
		return "config"
	case state.Play:
		return "play"
	case state.Handshake:
		return "handshake"
	}
	return "?"
}

func newKAWorld() *kaWorld { return newKAWorldRig("play") }

func newKAWorldRig(rig string) *kaWorld {
	protocol := version.Minecraft_1_20_3.Protocol
	w := &kaWorld{rig: rig, client: newVConn("client", protocol, state.Play)}
	if rig != "play" {
		w.client.st = state.Config
	}
	w.player, _ = newVPlayer(w.client, &config.Config{}, &detEvent{}, nil)
	mk := func(name string, st *state.Registry) *kaBackend {
		kb := &kaBackend{name: name, conn: newVConn(name, protocol, st), sends: map[int64]int{}, via: map[string]int{}}
		// built the way production does (server switch: the in-flight connection is created while the player
		// still has its current server): whatever newServerConnection shares between the two is shared here too
		kb.sc = newServerConnection(newRegisteredServer(NewServerInfo(name, &net.TCPAddr{IP: net.IPv4(127, 0, 0, 1), Port: 25566 + len(name)})), nil, w.player)
		kb.sc.log = logr.Discard()
		kb.sc.connPhase = phase.VanillaBackendPhase // "considered complete": the generic forwardToServer path is open
		kb.sc.connection = kb.conn
		kb.conn.onPayload = func(b []byte) {
			if len(b) == 9 && b[0] == 0x15 {
				kb.writes = append(kb.writes, kaWrite{int64(binary.BigEndian.Uint64(b[1:])), stName(kb.conn.st)})
			} else {
				kb.other++
			}
		}
		kb.conn.onWrite = func(p proto.Packet) {
			if ka, ok := p.(*packet.KeepAlive); ok {
				kb.writes = append(kb.writes, kaWrite{ka.RandomID, stName(kb.conn.st)})
			} else {
				kb.other++
			}
		}
		return kb
	}
	w.b[0] = mk("A", state.Play)
	if rig != "join" {
		w.player.connectedServer_ = w.b[0].sc
	}
	w.b[1] = mk("B", state.Config) // created while A is the connected server (rig join: while there is none)
	w.player.connInFlight = w.b[1].sc
	w.h = newClientPlaySessionHandler(w.player)
	w.hc = newClientConfigSessionHandler(w.player)
	if rig == "play" {
		w.client.handler = w.h
	} else {
		w.client.handler = w.hc
	}
	return w
}

// send: backend i sends a keep-alive. It is delivered to the REAL backend session handler that serves a
// connection in that role and state (play handler: current connection in PLAY; transition handler: in-flight
// connection in PLAY, i.e. before JoinGame; config handler: CONFIG). A connection in LOGIN has no handler that
// accepts keep-alives; the pending entry is planted directly (keeps the wrong-state check non-vacuous).
func (w *kaWorld) send(i int, id int64) {
	if kaSkipNew {
		w.sendDirect(i, id)
		return
	}
	kb := w.b[i]
	kb.sends[id]++
	ka := &packet.KeepAlive{RandomID: id}
	pc := &proto.PacketContext{Direction: proto.ClientBound, Protocol: w.client.protocol, Packet: ka, Payload: kaPayload(id)}
	// handlers come from the production constructors (the play handler needs the client to be in PLAY with its
	// play handler active; otherwise - client still in CONFIG - the struct is filled in by hand)
	switch {
	case kb.conn.st == state.Config:
		kb.via["config"]++
		h, _ := newBackendConfigSessionHandler(kb.sc, nil)
		h.HandlePacket(pc)
	case kb.conn.st == state.Play && w.player.connectedServer_ == kb.sc: // harness-side read; one thread runs at a time
		kb.via["play"]++
		h, err := newBackendPlaySessionHandler(kb.sc)
		if err != nil {
			h = &backendPlaySessionHandler{serverConn: kb.sc, log: logr.Discard(), playerSessionHandler: w.h}
		}
		h.HandlePacket(pc)
	case kb.conn.st == state.Play:
		kb.via["transition"]++
		newBackendTransitionSessionHandler(kb.sc, nil, w.player.proxy).HandlePacket(pc)
	default:
		kb.via["direct"]++
		recordBackendKeepAlive(kb.sc, ka)
	}
}

// sendDirect plants the pending entry the way every backend handler does, without the handler around it
// (fewer scheduling points: used where a scenario explores ALL interleavings).
func (w *kaWorld) sendDirect(i int, id int64) {
	w.b[i].sends[id]++
	w.b[i].via["direct"]++
	recordBackendKeepAlive(w.b[i].sc, &packet.KeepAlive{RandomID: id})
}

func (w *kaWorld) reply(id int64) {
	pc := &proto.PacketContext{Direction: proto.ServerBound, Protocol: w.client.protocol,
		Packet: &packet.KeepAlive{RandomID: id}, Payload: kaPayload(id)}
	if w.rig == "play" {
		w.h.HandlePacket(pc)
	} else {
		w.hc.HandlePacket(pc)
	}
}

func (w *kaWorld) promote() {
	// what the proxy does when the in-flight connection becomes the current one
	old := w.player.connectedServer()
	w.player.setConnectedServer(w.b[1].sc)
	if old != nil && old != w.b[1].sc {
		old.disconnect()
	}
}

// check evaluates the statement's invariants on everything written so far.
func (w *kaWorld) check(fail func(key, f string, a ...any)) {
	for _, kb := range w.b {
		n := map[int64]int{}
		for _, wr := range kb.writes {
			n[wr.id]++
			if wr.state != "config" && wr.state != "play" {
				fail("forwarded-in-wrong-state", "backend %s received keep-alive reply %d while in state %s", kb.name, wr.id, wr.state)
			}
		}
		for id, c := range n {
			switch s := kb.sends[id]; {
			case s == 0:
				fail("forwarded-to-backend-that-did-not-ask", "backend %s received a reply for id %d it never sent", kb.name, id)
			case c > s:
				fail("forwarded-more-than-once", "backend %s sent id %d %d time(s) but received %d replies", kb.name, id, s, c)
			}
		}
		if kb.other != 0 {
			fail("unexpected-packet", "backend %s received %d non-keep-alive packets", kb.name, kb.other)
		}
	}
}

func (w *kaWorld) totalWrites() int { return len(w.b[0].writes) + len(w.b[1].writes) }

// ---------- part B ----------

type kaOp string

var floodIDs = func() []int64 {
	ids := make([]int64, 65)
	for i := range ids {
		ids[i] = 100 + int64(i)
	}
	return ids
}()

func kaOps(thorough bool) []kaOp {
	ops := []kaOp{"sendA1", "sendB1", "reply1", "sendA2", "reply2", "reply3", "floodA", "reply100",
		"stateA:login", "stateA:config", "stateB:login", "stateB:play", "closeA", "promote", "stateA:play", "closeB"}
	if thorough {
		ops = append(ops, "sendB2", "stateB:config", "reply164")
		ops = append(ops, kaExtraOps...)
	}
	return ops
}

// kaExtraOps (quantifier audit): ">64 pending" also on the IN-FLIGHT backend; a reply for the OLDEST SURVIVING flood
// id (101: the other side of the eviction boundary from 100); a backend conn that is still in HANDSHAKE (the other
// not-config-not-play state a backend conn passes through). Quick: rigs config and join; thorough: every rig.
var kaExtraOps = []kaOp{"floodB", "reply101", "stateA:handshake", "stateB:handshake"}

var stByName = map[string]*state.Registry{"login": state.Login, "config": state.Config, "play": state.Play, "handshake": state.Handshake}

// kaSkipNew (mutant bookkeeping only): run the check as it was before the config/join rigs and the real backend
// handlers were added, to show that a mutant is caught by the added dimensions alone.
var kaSkipNew = os.Getenv("VERIF_SKIP_NEW") != ""

// kaVia counts, per process, which real backend handler received the harness's keep-alives (evidence only).
var kaVia = map[string]int{}

func runKAHistory(h []kaOp) bfs.Outcome { return runKAHistoryRig("play")(h) }

func runKAHistoryRig(rig string) func(h []kaOp) bfs.Outcome {
	return func(h []kaOp) bfs.Outcome { return runKAHistory0(rig, h) }
}

func runKAHistory0(rig string, h []kaOp) bfs.Outcome {
	w := newKAWorldRig(rig)
	defer func() {
		for _, kb := range w.b {
			for k, n := range kb.via {
				kaVia[k] += n
			}
		}
	}()
	var out bfs.Outcome
	fail := func(key, f string, a ...any) {
		if out.FailKey == "" {
			out.FailKey, out.FailDesc = key, fmt.Sprintf(f, a...)
		}
	}
	recency := [2][]int64{} // model-side recency of ids 1,2 (only used for the state key)
	touch := func(i int, id int64) {
		r := recency[i][:0]
		for _, x := range recency[i] {
			if x != id {
				r = append(r, x)
			}
		}
		recency[i] = append(r, id)
	}
	for step, op := range h {
		before := w.totalWrites()
		s := string(op)
		switch {
		case strings.HasPrefix(s, "send"):
			i := int(s[4] - 'A')
			id := int64(s[5] - '0')
			w.send(i, id)
			touch(i, id)
		case strings.HasPrefix(s, "reply"):
			var id int64
			fmt.Sscanf(s[5:], "%d", &id)
			panicked, pv := vrt.Catch(func() { w.reply(id) })
			if panicked {
				fail("panic", "reply %d panicked: %v", id, pv)
			}
			if d := w.totalWrites() - before; d > 1 {
				fail("one-reply-forwarded-twice", "a single client reply %d produced %d backend writes", id, d)
			}
			if w.b[0].sends[id] == 0 && w.b[1].sends[id] == 0 && w.totalWrites() != before {
				fail("unmatched-reply-not-dropped", "reply %d matches no keep-alive any backend sent, yet a backend received it", id)
			}
		case s == "floodA":
			for _, id := range floodIDs {
				w.send(0, id)
			}
			recency[0] = nil // ids 1,2 are evicted by 65 newer entries (capacity 64)
		case s == "floodB":
			for _, id := range floodIDs {
				w.send(1, id)
			}
			recency[1] = nil
		case strings.HasPrefix(s, "state"):
			i := int(s[5] - 'A')
			w.b[i].conn.st = stByName[s[7:]]
		case s == "closeA":
			_ = w.b[0].conn.Close()
		case s == "closeB":
			_ = w.b[1].conn.Close()
		case s == "promote":
			w.promote()
		default:
			panic("op " + s)
		}
		if !strings.HasPrefix(s, "reply") && w.totalWrites() != before {
			// includes the backends' own keep-alives going through the real backend handlers: only a client
			// reply may make a backend receive one
			fail("spontaneous-write", "op %s (step %d) made a backend receive a keep-alive", s, step)
		}
		w.check(fail)
		if out.FailKey != "" {
			out.FailDesc += fmt.Sprintf("\nwrites A=%v B=%v", w.b[0].writes, w.b[1].writes)
			return out
		}
	}
	// canonical state: everything the future behaviour can depend on.
	//  - which connection is current / in flight, each backend's conn state and closedness
	//  - membership of the probe ids in each REAL pending cache (Peek does not touch recency)
	//  - model-side recency order of ids 1,2 (decides which is evicted first; flood evicts both)
	//  - outstanding = sends - forwards per probe id (what the oracle still allows)
	// Flood ids other than 100/164 are never replied to, so their order is irrelevant to the oracle.
	var sb strings.Builder
	cur, inf := w.player.connectedServer(), w.player.connectionInFlight()
	role := func(sc *serverConnection) string {
		switch sc {
		case nil:
			return "-"
		case w.b[0].sc:
			return "A"
		case w.b[1].sc:
			return "B"
		}
		return "?"
	}
	fmt.Fprintf(&sb, "cur=%s inf=%s|", role(cur), role(inf))
	for i, kb := range w.b {
		fmt.Fprintf(&sb, "%s:%s closed=%v conn=%v pend=", kb.name, stName(kb.conn.st), kb.conn.ctx.Err() != nil, kb.sc.conn() != nil)
		for _, id := range []int64{1, 2, 100, 101, 164} {
			if _, ok := rawPending(kb.sc).Peek(id); ok {
				fmt.Fprintf(&sb, "%d,", id)
			}
		}
		fmt.Fprintf(&sb, " rec=%v out=", recency[i])
		fw := map[int64]int{}
		for _, wr := range kb.writes {
			fw[wr.id]++
		}
		for _, id := range []int64{1, 2, 100, 101, 164} {
			o := kb.sends[id] - fw[id]
			if o > 2 {
				o = 2
			}
			fmt.Fprintf(&sb, "%d", o)
		}
		fmt.Fprintf(&sb, " len=%d|", rawPending(kb.sc).Len())
	}
	out.Key = sb.String()
	obs := []string{}
	for _, kb := range w.b {
		for _, wr := range kb.writes {
			obs = append(obs, fmt.Sprintf("%s<-%d@%s", kb.name, wr.id, wr.state))
		}
	}
	sort.Strings(obs)
	out.Obs = strings.Join(obs, " ")
	if out.Obs == "" {
		out.Obs = "(nothing forwarded)"
	}
	return out
}

// rawPending reaches the unsynchronised cache inside the SyncCache: dboslee/lru v0.0.1's
// SyncCache.Peek and SyncCache.Len call themselves (unbounded recursion - a bug in that library; gate
// only uses Get/Set/Delete), so the harness inspects the inner cache, whose Peek does not touch recency.
func rawPending(sc *serverConnection) *lru.Cache[int64, time.Time] {
	f := reflect.ValueOf(sc.pendingPings).Elem().FieldByName("cache")
	return reflect.NewAt(f.Type(), unsafe.Pointer(f.UnsafeAddr())).Elem().Interface().(*lru.Cache[int64, time.Time])
}

// ---------- part A ----------

func kaScenarios() []schedrun.Scenario {
	endCheck := func(x *sched.X, w *kaWorld) {
		x.AtEnd(func() {
			w.check(func(key, f string, a ...any) {
				x.Fail(key, f+"\nwrites A=%v B=%v", append(a, w.b[0].writes, w.b[1].writes)...)
			})
			x.Outcome(fmt.Sprintf("A=%v B=%v", w.b[0].writes, w.b[1].writes))
		})
	}
	return []schedrun.Scenario{
		{Name: "two-replies-same-id", Quick: -1, Thorough: -1, Body: func(x *sched.X) {
			w := newKAWorld()
			w.send(0, 7)
			x.Go("r1", func() { w.reply(7) })
			x.Go("r2", func() { w.reply(7) })
			endCheck(x, w)
		}},
		{Name: "three-replies-two-backends-same-id", Quick: 2, Thorough: 3, Body: func(x *sched.X) {
			w := newKAWorld()
			w.send(0, 7)
			w.send(1, 7)
			x.Go("r1", func() { w.reply(7) })
			x.Go("r2", func() { w.reply(7) })
			x.Go("r3", func() { w.reply(7) })
			endCheck(x, w)
		}},
		{Name: "reply-vs-resend", Quick: -1, Thorough: -1, Body: func(x *sched.X) {
			w := newKAWorld()
			w.send(0, 7)
			x.Go("r1", func() { w.reply(7); w.reply(7) })
			x.Go("backend", func() { w.sendDirect(0, 7) })
			endCheck(x, w)
		}},
		{Name: "reply-vs-resend-through-play-handler", Quick: 2, Thorough: 3, Body: func(x *sched.X) {
			w := newKAWorld()
			w.send(0, 7)
			x.Go("r1", func() { w.reply(7); w.reply(7) })
			x.Go("backend", func() { w.send(0, 7) })
			endCheck(x, w)
		}},
		{Name: "replies-vs-promotion", Quick: 2, Thorough: 3, Body: func(x *sched.X) {
			w := newKAWorld()
			w.send(0, 7)
			w.send(1, 8)
			x.Go("r7", func() { w.reply(7); w.reply(7) })
			x.Go("r8", func() { w.reply(8) })
			x.Go("switch", func() { w.promote() })
			endCheck(x, w)
		}},
		{Name: "join-replies-vs-promotion", Quick: 2, Thorough: 3, Body: func(x *sched.X) {
			// initial join of a 1.20.2+ client: no current server, replies arrive through the CONFIG client
			// handler while the in-flight connection is being promoted
			w := newKAWorldRig("join")
			w.send(1, 8)
			x.Go("r1", func() { w.reply(8) })
			x.Go("r2", func() { w.reply(8); w.reply(9) })
			x.Go("switch", func() { w.promote() })
			endCheck(x, w)
		}},
		{Name: "reply-vs-inflight-send-same-id", Quick: 2, Thorough: 3, Body: func(x *sched.X) {
			// the CURRENT backend has id 7 pending; the IN-FLIGHT backend sends the same id (through its real config
			// handler) while two replies are being handled
			w := newKAWorld()
			w.send(0, 7)
			x.Go("r1", func() { w.reply(7) })
			x.Go("r2", func() { w.reply(7) })
			x.Go("backendB", func() { w.send(1, 7) })
			endCheck(x, w)
		}},
		{Name: "reply-vs-flood", Quick: 1, Thorough: 2, Body: func(x *sched.X) {
			w := newKAWorld()
			w.send(0, 1)
			x.Go("r1", func() { w.reply(1); w.reply(100) })
			x.Go("r2", func() { w.reply(1) })
			x.Go("backend", func() {
				for _, id := range floodIDs {
					w.send(0, id)
				}
			})
			endCheck(x, w)
		}},
	}
}

func kaScenarioOf(rig string) string {
	if rig == "play" {
		return "bfs:keepalive"
	}
	return "bfs:keepalive-" + rig
}

func kaRigOf(scenario string) string {
	if rig := strings.TrimPrefix(scenario, "bfs:keepalive-"); rig != scenario {
		return rig
	}
	return "play"
}

func TestVerif(t *testing.T) {
	vrt.Run(t, "C18", func(r *vrt.R) {
		if raw := r.Replay(); raw != nil {
			var probe struct {
				Scenario string `json:"scenario"`
			}
			_ = json.Unmarshal(raw, &probe)
			if strings.HasPrefix(probe.Scenario, "bfs:") {
				var rd bfs.ReplayData[kaOp]
				r.ReplayInto(&rd)
				out := runKAHistoryRig(kaRigOf(rd.Scenario))(rd.History)
				r.Eval(1)
				if out.FailKey != "" {
					r.Violation(rd.Scenario+"/"+out.FailKey, fmt.Sprintf("history %v\n%s", rd.History, out.FailDesc), rd)
				}
				return
			}
			schedrun.Run(r, kaScenarios())
			return
		}
		depth := 6
		if r.Thorough() {
			depth = 8
		}
		outcomes := map[string]bool{}
		rigs := []string{"play", "config", "join"}
		if kaSkipNew {
			rigs = rigs[:1]
			r.NotExhaustive("VERIF_SKIP_NEW set")
		}
		for _, rig := range rigs {
			ops := kaOps(r.Thorough())
			if rig == "join" {
				// no current server: backend A does not exist for the player
				var o2 []kaOp
				for _, op := range ops {
					if s := string(op); !strings.Contains(s, "A") {
						o2 = append(o2, op)
					}
				}
				ops = o2
				if !r.Thorough() {
					ops = append(ops, "sendB2") // thorough already has it
				}
			}
			if !r.Thorough() && rig != "play" && !kaSkipNew {
				for _, op := range kaExtraOps {
					if rig == "join" && strings.Contains(string(op), "A") {
						continue
					}
					ops = append(ops, op)
				}
			}
			name := kaScenarioOf(rig)
			d := depth
			if rig == "config" {
				// same roles and backend-side code as rig "play"; only the client-side entry point differs,
				// which shows within short histories
				d = depth - 2
			}
			res := bfs.Explore(bfs.Config[kaOp]{
				Name: name, Ops: ops, Depth: d, Run: runKAHistoryRig(rig),
				Enabled: func(h []kaOp, op kaOp) bool {
					if op == "floodA" || op == "floodB" || op == "promote" || op == "closeA" || op == "closeB" {
						for _, p := range h {
							if p == op {
								return false // once per history
							}
						}
					}
					return true
				},
				Shard: r.Shard, NShards: r.NShards, Deadline: r.DeadlineTime(),
			})
			res.Merge(r, name)
			for o, n := range res.Outcomes {
				outcomes[rig+" "+o] = true
				if strings.Contains(o, "<-") {
					r.ClassN("forwarded-something", n)
					r.ClassN("forwarded-something:rig="+rig, n)
				} else {
					r.ClassN("nothing-forwarded", n)
				}
				if strings.Contains(o, "B<-") {
					r.ClassN("forwarded-to-in-flight-backend", n)
				}
				if strings.Contains(o, "@config") {
					r.ClassN("forwarded-in-config-state", n)
				}
			}
		}
		for k, n := range kaVia {
			r.ClassN("backend-keep-alive-via:"+k, n)
		}
		r.Extra("bfs_distinct_outcomes", len(outcomes))
		scs := kaScenarios()
		if kaSkipNew {
			var old []schedrun.Scenario
			for _, sc := range scs {
				if sc.Name != "join-replies-vs-promotion" && sc.Name != "reply-vs-resend-through-play-handler" && sc.Name != "reply-vs-inflight-send-same-id" {
					old = append(old, sc)
				}
			}
			scs = old
		}
		schedrun.Run(r, scs)
	})
}
