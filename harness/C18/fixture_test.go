package proxy

// Shared fixture of the g6 harnesses (C18, C21, C22, C23): a recording netmc.MinecraftConn, a
// deterministic event.Manager that runs subscribers AND `after` callbacks synchronously in the
// calling goroutine, and minimal constructors for connectedPlayer / serverConnection / Proxy.
// (Copied per harness directory: the driver builds one binary per property.)

import (
	"context"
	"net"
	"reflect"
	"sort"

	"github.com/go-logr/logr"
	"github.com/robinbraemer/event"

	"go.minekube.com/gate/pkg/edition/java/config"
	"go.minekube.com/gate/pkg/edition/java/netmc"
	"go.minekube.com/gate/pkg/edition/java/profile"
	"go.minekube.com/gate/pkg/edition/java/proto/state"
	"go.minekube.com/gate/pkg/edition/java/proxy/phase"
	"go.minekube.com/gate/pkg/gate/proto"
	"go.minekube.com/gate/pkg/util/permission"
	"go.minekube.com/gate/pkg/util/uuid"
)

// vconn records every packet written to it. It never blocks and takes no locks of its own: under
// engine sched exactly one thread runs at a time, and the bfs/enum harnesses are single-threaded.
type vconn struct {
	name      string
	protocol  proto.Protocol
	st        *state.Registry
	ctx       context.Context
	cancel    context.CancelFunc
	packets   []proto.Packet
	payloads  [][]byte
	closes    int
	onWrite   func(p proto.Packet)
	onPayload func(b []byte) // C18: raw payload writes are observed too
	connType  phase.ConnectionType
	handler   netmc.SessionHandler
	wr        netmc.Writer
}

func newVConn(name string, protocol proto.Protocol, st *state.Registry) *vconn {
	ctx, cancel := context.WithCancel(context.Background())
	return &vconn{name: name, protocol: protocol, st: st, ctx: ctx, cancel: cancel}
}

func (c *vconn) Context() context.Context { return c.ctx }
func (c *vconn) Close() error             { c.closes++; c.cancel(); return nil }
func (c *vconn) State() *state.Registry   { return c.st }
func (c *vconn) Protocol() proto.Protocol { return c.protocol }
func (c *vconn) RemoteAddr() net.Addr     { return &net.TCPAddr{} }
func (c *vconn) LocalAddr() net.Addr      { return &net.TCPAddr{} }
func (c *vconn) Type() phase.ConnectionType {
	if c.connType != nil {
		return c.connType
	}
	return phase.Vanilla
}
func (c *vconn) SetType(ct phase.ConnectionType)            { c.connType = ct }
func (c *vconn) ActiveSessionHandler() netmc.SessionHandler { return c.handler }
func (c *vconn) SetActiveSessionHandler(_ *state.Registry, h netmc.SessionHandler) {
	c.handler = h
}
func (c *vconn) SwitchSessionHandler(*state.Registry) bool               { return true }
func (c *vconn) AddSessionHandler(*state.Registry, netmc.SessionHandler) {}
func (c *vconn) SetAutoReading(bool)                                     {}
func (c *vconn) SetProtocol(p proto.Protocol)                            { c.protocol = p }
func (c *vconn) SetState(s *state.Registry)                              { c.st = s }
func (c *vconn) SetOutboundState(*state.Registry)                        {}
func (c *vconn) SetCompressionThreshold(int) error                       { return nil }
func (c *vconn) EnableEncryption([]byte) error                           { return nil }
func (c *vconn) WritePacket(p proto.Packet) error {
	if c.ctx.Err() != nil {
		return netmc.ErrClosedConn
	}
	c.packets = append(c.packets, p)
	if c.onWrite != nil {
		c.onWrite(p)
	}
	return nil
}
func (c *vconn) Write(b []byte) error {
	if c.ctx.Err() != nil {
		return netmc.ErrClosedConn
	}
	c.payloads = append(c.payloads, append([]byte(nil), b...))
	if c.onPayload != nil {
		c.onPayload(b)
	}
	return nil
}
func (c *vconn) BufferPacket(p proto.Packet) error { return c.WritePacket(p) }
func (c *vconn) BufferPayload(b []byte) error      { return c.Write(b) }
func (c *vconn) Flush() error                      { return nil }
func (c *vconn) Reader() netmc.Reader              { return nil }
func (c *vconn) Writer() netmc.Writer {
	if c.wr == nil {
		c.wr = &vwriter{}
	}
	return c.wr
}
func (c *vconn) EnablePlayPacketQueue() {}

var _ netmc.MinecraftConn = (*vconn)(nil)

type vwriter struct{ st *state.Registry }

func (t *vwriter) WritePacket(proto.Packet) (int, error) { return 0, nil }
func (t *vwriter) Write([]byte) (int, error)             { return 0, nil }
func (t *vwriter) Flush() error                          { return nil }
func (t *vwriter) SetProtocol(proto.Protocol)            {}
func (t *vwriter) SetState(s *state.Registry)            { t.st = s }
func (t *vwriter) SetCompressionThreshold(int) error     { return nil }
func (t *vwriter) EnableEncryption([]byte) error         { return nil }
func (t *vwriter) Direction() proto.Direction            { return proto.ServerBound }

// detEvent is a deterministic event.Manager: Fire and FireParallel run the subscribers (priority
// order, then subscription order) and afterwards the `after` callbacks, all synchronously in the
// caller. (event.Nop.FireParallel drops the callbacks, which would make the forwarding paths vacuous.)
type detEvent struct {
	subs []detSub
	seq  int
}
type detSub struct {
	typ  reflect.Type
	prio int
	seq  int
	fn   event.HandlerFunc
}

func (m *detEvent) Subscribe(eventType event.Event, priority int, fn event.HandlerFunc) func() {
	t, ok := eventType.(reflect.Type)
	if !ok {
		t = reflect.TypeOf(eventType)
	}
	m.seq++
	id := m.seq
	m.subs = append(m.subs, detSub{typ: t, prio: priority, seq: id, fn: fn})
	sort.SliceStable(m.subs, func(i, j int) bool { return m.subs[i].prio > m.subs[j].prio })
	return func() {
		for i, s := range m.subs {
			if s.seq == id {
				m.subs = append(m.subs[:i:i], m.subs[i+1:]...)
				return
			}
		}
	}
}
func (m *detEvent) Fire(e event.Event) {
	t := reflect.TypeOf(e)
	for _, s := range append([]detSub(nil), m.subs...) {
		if s.typ == t {
			s.fn(e)
		}
	}
}
func (m *detEvent) FireParallel(e event.Event, after ...event.HandlerFunc) {
	m.Fire(e)
	for _, fn := range after {
		fn(e)
	}
}
func (m *detEvent) Wait(...event.Event) {}
func (m *detEvent) HasSubscriber(events ...event.Event) bool {
	if len(events) == 0 {
		return len(m.subs) > 0
	}
	for _, e := range events {
		t := reflect.TypeOf(e)
		found := false
		for _, s := range m.subs {
			if s.typ == t {
				found = true
			}
		}
		if !found {
			return false
		}
	}
	return true
}
func (m *detEvent) UnsubscribeAll(events ...event.Event) int {
	n := len(m.subs)
	m.subs = nil
	return n
}

var _ event.Manager = (*detEvent)(nil)

type vConfigProvider struct{ cfg *config.Config }

func (f vConfigProvider) config() *config.Config { return f.cfg }

var vPlayerID = uuid.UUID{0x11, 0x22, 0x33, 0x44, 0x55, 0x66, 0x47, 0x88, 0x89, 0xaa, 0xbb, 0xcc, 0xdd, 0xee, 0xff, 0x01}

// newVPlayer builds a connectedPlayer over a recording client conn, attached to a minimal Proxy that
// carries cfg, an empty command manager and the deterministic event manager. perms is the set of
// permissions the player holds.
func newVPlayer(client *vconn, cfg *config.Config, mgr event.Manager, perms map[string]bool) (*connectedPlayer, *Proxy) {
	px := &Proxy{log: logr.Discard(), cfg: cfg, event: mgr}
	deps := &sessionHandlerDeps{proxy: px, eventMgr: mgr, configProvider: vConfigProvider{cfg}}
	p := &connectedPlayer{
		MinecraftConn:      client,
		sessionHandlerDeps: deps,
		log:                logr.Discard(),
		profile:            &profile.GameProfile{ID: vPlayerID, Name: "verif"},
		permFunc: func(s string) permission.TriState {
			if perms[s] {
				return permission.True
			}
			return permission.False
		},
		connPhase: client.Type().InitialClientPhase(),
	}
	p.ping.Store(-1)
	p.chatQueue = newChatQueue(p)
	return p, px
}
