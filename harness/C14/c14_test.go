package netmc

// C14 — packets sent during configuration are delivered after it, in order, without loss.
//
// Seam: the real minecraftConn (+ real writer/encoder/PlayPacketQueue) over a recording net.Conn.
// Threads: 1-2 writers (play-only title.Times and config-valid KeepAlive packets carrying sequence
// numbers) x one state changer (enter / leave configuration). The oracle decodes the byte stream the
// connection wrote with its own frame parser and packet-id table (protocol 1.21.4, uncompressed).

import (
	"context"
	"encoding/binary"
	"errors"
	"fmt"
	"io"
	"net"
	"sort"
	"strings"
	"sync"
	"testing"
	"time"

	"go.minekube.com/gate/pkg/edition/java/proto/packet"
	"go.minekube.com/gate/pkg/edition/java/proto/packet/chat"
	"go.minekube.com/gate/pkg/edition/java/proto/packet/plugin"
	"go.minekube.com/gate/pkg/edition/java/proto/packet/title"
	"go.minekube.com/gate/pkg/edition/java/proto/state"
	"go.minekube.com/gate/pkg/edition/java/proto/util/queue"
	"go.minekube.com/gate/pkg/edition/java/proto/version"
	"go.minekube.com/gate/pkg/edition/java/proxy/zzverif/dualrun"
	"go.minekube.com/gate/pkg/edition/java/proxy/zzverif/vrt"
	"go.minekube.com/gate/pkg/gate/proto"
)

// ---- independent knowledge about the wire (protocol 769 = 1.21.4, clientbound) ----
const (
	idTimesPlay     = 0x6D // set_titles_animation, play
	idKeepAlivePlay = 0x27
	idKeepAliveCfg  = 0x04
	idPluginMsgPlay = 0x19 // custom_payload
	idPluginMsgCfg  = 0x01
	idTransferPlay  = 0x7A // transfer: exists since 1.20.5 (766) in both phases - valid in configuration only for >= 766
	idTransferCfg   = 0x0B
	timesMagic      = 0x7E570000
	holdLimit       = 1024 // "the holding queue is bounded"

	// serverbound (what the proxy writes to a BACKEND connection), protocol 769
	idChatAckPlaySB        = 0x04 // chat_ack, play only: VarInt offset
	idClientSettingsPlaySB = 0x0C // client_information, play
	idClientSettingsCfgSB  = 0x00 // client_information, configuration (serverbound only: no such clientbound packet)
	ackMagic               = 0x5E000000
)

// nopHandler14 is a session handler without behaviour: the state changes that go through
// SetActiveSessionHandler / SwitchSessionHandler need one per state.
type nopHandler14 struct{ name string } // (not zero-size: two handlers must be two distinct pointers)

func (*nopHandler14) HandlePacket(*proto.PacketContext) {}
func (*nopHandler14) Disconnected()                     {}
func (*nopHandler14) Activated()                        {}
func (*nopHandler14) Deactivated()                      {}

// recConn14 records writes and never blocks.
type recConn14 struct {
	mu     sync.Mutex
	buf    []byte
	closed int
}

func (c *recConn14) Write(p []byte) (int, error) {
	c.mu.Lock()
	defer c.mu.Unlock()
	if c.closed > 0 {
		return 0, net.ErrClosed
	}
	c.buf = append(c.buf, p...)
	return len(p), nil
}
func (c *recConn14) Len() int                         { c.mu.Lock(); defer c.mu.Unlock(); return len(c.buf) }
func (c *recConn14) Read([]byte) (int, error)         { return 0, io.EOF }
func (c *recConn14) Close() error                     { c.mu.Lock(); c.closed++; c.mu.Unlock(); return nil }
func (c *recConn14) LocalAddr() net.Addr              { return &net.TCPAddr{} }
func (c *recConn14) RemoteAddr() net.Addr             { return &net.TCPAddr{} }
func (c *recConn14) SetDeadline(time.Time) error      { return nil }
func (c *recConn14) SetReadDeadline(time.Time) error  { return nil }
func (c *recConn14) SetWriteDeadline(time.Time) error { return nil }

type wrec struct {
	kind        byte // 'P' play-only; config-valid: 'K' keep-alive, 'M' plugin message, 'T' transfer (config-valid since 1.20.5 only)
	writer, seq int
	call, ret   int
	err         error
	posRet      int
	flushed     bool // written with WritePacket (buffer+flush)
}

func (w *wrec) String() string {
	e := ""
	if w.err != nil {
		e = " err=" + w.err.Error()
	}
	return fmt.Sprintf("%c%d.%d[call@%d ret@%d%s]", w.kind, w.writer, w.seq, w.call, w.ret, e)
}

type srec struct {
	toConfig                   bool
	via                        string
	call, ret, posCall, posRet int
}

func (s *srec) String() string {
	return fmt.Sprintf("%s(config=%v)[call@%d ret@%d pos %d..%d]", s.via, s.toConfig, s.call, s.ret, s.posCall, s.posRet)
}

type h14 struct {
	e        *dualrun.Env
	base     *recConn14
	mc       *minecraftConn
	backend  bool // a proxy->backend connection (writes are serverbound)
	hPlay    SessionHandler
	hConfig  SessionHandler
	mu       sync.Mutex
	writes   []*wrec
	states   []*srec
	inConfig bool // harness-side: last state change that RETURNED
	overflow bool // scenario expects that the bound may be hit
}

func new14(e *dualrun.Env, startInConfig bool) *h14 { return new14x(e, startInConfig, false) }

// new14x: backend=true builds the connection the proxy holds to a backend server (direction ClientBound:
// it reads clientbound and WRITES serverbound packets; the holding queue then works on the serverbound
// configuration registry).
func new14x(e *dualrun.Env, startInConfig, backend bool) *h14 {
	base := &recConn14{}
	dir := proto.ServerBound
	if backend {
		dir = proto.ClientBound
	}
	conn, _ := NewMinecraftConn(context.Background(), base, dir, time.Second, time.Second, -1, nil)
	h := &h14{e: e, base: base, mc: conn.(*minecraftConn), backend: backend, hPlay: &nopHandler14{"play"}, hConfig: &nopHandler14{"config"}}
	h.mc.SetProtocol(version.Minecraft_1_21_4.Protocol)
	// one session handler per state, as every real connection has (SetActiveSessionHandler switches the
	// state exactly like SetState(Play) did here before)
	h.mc.SetActiveSessionHandler(state.Play, h.hPlay)
	h.mc.AddSessionHandler(state.Config, h.hConfig)
	if startInConfig {
		h.setState("SetState", true)
	}
	return h
}

// pos is the offset in the outgoing byte stream at which the next encoded frame will land.
func (h *h14) pos() int {
	if h.e.Free() {
		return -1 // reading the writer's buffer would itself race in the free-running pass
	}
	return h.base.Len() + h.mc.wr.(*writer).writeBuf.Buffered()
}

func (h *h14) mkPacket(kind byte, w, seq int) proto.Packet {
	if h.backend {
		if kind == 'P' {
			return &chat.ChatAcknowledgement{Offset: ackMagic + w<<12 + seq}
		}
		return &packet.ClientSettings{Locale: fmt.Sprintf("w%ds%d", w, seq), ViewDistance: 8, MainHand: 1}
	}
	switch kind {
	case 'P':
		return &title.Times{FadeIn: timesMagic + w, Stay: seq, FadeOut: 7}
	case 'M':
		return &plugin.Message{Channel: "verif:c14", Data: []byte{byte(w), byte(seq)}}
	case 'T':
		return &packet.Transfer{Host: fmt.Sprintf("w%ds%d", w, seq), Port: 25565}
	}
	return &packet.KeepAlive{RandomID: int64(w)<<32 | int64(seq)}
}

func (h *h14) write(kind byte, w, seq int, flush bool) *wrec {
	rec := &wrec{kind: kind, writer: w, seq: seq, flushed: flush}
	h.mu.Lock()
	h.writes = append(h.writes, rec)
	h.mu.Unlock()
	p := h.mkPacket(kind, w, seq)
	rec.call = h.e.Tick()
	if flush {
		rec.err = h.mc.WritePacket(p)
	} else {
		rec.err = h.mc.BufferPacket(p)
	}
	rec.posRet = h.pos()
	rec.ret = h.e.Tick()
	return rec
}

func (h *h14) setState(via string, toConfig bool) {
	rec := &srec{toConfig: toConfig, via: via}
	h.mu.Lock()
	h.states = append(h.states, rec)
	h.mu.Unlock()
	reg := state.Play
	if toConfig {
		reg = state.Config
	}
	rec.posCall = h.pos()
	rec.call = h.e.Tick()
	switch via {
	case "SetState":
		h.mc.SetState(reg)
	case "SetOutboundState":
		h.mc.SetOutboundState(reg)
	case "SetActiveSessionHandler": // what the client handlers do when the client acknowledges the switch
		hd := h.hPlay
		if toConfig {
			hd = h.hConfig
		}
		h.mc.SetActiveSessionHandler(reg, hd)
	case "SwitchSessionHandler":
		if !h.mc.SwitchSessionHandler(reg) {
			h.e.Fail("switch-refused", "SwitchSessionHandler(%v) = false although a handler is registered for that state", reg)
		}
	default:
		panic(via)
	}
	rec.posRet = h.pos()
	rec.ret = h.e.Tick()
	h.mu.Lock()
	h.inConfig = toConfig
	h.mu.Unlock()
}

type frame14 struct {
	off, end int
	id       int
	kind     byte
	writer   int
	seq      int
}

func readVarint(b []byte) (v, n int, ok bool) {
	for i := 0; i < 5 && i < len(b); i++ {
		v |= int(b[i]&0x7f) << (7 * i)
		if b[i]&0x80 == 0 {
			return v, i + 1, true
		}
	}
	return 0, 0, false
}

// decode parses the recorded stream into frames; anything it does not recognise is a violation.
func (h *h14) decode() ([]frame14, bool) {
	b := h.base.buf
	var out []frame14
	for off := 0; off < len(b); {
		l, n, ok := readVarint(b[off:])
		if !ok || off+n+l > len(b) || l < 1 {
			h.e.Fail("stream/garbled", "undecodable frame at offset %d of %d: % x", off, len(b), b[off:min(len(b), off+24)])
			return out, false
		}
		body := b[off+n : off+n+l]
		id, m, ok := readVarint(body)
		if !ok {
			h.e.Fail("stream/garbled", "bad packet id at offset %d", off)
			return out, false
		}
		pl := body[m:]
		f := frame14{off: off, end: off + n + l, id: id}
		switch {
		case h.backend && id == idChatAckPlaySB:
			v, n, ok := readVarint(pl)
			if !ok || n != len(pl) || v&^0xffff != ackMagic {
				h.e.Fail("stream/unknown-frame", "serverbound frame at offset %d: id=0x%x payload % x is not a chat_ack written here", off, id, pl)
				return out, false
			}
			f.kind, f.writer, f.seq = 'P', (v-ackMagic)>>12, (v-ackMagic)&0xfff
		case h.backend && (id == idClientSettingsPlaySB || id == idClientSettingsCfgSB):
			l, n, ok := readVarint(pl)
			if !ok || n+l > len(pl) {
				h.e.Fail("stream/garbled", "bad client_information at offset %d", off)
				return out, false
			}
			if _, err := fmt.Sscanf(string(pl[n:n+l]), "w%ds%d", &f.writer, &f.seq); err != nil {
				h.e.Fail("stream/unknown-frame", "client_information at offset %d carries locale %q", off, pl[n:n+l])
				return out, false
			}
			f.kind = 'K'
		case h.backend:
			h.e.Fail("stream/unknown-frame", "serverbound frame at offset %d: id=0x%x payload % x is none of the packets written", off, id, pl)
			return out, false
		case id == idTimesPlay && len(pl) == 12 && int(binary.BigEndian.Uint32(pl))&^0xffff == timesMagic:
			f.kind, f.writer, f.seq = 'P', int(binary.BigEndian.Uint32(pl))-timesMagic, int(binary.BigEndian.Uint32(pl[4:]))
		case (id == idKeepAlivePlay || id == idKeepAliveCfg) && len(pl) == 8:
			v := binary.BigEndian.Uint64(pl)
			f.kind, f.writer, f.seq = 'K', int(v>>32), int(v&0xffffffff)
		case (id == idPluginMsgPlay || id == idPluginMsgCfg) && len(pl) == 12 && string(pl[:10]) == "\x09verif:c14":
			f.kind, f.writer, f.seq = 'M', int(pl[10]), int(pl[11])
		case id == idTransferPlay || id == idTransferCfg:
			l, n, ok := readVarint(pl)
			if !ok || n+l > len(pl) {
				h.e.Fail("stream/garbled", "bad transfer packet at offset %d", off)
				return out, false
			}
			if _, err := fmt.Sscanf(string(pl[n:n+l]), "w%ds%d", &f.writer, &f.seq); err != nil {
				h.e.Fail("stream/unknown-frame", "transfer at offset %d carries host %q", off, pl[n:n+l])
				return out, false
			}
			f.kind = 'T'
		default:
			h.e.Fail("stream/unknown-frame", "frame at offset %d: id=0x%x payload % x is none of the packets written", off, id, pl)
			return out, false
		}
		out = append(out, f)
		off = f.end
	}
	return out, true
}

func (h *h14) history() string {
	var ev []string
	type evt struct {
		t int
		s string
	}
	var es []evt
	npre := 0
	for _, w := range h.writes {
		if w.writer == 9 {
			npre++
			continue
		}
		es = append(es, evt{w.call, w.String()})
	}
	if npre > 0 {
		ev = append(ev, fmt.Sprintf("prefill(P9.0..P9.%d)", npre-1))
	}
	for _, s := range h.states {
		es = append(es, evt{s.call, s.String()})
	}
	sort.Slice(es, func(i, j int) bool { return es[i].t < es[j].t })
	for _, e := range es {
		ev = append(ev, e.s)
	}
	return strings.Join(ev, " ")
}

// finish is the final oracle. It first brings the connection back to play (if the history ended in
// configuration) and flushes, so that every held packet has had its chance to be delivered.
func (h *h14) finish() {
	e := h.mc
	closed := Closed(e)
	if !closed {
		if h.inConfig {
			h.setState("SetState", false)
		}
		_ = e.Flush()
		closed = Closed(e)
	}
	hist := h.history()

	// --- errors / close ---
	var failed []*wrec
	for _, w := range h.writes {
		if w.err != nil {
			failed = append(failed, w)
		}
	}
	if h.overflow {
		// overflow closes the connection rather than dropping silently: an error is only legitimate if it
		// is the bound being hit, and then the connection must be closed
		for _, w := range failed {
			if !errors.Is(w.err, queue.ErrQueueFull) && !errors.Is(w.err, ErrClosedConn) {
				h.e.Fail("overflow/unexpected-error", "write %v failed with %v; history: %s", w, w.err, hist)
			}
		}
		if len(failed) > 0 && !closed {
			h.e.Fail("overflow/not-closed", "a write reported %v but the connection stayed open; history: %s", failed[0].err, hist)
		}
	} else {
		if len(failed) > 0 {
			h.e.Fail("write-failed", "write %v of a registered packet failed (%v) although the hold limit was never reached; connection closed=%v; history: %s", failed[0], failed[0].err, closed, hist)
		} else if closed {
			h.e.Fail("unexpected-close", "connection was closed although no write failed; history: %s", hist)
		}
	}

	frames, ok := h.decode()
	if !ok {
		return
	}
	byKey := map[string][]frame14{}
	for _, f := range frames {
		k := fmt.Sprintf("%c%d.%d", f.kind, f.writer, f.seq)
		byKey[k] = append(byKey[k], f)
	}
	key := func(w *wrec) string { return fmt.Sprintf("%c%d.%d", w.kind, w.writer, w.seq) }
	var outc []string
	for i := 0; i < len(frames); i++ {
		f := frames[i]
		if f.writer == 9 { // collapse an ascending run of prefill packets
			j := i
			for j+1 < len(frames) && frames[j+1].writer == 9 && frames[j+1].seq == frames[j].seq+1 {
				j++
			}
			if j > i {
				outc = append(outc, fmt.Sprintf("P9.%d..P9.%d", f.seq, frames[j].seq))
				i = j
				continue
			}
		}
		outc = append(outc, fmt.Sprintf("%c%d.%d", f.kind, f.writer, f.seq))
	}
	if closed {
		outc = append(outc, "closed")
	}
	h.e.Outcome(strings.Join(outc, ","))

	// --- none lost, none duplicated ---
	for _, w := range h.writes {
		fs := byKey[key(w)]
		if len(fs) > 1 {
			h.e.Fail("duplicated", "packet %v appears %d times in the stream; history: %s", w, len(fs), hist)
		}
		if w.err == nil && len(fs) == 0 && !closed {
			h.e.Fail("lost", "packet %v was accepted (nil error) but never reached the stream, connection still open; stream=%v; history: %s", w, outc, hist)
		}
	}
	if closed {
		return // a closed connection delivers nothing further; order/hold checks need the full stream
	}

	// --- held back while in configuration: no play-only frame inside a stream window that is
	// definitely configuration (enter returned .. leave called) ---
	if !h.e.Free() {
		for i, s := range h.states {
			if !s.toConfig {
				continue
			}
			hi := len(h.base.buf)
			for _, t := range h.states[i+1:] {
				if !t.toConfig {
					hi = t.posCall
					break
				}
			}
			for _, f := range frames {
				if f.kind == 'P' && f.off >= s.posRet && f.off < hi {
					h.e.Fail("not-held", "play-only packet P%d.%d sits at stream offset %d, inside the configuration window [%d,%d) of %v; history: %s", f.writer, f.seq, f.off, s.posRet, hi, s, hist)
				}
			}
		}
		// --- config-valid packets are written immediately (present when WritePacket returns) ---
		for _, w := range h.writes {
			if w.kind != 'P' && w.err == nil && w.flushed {
				if fs := byKey[key(w)]; len(fs) == 1 && fs[0].end > w.posRet {
					h.e.Fail("config-packet-delayed", "config-valid packet %v was not in the stream when WritePacket returned (frame ends at %d, stream was %d); history: %s", w, fs[0].end, w.posRet, hist)
				}
			}
		}
	}

	// --- order: a play packet whose write returned before another one's began precedes it ---
	type ow struct {
		w   *wrec
		off int
	}
	var ows []ow
	for _, w := range h.writes {
		if fs := byKey[key(w)]; w.kind == 'P' && w.err == nil && len(fs) == 1 {
			ows = append(ows, ow{w, fs[0].off})
		}
	}
	for _, a := range ows {
		for _, b := range ows {
			if a.w.ret < b.w.call && a.off > b.off {
				h.e.Fail("reordered", "%v was written before %v yet appears after it in the stream %v; history: %s", a.w, b.w, outc, hist)
				return
			}
		}
	}
}

// prefill puts n play-only packets into the holding queue through the public write path.
func (h *h14) prefill(n int) {
	for i := 0; i < n; i++ {
		if err := h.mc.BufferPacket(h.mkPacket('P', 9, i)); err != nil {
			panic(fmt.Sprintf("prefill %d: %v", i, err))
		}
	}
	// prefill packets are part of the history: they must come out too, before the writers' packets
	for i := 0; i < n; i++ {
		h.writes = append(h.writes, &wrec{kind: 'P', writer: 9, seq: i, call: -2 * (n - i), ret: -2*(n-i) + 1})
	}
}

func scenarios14() []dualrun.Scenario {
	const U = -1
	return []dualrun.Scenario{
		{Name: "leave-config/1writer", Quick: U, Thorough: U, FreeQuick: 200, FreeThorough: 3000, Body: func(e *dualrun.Env) {
			h := new14(e, true)
			e.Go("w1", func() { h.write('P', 1, 1, true); h.write('P', 1, 2, true); h.write('P', 1, 3, true) })
			e.Go("st", func() { h.setState("SetState", false) })
			e.AtEnd(h.finish)
		}},
		{Name: "leave-config-outbound/1writer", Quick: U, Thorough: U, FreeQuick: 200, FreeThorough: 3000, Body: func(e *dualrun.Env) {
			h := new14(e, true)
			e.Go("w1", func() { h.write('P', 1, 1, true); h.write('K', 1, 2, true); h.write('P', 1, 3, true) })
			e.Go("st", func() { h.setState("SetOutboundState", false) })
			e.AtEnd(h.finish)
		}},
		{Name: "enter-config/1writer", Quick: U, Thorough: U, FreeQuick: 200, FreeThorough: 3000, Body: func(e *dualrun.Env) {
			h := new14(e, false)
			e.Go("w1", func() { h.write('P', 1, 1, true); h.write('P', 1, 2, true) })
			e.Go("st", func() { h.setState("SetState", true) })
			e.AtEnd(h.finish)
		}},
		{Name: "enter-config-outbound/1writer", Quick: U, Thorough: U, FreeQuick: 200, FreeThorough: 3000, Body: func(e *dualrun.Env) {
			h := new14(e, false)
			e.Go("w1", func() { h.write('P', 1, 1, true); h.write('K', 1, 2, true); h.write('P', 1, 3, true) })
			e.Go("st", func() { h.setState("SetOutboundState", true) })
			e.AtEnd(h.finish)
		}},
		{Name: "roundtrip/1writer", Quick: U, Thorough: U, FreeQuick: 200, FreeThorough: 3000, Body: func(e *dualrun.Env) {
			h := new14(e, false)
			e.Go("w1", func() {
				h.write('P', 1, 1, true)
				h.write('K', 1, 2, true)
				h.write('P', 1, 3, true)
				h.write('P', 1, 4, true)
			})
			e.Go("st", func() { h.setState("SetState", true); h.setState("SetState", false) })
			e.AtEnd(h.finish)
		}},
		{Name: "leave-config/2writers", Quick: 3, Thorough: U, FreeQuick: 200, FreeThorough: 3000, Body: func(e *dualrun.Env) {
			h := new14(e, true)
			h.prefill(1)
			e.Go("w1", func() { h.write('P', 1, 1, true); h.write('P', 1, 2, true) })
			e.Go("w2", func() { h.write('P', 2, 1, true); h.write('K', 2, 2, true) })
			e.Go("st", func() { h.setState("SetState", false) })
			e.AtEnd(h.finish)
		}},
		{Name: "roundtrip/2writers", Quick: 2, Thorough: 4, FreeQuick: 200, FreeThorough: 3000, Body: func(e *dualrun.Env) {
			h := new14(e, false)
			e.Go("w1", func() { h.write('P', 1, 1, true); h.write('P', 1, 2, true) })
			e.Go("w2", func() { h.write('P', 2, 1, true); h.write('P', 2, 2, true) })
			e.Go("st", func() { h.setState("SetState", true); h.setState("SetState", false) })
			e.AtEnd(h.finish)
		}},
		{Name: "buffer-then-flush/2writers", Quick: 3, Thorough: U, FreeQuick: 200, FreeThorough: 3000, Body: func(e *dualrun.Env) {
			h := new14(e, true)
			e.Go("w1", func() { h.write('P', 1, 1, false); h.write('P', 1, 2, false); _ = h.mc.Flush() })
			e.Go("w2", func() { h.write('P', 2, 1, false); h.write('K', 2, 2, false) })
			e.Go("st", func() { h.setState("SetState", false) })
			e.AtEnd(h.finish)
		}},
		{Name: "enable-queue-then-config/1writer", Quick: U, Thorough: U, FreeQuick: 200, FreeThorough: 3000, Body: func(e *dualrun.Env) {
			h := new14(e, false)
			e.Go("w1", func() { h.write('P', 1, 1, true); h.write('P', 1, 2, true) })
			e.Go("st", func() { h.mc.EnablePlayPacketQueue(); h.setState("SetState", true); h.setState("SetState", false) })
			e.AtEnd(h.finish)
		}},
		// ---- the other API entry points that switch the state (what the session handlers really call) ----
		{Name: "leave-config-SetActiveSessionHandler/1writer", Quick: U, Thorough: U, FreeQuick: 200, FreeThorough: 3000, Body: func(e *dualrun.Env) {
			h := new14(e, true)
			e.Go("w1", func() { h.write('P', 1, 1, true); h.write('K', 1, 2, true); h.write('P', 1, 3, true) })
			e.Go("st", func() { h.setState("SetActiveSessionHandler", false) })
			e.AtEnd(h.finish)
		}},
		{Name: "roundtrip-SwitchSessionHandler/1writer", Quick: 3, Thorough: U, FreeQuick: 200, FreeThorough: 3000, Body: func(e *dualrun.Env) {
			h := new14(e, false)
			e.Go("w1", func() { h.write('P', 1, 1, true); h.write('K', 1, 2, true); h.write('P', 1, 3, true) })
			e.Go("st", func() { h.setState("SwitchSessionHandler", true); h.setState("SwitchSessionHandler", false) })
			e.AtEnd(h.finish)
		}},
		// outbound side enters configuration first, the inbound state is still play: returning through
		// SwitchSessionHandler(Play) hits its "handler already active" branch, which must still release
		{Name: "outbound-config-then-SwitchSessionHandler(active-play)/1writer", Quick: U, Thorough: U, FreeQuick: 200, FreeThorough: 3000, Body: func(e *dualrun.Env) {
			h := new14(e, false)
			e.Go("w1", func() { h.write('P', 1, 1, true); h.write('P', 1, 2, true) })
			e.Go("st", func() { h.setState("SetOutboundState", true); h.setState("SwitchSessionHandler", false) })
			e.AtEnd(h.finish)
		}},
		// the proxy's real server-switch sequence on the client connection: switchToConfigState
		// (SetOutboundState(Config)), client acknowledges (SetActiveSessionHandler(Config)), backend finished
		// (SetOutboundState(Play)), client finished (SetActiveSessionHandler(Play))
		{Name: "server-switch-sequence/1writer", Quick: 3, Thorough: U, FreeQuick: 200, FreeThorough: 3000, Body: func(e *dualrun.Env) {
			h := new14(e, false)
			e.Go("w1", func() { h.write('P', 1, 1, true); h.write('P', 1, 2, true); h.write('P', 1, 3, true) })
			e.Go("st", func() {
				h.setState("SetOutboundState", true)
				h.setState("SetActiveSessionHandler", true)
				h.setState("SetOutboundState", false)
				h.setState("SetActiveSessionHandler", false)
			})
			e.AtEnd(h.finish)
		}},
		{Name: "server-switch-sequence/2writers", Quick: 2, Thorough: 4, FreeQuick: 200, FreeThorough: 3000, Body: func(e *dualrun.Env) {
			h := new14(e, false)
			e.Go("w1", func() { h.write('P', 1, 1, true); h.write('P', 1, 2, true) })
			e.Go("w2", func() { h.write('P', 2, 1, false); h.write('K', 2, 2, true) })
			e.Go("st", func() {
				h.setState("SetOutboundState", true)
				h.setState("SetActiveSessionHandler", true)
				h.setState("SetOutboundState", false)
				h.setState("SetActiveSessionHandler", false)
			})
			e.AtEnd(h.finish)
		}},
		// two goroutines leave configuration at the same time (the backend-finished path and the
		// client-finished path) while a writer is active: released once, in order
		{Name: "2-leavers/1writer", Quick: 3, Thorough: U, FreeQuick: 200, FreeThorough: 3000, Body: func(e *dualrun.Env) {
			h := new14(e, true)
			h.prefill(2)
			e.Go("w1", func() { h.write('P', 1, 1, true); h.write('P', 1, 2, true) })
			e.Go("st", func() { h.setState("SetOutboundState", false) })
			e.Go("st2", func() { h.setState("SetActiveSessionHandler", false) })
			e.AtEnd(h.finish)
		}},
		// ---- the other direction: the proxy's connection TO A BACKEND in configuration holds play-only
		// SERVERBOUND packets (chat_ack) and writes configuration-valid serverbound packets
		// (client_information, which exists only serverbound) immediately ----
		{Name: "backend/roundtrip/1writer", Quick: 3, Thorough: U, FreeQuick: 200, FreeThorough: 3000, Body: func(e *dualrun.Env) {
			h := new14x(e, false, true)
			e.Go("w1", func() {
				h.write('P', 1, 1, true)
				h.write('K', 1, 2, true)
				h.write('P', 1, 3, true)
				h.write('K', 1, 4, true)
			})
			e.Go("st", func() { h.setState("SwitchSessionHandler", true); h.setState("SwitchSessionHandler", false) })
			e.AtEnd(h.finish)
		}},
		// ---- more than one kind of configuration-valid packet: the decision is a lookup in the configuration
		// registry OF THE CONNECTION'S PROTOCOL VERSION - keep-alive and plugin message are valid there since
		// 1.20.2, transfer only since 1.20.5 ----
		{Name: "config-valid-kinds/roundtrip/1writer", Quick: 3, Thorough: U, FreeQuick: 200, FreeThorough: 3000, Body: func(e *dualrun.Env) {
			h := new14(e, false)
			e.Go("w1", func() {
				h.write('P', 1, 1, true)
				h.write('M', 1, 2, true)
				h.write('T', 1, 3, true)
				h.write('K', 1, 4, true)
				h.write('P', 1, 5, true)
			})
			e.Go("st", func() { h.setState("SetState", true); h.setState("SetState", false) })
			e.AtEnd(h.finish)
		}},
		{Name: "config-valid-kinds/in-config/2writers", Quick: 3, Thorough: U, FreeQuick: 200, FreeThorough: 3000, Body: func(e *dualrun.Env) {
			h := new14(e, true)
			e.Go("w1", func() { h.write('T', 1, 1, true); h.write('P', 1, 2, true) })
			e.Go("w2", func() { h.write('M', 2, 1, false); h.write('T', 2, 2, true) })
			e.AtEnd(h.finish)
		}},
		// ---- first vs repeated occurrence: a second configuration phase on the same connection (every server
		// switch of a 1.20.2+ client is one) ----
		{Name: "two-config-phases/1writer", Quick: 3, Thorough: U, FreeQuick: 200, FreeThorough: 3000, Body: func(e *dualrun.Env) {
			h := new14(e, false)
			e.Go("w1", func() {
				h.write('P', 1, 1, true)
				h.write('K', 1, 2, true)
				h.write('P', 1, 3, true)
				h.write('P', 1, 4, true)
			})
			e.Go("st", func() {
				h.setState("SetState", true)
				h.setState("SetState", false)
				h.setState("SetOutboundState", true)
				h.setState("SetActiveSessionHandler", false)
			})
			e.AtEnd(h.finish)
		}},
		// ---- bound ----
		{Name: "overflow/sequential", Quick: U, Thorough: U, Body: func(e *dualrun.Env) {
			h := new14(e, true)
			h.overflow = true
			e.Go("w1", func() {
				for i := 0; i < holdLimit; i++ {
					if w := h.write('P', 1, i, true); w.err != nil {
						e.Fail("overflow/early", "held packet #%d of %d was refused: %v", i+1, holdLimit, w.err)
						return
					}
				}
				if h.base.Len() != 0 {
					e.Fail("not-held", "%d bytes were written while %d play-only packets were sent in configuration", h.base.Len(), holdLimit)
				}
				w := h.write('P', 1, holdLimit, true)
				if w.err == nil {
					e.Fail("overflow/unbounded", "packet #%d was accepted: the holding queue is not bounded at %d", holdLimit+1, holdLimit)
				} else if !Closed(h.mc) {
					e.Fail("overflow/not-closed", "packet #%d was refused (%v) but the connection stayed open", holdLimit+1, w.err)
				}
				if w2 := h.write('K', 1, 1, true); w2.err == nil {
					e.Fail("overflow/write-after-close", "write after the overflow close succeeded")
				}
			})
			e.AtEnd(h.finish)
		}},
		{Name: "overflow/2writers-last-slot", Quick: U, Thorough: U, FreeQuick: 20, FreeThorough: 300, Body: func(e *dualrun.Env) {
			h := new14(e, true)
			h.overflow = true
			h.prefill(holdLimit - 1)
			var a, b *wrec
			e.Go("w1", func() { a = h.write('P', 1, 1, true) })
			e.Go("w2", func() { b = h.write('P', 2, 1, true) })
			e.AtEnd(func() {
				if a.err == nil && b.err == nil {
					e.Fail("overflow/unbounded", "both writers were accepted with %d packets already held: %d packets held, limit %d", holdLimit-1, holdLimit+1, holdLimit)
				}
				if a.err != nil && b.err != nil && !errors.Is(a.err, ErrClosedConn) && !errors.Is(b.err, ErrClosedConn) {
					e.Fail("overflow/early", "both writers were refused (%v, %v) although one slot was free", a.err, b.err)
				}
				h.finish()
			})
		}},
		{Name: "overflow/fits-exactly-vs-leave", Quick: U, Thorough: U, FreeQuick: 20, FreeThorough: 300, Body: func(e *dualrun.Env) {
			h := new14(e, true)
			h.prefill(holdLimit - 2)
			e.Go("w1", func() { h.write('P', 1, 1, true); h.write('P', 1, 2, true) })
			e.Go("st", func() { h.setState("SetState", false) })
			e.AtEnd(h.finish)
		}},
	}
}

func TestVerif(t *testing.T) {
	vrt.Run(t, "C14", func(r *vrt.R) { dualrun.Run(r, scenarios14()) })
}
