package proxy

// C14, pass "player" — the way the proxy REALLY puts a client into configuration:
// connectedPlayer.switchToConfigState (StartUpdate + writer state + play packet queue) and back
// (FinishedUpdate + SetOutboundState(Play), as clientConfigSessionHandler.handleBackendFinishUpdate does),
// racing with API writers that send play-only packets to the player. Same oracle as the netmc pass,
// on the byte stream as the CLIENT interprets it: after the StartUpdate frame the client is in
// configuration until the FinishedUpdate frame, so no play-only frame may sit between the two.

import (
	"context"
	"encoding/binary"
	"fmt"
	"net"
	"strings"
	"testing"
	"time"

	"go.minekube.com/gate/pkg/edition/java/netmc"
	"go.minekube.com/gate/pkg/edition/java/profile"
	"go.minekube.com/gate/pkg/edition/java/proto/packet"
	cfgpacket "go.minekube.com/gate/pkg/edition/java/proto/packet/config"
	"go.minekube.com/gate/pkg/edition/java/proto/packet/title"
	"go.minekube.com/gate/pkg/edition/java/proto/state"
	"go.minekube.com/gate/pkg/edition/java/proxy/zzverif/sched"
	"go.minekube.com/gate/pkg/edition/java/proxy/zzverif/schedrun"
	"go.minekube.com/gate/pkg/edition/java/proxy/zzverif/vrt"
	"go.minekube.com/gate/pkg/gate/proto"
	"go.minekube.com/gate/pkg/util/uuid"
)

// protocol 769 (1.21.4), clientbound
const (
	p14Times       = 0x6D // play
	p14StartUpdate = 0x70 // play
	p14Finished    = 0x03 // config
	p14Magic       = 0x7E570000
)

type p14Write struct {
	seq       int
	call, ret int
	err       error
}

type p14 struct {
	x      *sched.X
	base   *g5Conn
	mc     netmc.MinecraftConn
	player *connectedPlayer
	clock  int
	writes []*p14Write
}

func newP14(x *sched.X) *p14 {
	w := g5NewWorld(true, false)
	base := &g5Conn{}
	mc, _ := netmc.NewMinecraftConn(context.Background(), base, proto.ServerBound, time.Second, time.Second, -1, nil)
	mc.SetProtocol(g5Protocol)
	mc.SetState(state.Play)
	pl := newConnectedPlayer(mc, &profile.GameProfile{ID: c14pID, Name: "Ann"}, &net.TCPAddr{IP: net.IPv4(127, 0, 0, 1), Port: 25565}, packet.LoginHandshakeIntent, true, nil, w.deps())
	return &p14{x: x, base: base, mc: mc, player: pl}
}

var c14pID = uuid.UUID{0xA1, 0xA1, 1, 2, 3, 4, 5, 6, 7, 8, 9, 10, 11, 12, 13, 14}

func (h *p14) tick() int { h.clock++; return h.clock }

func (h *p14) write(seq int) {
	w := &p14Write{seq: seq}
	h.writes = append(h.writes, w)
	w.call = h.tick()
	w.err = h.player.WritePacket(&title.Times{FadeIn: p14Magic, Stay: seq, FadeOut: 7})
	w.ret = h.tick()
}

// enter is what session handlers do to move the client into configuration.
func (h *p14) enter() { h.player.switchToConfigState() }

// leave is clientConfigSessionHandler.handleBackendFinishUpdate's tail.
func (h *p14) leave() {
	if err := h.player.WritePacket(new(cfgpacket.FinishedUpdate)); err != nil {
		h.x.Fail("player-switch/finish-write-failed", "writing FinishedUpdate failed: %v", err)
		return
	}
	h.player.SetOutboundState(state.Play)
}

func p14Varint(b []byte) (v, n int, ok bool) {
	for i := 0; i < 5 && i < len(b); i++ {
		v |= int(b[i]&0x7f) << (7 * i)
		if b[i]&0x80 == 0 {
			return v, i + 1, true
		}
	}
	return 0, 0, false
}

func (h *p14) finish() {
	h.x.AtEnd(func() {
		var hist []string
		for _, w := range h.writes {
			e := ""
			if w.err != nil {
				e = " err=" + w.err.Error()
			}
			hist = append(hist, fmt.Sprintf("P%d[%d..%d%s]", w.seq, w.call, w.ret, e))
		}
		closed := netmc.Closed(h.mc)
		for _, w := range h.writes {
			if w.err != nil {
				h.x.Fail("player-switch/write-failed", "writing a play packet to the player failed (%v) and closed=%v, although the player was merely switching to configuration; writes: %v", w.err, closed, hist)
				return
			}
		}
		if closed {
			h.x.Fail("player-switch/unexpected-close", "the player's connection was closed; writes: %v", hist)
			return
		}
		_ = h.mc.Flush()
		// decode as the client does
		b := h.base.buf
		var stream []string
		inConfig := false
		seen := map[int]int{}
		for off := 0; off < len(b); {
			l, n, ok := p14Varint(b[off:])
			if !ok || l < 1 || off+n+l > len(b) {
				h.x.Fail("player-switch/stream-garbled", "undecodable frame at %d", off)
				return
			}
			body := b[off+n : off+n+l]
			id, m, _ := p14Varint(body)
			pl := body[m:]
			switch {
			case !inConfig && id == p14StartUpdate && len(pl) == 0:
				stream = append(stream, "StartUpdate")
				inConfig = true
			case inConfig && id == p14Finished && len(pl) == 0:
				stream = append(stream, "FinishedUpdate")
				inConfig = false
			case id == p14Times && len(pl) == 12 && binary.BigEndian.Uint32(pl) == p14Magic:
				seq := int(binary.BigEndian.Uint32(pl[4:]))
				stream = append(stream, fmt.Sprintf("P%d", seq))
				seen[seq]++
				if inConfig {
					h.x.Fail("player-switch/not-held", "play-only packet P%d follows StartUpdate in the stream before FinishedUpdate: the client is in configuration there; stream=%v writes=%v", seq, stream, hist)
				}
			default:
				h.x.Fail("player-switch/unknown-frame", "frame id=0x%x len=%d at offset %d (client in config=%v); stream so far %v", id, len(pl), off, inConfig, stream)
				return
			}
			off += n + l
		}
		for _, w := range h.writes {
			if seen[w.seq] != 1 {
				h.x.Fail("player-switch/lost-or-duplicated", "accepted packet P%d appears %d times in the stream %v; writes=%v", w.seq, seen[w.seq], stream, hist)
			}
		}
		for i, a := range h.writes {
			for _, c := range h.writes[i+1:] {
				if a.ret < c.call && strings.Index(strings.Join(stream, " ")+" ", fmt.Sprintf("P%d ", a.seq)) > strings.Index(strings.Join(stream, " ")+" ", fmt.Sprintf("P%d ", c.seq)) {
					h.x.Fail("player-switch/reordered", "P%d was written before P%d but follows it in the stream %v", a.seq, c.seq, stream)
				}
			}
		}
		h.x.Outcome(strings.Join(stream, ","))
	})
}

func TestVerif(t *testing.T) {
	vrt.Run(t, "C14", func(r *vrt.R) {
		schedrun.Run(r, []schedrun.Scenario{
			{Name: "player-switch/enter-vs-writer", Quick: -1, Thorough: -1, Body: func(x *sched.X) {
				h := newP14(x)
				x.Go("w", func() { h.write(1); h.write(2) })
				x.Go("s", func() { h.enter() })
				x.AtEnd(func() { h.leave() })
				h.finish()
			}},
			{Name: "player-switch/roundtrip-vs-writer", Quick: -1, Thorough: -1, Body: func(x *sched.X) {
				h := newP14(x)
				x.Go("w", func() { h.write(1); h.write(2); h.write(3) })
				x.Go("s", func() { h.enter(); h.leave() })
				h.finish()
			}},
			{Name: "player-switch/roundtrip-vs-2writers", Quick: 3, Thorough: 4, Body: func(x *sched.X) {
				h := newP14(x)
				x.Go("w1", func() { h.write(1); h.write(2) })
				x.Go("w2", func() { h.write(3) })
				x.Go("s", func() { h.enter(); h.leave() })
				h.finish()
			}},
		})
	})
}
