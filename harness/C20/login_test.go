package proxy

// C20 (backend-login half): the real backendLoginSessionHandler answers a backend's
// velocity:player_info request with data a Paper backend accepts, negotiates the version like
// Velocity (signed request byte), and refuses a backend that completes login without having
// requested forwarding.

import (
	"bytes"
	"context"
	"crypto/rsa"
	"fmt"
	"net"
	"strings"
	"testing"
	"time"

	"github.com/go-logr/logr"
	"github.com/robinbraemer/event"

	"go.minekube.com/gate/pkg/edition/java/config"
	"go.minekube.com/gate/pkg/edition/java/internal/velocity"
	"go.minekube.com/gate/pkg/edition/java/profile"
	"go.minekube.com/gate/pkg/edition/java/proto/packet"
	"go.minekube.com/gate/pkg/edition/java/proto/version"
	"go.minekube.com/gate/pkg/edition/java/proxy/crypto"
	"go.minekube.com/gate/pkg/edition/java/proxy/crypto/keyrevision"
	"go.minekube.com/gate/pkg/edition/java/proxy/zzverif/bfs"
	ref "go.minekube.com/gate/pkg/edition/java/proxy/zzverif/refpaperfwd"
	"go.minekube.com/gate/pkg/edition/java/proxy/zzverif/vrt"
	"go.minekube.com/gate/pkg/gate/proto"
	"go.minekube.com/gate/pkg/util/netutil"
	"go.minekube.com/gate/pkg/util/uuid"
)

type g8Key struct {
	rev    keyrevision.Revision
	holder uuid.UUID
}

var (
	g8Expiry = time.UnixMilli(1_700_000_123_456)
	g8Pub    = bytes.Repeat([]byte{0x30, 0x82, 0x01, 0x22, 0xAB}, 58)
	g8Sig    = bytes.Repeat([]byte{0x5a, 0x00, 0xff}, 171)
)

func (k *g8Key) Signer() *rsa.PublicKey                     { return nil }
func (k *g8Key) ExpiryTemporal() time.Time                  { return g8Expiry }
func (k *g8Key) Expired() bool                              { return false }
func (k *g8Key) Signature() []byte                          { return g8Sig }
func (k *g8Key) SignatureValid() bool                       { return true }
func (k *g8Key) Salt() []byte                               { return nil }
func (k *g8Key) SignedPublicKey() *rsa.PublicKey            { return nil }
func (k *g8Key) SignedPublicKeyBytes() []byte               { return g8Pub }
func (k *g8Key) VerifyDataSignature([]byte, ...[]byte) bool { return true }
func (k *g8Key) SignatureHolder() uuid.UUID                 { return k.holder }
func (k *g8Key) KeyRevision() keyrevision.Revision          { return k.rev }

var _ crypto.IdentifiedKey = (*g8Key)(nil)

type loginCase struct {
	Data   []byte `json:"data"`
	Proto  int    `json:"proto"`
	Key    int    `json:"key"`
	Remote int    `json:"remote"`
	Mode   string `json:"mode,omitempty"`
	Secret int    `json:"secret,omitempty"` // index into g8Secrets (0 = g8Secret)
}

var (
	g8Protos  = []*proto.Version{version.Minecraft_1_18_2, version.Minecraft_1_19, version.Minecraft_1_19_1, version.Minecraft_1_19_3, version.Minecraft_1_21_4}
	g8Holder  = uuid.UUID{0xde, 0xad, 0xbe, 0xef, 1, 2, 0x40, 3, 0x80, 4, 5, 6, 7, 8, 9, 10}
	g8KeyRevs = []int{ref.NoKey, ref.GenericV1, ref.LinkedV2, ref.LinkedV2}
	g8Keys    = []crypto.IdentifiedKey{nil, &g8Key{rev: keyrevision.GenericV1}, &g8Key{rev: keyrevision.LinkedV2, holder: g8Holder}, &g8Key{rev: keyrevision.LinkedV2}}
	g8Remotes = []net.Addr{
		&net.TCPAddr{IP: net.IPv4(203, 0, 113, 7), Port: 50123},
		&net.TCPAddr{IP: net.ParseIP("2001:db8::8a2e:370:7334"), Port: 50124},
		netutil.NewAddr("198.51.100.9:40000", "tcp"),
	}
	g8RemoteHosts = []string{"203.0.113.7", "2001:db8::8a2e:370:7334", "198.51.100.9"}
	g8Secret      = "0123456789abcdef-forwarding-secret"
	// the configured secret is used as its exact UTF-8 bytes (Paper: secret.getBytes(UTF_8)), no trimming or folding
	g8Secrets = []string{g8Secret, " padded secret\t", "Gehe\u00efm\u2713-\u65e5\u672c", "UPPER-lower", "x"}
	g8ID          = uuid.UUID{0x12, 0x34, 0x56, 0x78, 0x9a, 0xbc, 0x4d, 0xef, 0x80, 0x12, 0x34, 0x56, 0x78, 0x9a, 0xbc, 0xde}
	g8Props       = []profile.Property{{Name: "textures", Value: "dmFsdWU=", Signature: "c2ln"}, {Name: "x", Value: "y"}}
)

type loginRig struct {
	h        *backendLoginSessionHandler
	backend  *g8Conn
	client   *g8Conn
	response chan *connResponse
	sc       *serverConnection
}

// pluginAnswer is what a proxy plugin subscribed to ServerLoginPluginMessageEvent replies with: 64 bytes that
// look like forwarding data (32-byte "MAC" + payload) but are not signed with the secret.
var pluginAnswer = append(bytes.Repeat([]byte{0xAB}, 32), bytes.Repeat([]byte{0x01}, 32)...)

func newLoginRig(mode config.ForwardingMode, protoIdx, keyIdx, remoteIdx int, backendProto proto.Protocol) *loginRig {
	return newLoginRigX(mode, protoIdx, keyIdx, remoteIdx, backendProto, g8Secret, false)
}

func newLoginRigX(mode config.ForwardingMode, protoIdx, keyIdx, remoteIdx int, backendProto proto.Protocol, secret string, plugin bool) *loginRig {
	cfg := &config.Config{Forwarding: config.Forwarding{Mode: mode, VelocitySecret: secret, BungeeGuardSecret: "bg-token"}}
	var mgr event.Manager = event.Nop
	if plugin {
		mgr = event.New()
		event.Subscribe(mgr, 0, func(e *ServerLoginPluginMessageEvent) { e.Result().Response = pluginAnswer })
	}
	p := &Proxy{cfg: cfg, event: mgr}
	deps := &sessionHandlerDeps{proxy: p, configProvider: p, eventMgr: mgr}
	client := newG8Conn(g8Protos[protoIdx].Protocol, g8Remotes[remoteIdx])
	player := &connectedPlayer{
		MinecraftConn:      client,
		sessionHandlerDeps: deps,
		log:                logr.Discard(),
		profile:            &profile.GameProfile{ID: g8ID, Name: "Steve", Properties: g8Props},
		virtualHost:        netutil.NewAddr("play.example.org:25565", "tcp"),
		playerKey:          g8Keys[keyIdx],
	}
	target := newRegisteredServer(NewServerInfo("backend", netutil.NewAddr("127.0.0.1:25566", "tcp")))
	backend := newG8Conn(backendProto, &net.TCPAddr{IP: net.IPv4(127, 0, 0, 1), Port: 25566})
	sc := &serverConnection{server: target, player: player, log: logr.Discard(), connection: backend}
	resp := make(chan *connResponse, 4)
	rc := &connRequestCxt{Context: context.Background(), response: resp}
	h := newBackendLoginSessionHandler(sc, rc, deps).(*backendLoginSessionHandler)
	// Activated() only starts the request-deadline watcher goroutine; not needed here.
	return &loginRig{h: h, backend: backend, client: client, response: resp, sc: sc}
}

func (r *loginRig) deliver(p proto.Packet) {
	r.h.HandlePacket(&proto.PacketContext{Direction: proto.ClientBound, Protocol: r.backend.protocol, Packet: p})
}

func (c loginCase) String() string {
	return fmt.Sprintf("request data=% x client=%s key#%d remote=%s", c.Data, g8Protos[c.Proto], c.Key, g8Remotes[c.Remote])
}

// checkNegotiation: one forwarding request -> one response, parsed like Paper, version like Velocity.
func checkNegotiation(r *vrt.R, c loginCase) {
	r.Eval(1)
	secret := g8Secrets[c.Secret]
	rig := newLoginRigX(config.VelocityForwardingMode, c.Proto, c.Key, c.Remote, version.Minecraft_1_19_4.Protocol, secret, false)
	if c.Secret != 0 {
		r.Class("secret:non-default-bytes")
	}
	if p, v := vrt.Catch(func() {
		rig.deliver(&packet.LoginPluginMessage{ID: 7, Channel: velocity.IpForwardingChannel, Data: c.Data})
	}); p {
		r.Violation("login-request/panic", fmt.Sprintf("%s: %v", c, v), c)
		return
	}
	requested := ref.RequestedFromPayload(c.Data)
	want := ref.VelocityVersion(requested, int(g8Protos[c.Proto].Protocol), g8KeyRevs[c.Key])
	r.Class(fmt.Sprintf("expected-version:%d", want))
	if len(c.Data) == 1 && c.Data[0] >= 128 {
		r.Class("request-byte>=128")
	}
	if len(rig.backend.written) != 1 {
		r.Violation("login-request/response-count", fmt.Sprintf("%s: backend got %d packets %v (Velocity answers with version %d), conn closed=%d", c, len(rig.backend.written), rig.backend.written, want, rig.backend.closed), c)
		return
	}
	resp, ok := rig.backend.written[0].(*packet.LoginPluginResponse)
	if !ok || resp.ID != 7 || !resp.Success {
		r.Violation("login-request/response-shape", fmt.Sprintf("%s: backend got %#v", c, rig.backend.written[0]), c)
		return
	}
	got, err := ref.Parse([]byte(secret), resp.Data)
	if err != nil {
		r.Violation("login-request/paper-rejects", fmt.Sprintf("%s: a Paper backend configured with secret %q rejects the response: %v", c, secret, err), c)
		return
	}
	if got.Version != want {
		k := "version-mismatch"
		if len(c.Data) == 1 && c.Data[0] >= 128 {
			k = "version-mismatch-signed-byte"
		}
		r.Violation("login-request/"+k, fmt.Sprintf("%s: requested (signed byte) %d: response carries version %d, Velocity chooses %d", c, requested, got.Version, want), c)
		return
	}
	if got.AddressRaw != g8RemoteHosts[c.Remote] {
		r.Violation("login-request/address", fmt.Sprintf("%s: forwarded address %q, player's IP is %s", c, got.AddressRaw, g8RemoteHosts[c.Remote]), c)
	}
	if got.UUID != [16]byte(g8ID) || got.Name != "Steve" || len(got.Properties) != 2 || got.Properties[0].Signature != "c2ln" || got.Properties[1].HasSig {
		r.Violation("login-request/identity", fmt.Sprintf("%s: parsed %+v", c, got), c)
	}
	if want == ref.WithKey || want == ref.WithKeyV2 {
		if !got.HasKey || got.KeyExpiry != g8Expiry.UnixMilli() || !bytes.Equal(got.KeyBytes, g8Pub) || !bytes.Equal(got.KeySig, g8Sig) {
			r.Violation("login-request/key-data", fmt.Sprintf("%s: key data differs", c), c)
		}
		if want == ref.WithKeyV2 {
			h := g8Keys[c.Key].SignatureHolder()
			if got.HasSigner != (h != uuid.Nil) || got.Signer != [16]byte(h) {
				r.Violation("login-request/signer", fmt.Sprintf("%s: signer %v %x", c, got.HasSigner, got.Signer), c)
			}
		}
	}
	if want != ref.Default {
		r.Nontrivial(1)
	}
}

// ---- histories: is a backend that never asked refused?

type lop struct {
	K string `json:"k"` // REQ, REQ255, OTHER, SUCCESS
}

func (o lop) String() string { return o.K }

type histScenario struct {
	name    string
	mode    config.ForwardingMode
	backend proto.Protocol
	plugin  bool // a proxy plugin answers login plugin messages the proxy does not handle itself
	proto   int  // client protocol index (default 3 = 1.19.3)
	key     int  // key index
}

var pluginAnswered int

// channels that are NOT the forwarding channel, however similar
var foreignChannels = []string{"other:channel", "velocity:player_info2", "velocity:player_inf", "VELOCITY:PLAYER_INFO", "velocity:player_info ", "minecraft:velocity:player_info", "velocity:", "bungeecord:main", "fml:handshake"}

func runLoginHistory(sc histScenario, h []lop) bfs.Outcome {
	pi := sc.proto
	if pi == 0 {
		pi = 3
	}
	rig := newLoginRigX(sc.mode, pi, sc.key, 0, sc.backend, g8Secret, sc.plugin)
	forwarded := false
	for i, op := range h {
		before := len(rig.backend.written)
		var pk proto.Packet
		switch op.K {
		case "REQ":
			pk = &packet.LoginPluginMessage{ID: i, Channel: velocity.IpForwardingChannel, Data: []byte{4}}
		case "REQ0":
			pk = &packet.LoginPluginMessage{ID: i, Channel: velocity.IpForwardingChannel}
		case "OTHER":
			pk = &packet.LoginPluginMessage{ID: i, Channel: "other:channel", Data: []byte{1}}
		case "COMPRESS":
			pk = &packet.SetCompression{Threshold: 256}
		case "SUCCESS":
			pk = &packet.ServerLoginSuccess{UUID: g8ID, Username: "Steve"}
		}
		var newp []proto.Packet
		if pk != nil {
			if p, v := vrt.Catch(func() { rig.deliver(pk) }); p {
				return bfs.Outcome{FailKey: op.K + "/panic", FailDesc: fmt.Sprintf("op %d %s panicked: %v", i, op, v)}
			}
			newp = rig.backend.written[before:]
		}
		if strings.HasPrefix(op.K, "OTHER:") { // a foreign channel by name
			pk = &packet.LoginPluginMessage{ID: i, Channel: op.K[6:], Data: []byte{4}}
			if p, v := vrt.Catch(func() { rig.deliver(pk) }); p {
				return bfs.Outcome{FailKey: "OTHER/panic", FailDesc: fmt.Sprintf("op %d %s panicked: %v", i, op, v)}
			}
			newp = rig.backend.written[before:]
		}
		switch {
		case op.K == "COMPRESS":
			if len(newp) != 0 {
				return bfs.Outcome{FailKey: "COMPRESS/answered", FailDesc: fmt.Sprintf("op %d: %v", i, newp)}
			}
			continue
		case strings.HasPrefix(op.K, "OTHER"):
			for _, p := range newp {
				if resp, isResp := p.(*packet.LoginPluginResponse); isResp && len(resp.Data) >= 32 {
					if _, err := ref.Verify([]byte(g8Secret), resp.Data); err == nil {
						return bfs.Outcome{FailKey: "OTHER/forwarding-data-on-foreign-channel", FailDesc: fmt.Sprintf("op %d: signed forwarding data sent in answer to channel %q", i, pk.(*packet.LoginPluginMessage).Channel)}
					}
				}
			}
			if sc.plugin && len(newp) == 1 {
				if resp, isResp := newp[0].(*packet.LoginPluginResponse); isResp && resp.Success && bytes.Equal(resp.Data, pluginAnswer) {
					pluginAnswered++ // vacuity guard only: the plugin path was really taken
				}
			}
			continue
		}
		switch op.K {
		case "REQ", "REQ0":
			if sc.mode == config.VelocityForwardingMode {
				ok := len(newp) == 1
				if ok {
					resp, isResp := newp[0].(*packet.LoginPluginResponse)
					ok = isResp && resp.Success && resp.ID == i
					if ok {
						if _, err := ref.Parse([]byte(g8Secret), resp.Data); err != nil {
							return bfs.Outcome{FailKey: op.K + "/paper-rejects", FailDesc: fmt.Sprintf("op %d: %v", i, err)}
						}
					}
				}
				if !ok {
					return bfs.Outcome{FailKey: op.K + "/not-answered", FailDesc: fmt.Sprintf("op %d %s in velocity mode: backend got %v", i, op, newp)}
				}
				forwarded = true
			}
		case "OTHER":
			for _, p := range newp {
				if resp, isResp := p.(*packet.LoginPluginResponse); isResp && len(resp.Data) >= 32 {
					if _, err := ref.Verify([]byte(g8Secret), resp.Data); err == nil {
						return bfs.Outcome{FailKey: "OTHER/forwarding-data-on-foreign-channel", FailDesc: fmt.Sprintf("op %d: signed forwarding data sent in answer to channel other:channel", i)}
					}
				}
			}
		case "SUCCESS":
			var res *connResponse
			select {
			case res = <-rig.response:
			default:
			}
			refused := res != nil && res.connectionResult != nil && res.connectionResult.status == ServerDisconnectedConnectionStatus
			proceeded := len(rig.backend.handlers) > 0
			mustRefuse := sc.mode == config.VelocityForwardingMode && !forwarded
			switch {
			case mustRefuse && (!refused || proceeded || rig.backend.closed == 0 || len(newp) != 0):
				return bfs.Outcome{FailKey: "SUCCESS/not-refused", FailDesc: fmt.Sprintf("history %v: backend completed login without requesting forwarding; result=%+v proceeded=%v closed=%d wrote=%v", h[:i+1], res, proceeded, rig.backend.closed, newp)}
			case !mustRefuse && (refused || !proceeded):
				return bfs.Outcome{FailKey: "SUCCESS/refused-although-forwarded", FailDesc: fmt.Sprintf("history %v: result=%+v proceeded=%v", h[:i+1], res, proceeded)}
			}
			obs := "accepted"
			if mustRefuse {
				obs = "refused"
			}
			return bfs.Outcome{Terminal: true, Obs: obs, Key: fmt.Sprintf("T|%s|%v", obs, h)}
		}
	}
	// no merging: the handler's state is hidden, every history up to the depth bound is run
	return bfs.Outcome{Key: fmt.Sprintf("fwd=%v|%v", forwarded, h), Obs: "pending"}
}

func TestVerif(t *testing.T) {
	vrt.Run(t, "C20", func(r *vrt.R) {
		var rc struct {
			loginCase
			Scenario string `json:"scenario"`
			History  []lop  `json:"history"`
		}
		hist := []histScenario{
			{name: "login-history/velocity/backend-1.19.4", mode: config.VelocityForwardingMode, backend: version.Minecraft_1_19_4.Protocol},
			{name: "login-history/velocity/backend-1.20.2", mode: config.VelocityForwardingMode, backend: version.Minecraft_1_20_2.Protocol},
			{name: "login-history/none/backend-1.19.4", mode: config.NoneForwardingMode, backend: version.Minecraft_1_19_4.Protocol},
			{name: "login-history/legacy/backend-1.19.4", mode: config.LegacyForwardingMode, backend: version.Minecraft_1_19_4.Protocol},
			{name: "login-history/bungeeguard/backend-1.20.2", mode: config.BungeeGuardForwardingMode, backend: version.Minecraft_1_20_2.Protocol},
			{name: "login-history/velocity+plugin/backend-1.19.4", mode: config.VelocityForwardingMode, backend: version.Minecraft_1_19_4.Protocol, plugin: true},
			{name: "login-history/none+plugin/backend-1.20.2", mode: config.NoneForwardingMode, backend: version.Minecraft_1_20_2.Protocol, plugin: true},
			{name: "login-history/velocity/keyed-1.19.1-client", mode: config.VelocityForwardingMode, backend: version.Minecraft_1_19_4.Protocol, proto: 2, key: 2},
		}
		if r.ReplayInto(&rc) {
			if rc.Scenario != "" {
				for _, sc := range hist {
					if sc.name == rc.Scenario {
						if out := runLoginHistory(sc, rc.History); out.FailKey != "" {
							r.Violation(sc.name+"/"+out.FailKey, out.FailDesc, bfs.ReplayData[lop]{Scenario: sc.name, History: rc.History})
						}
						r.Eval(1)
					}
				}
				return
			}
			checkNegotiation(r, rc.loginCase)
			return
		}
		// all request payloads: every single byte, plus the lengths that fall back to the default
		var payloads [][]byte
		for b := 0; b < 256; b++ {
			payloads = append(payloads, []byte{byte(b)})
		}
		payloads = append(payloads, nil, []byte{}, []byte{4, 4}, []byte{0xff, 0xff}, []byte{2, 0, 0})
		n := 0
		for _, d := range payloads {
			for pi := range g8Protos {
				for ki := range g8Keys {
					for ri := range g8Remotes {
						n++
						if !r.Mine(n) {
							continue
						}
						checkNegotiation(r, loginCase{Data: d, Proto: pi, Key: ki, Remote: ri})
						if ri == 0 { // the configured secret, one-field deviation
							for si := 1; si < len(g8Secrets); si++ {
								if r.Thorough() || len(d) != 1 || d[0] < 8 || d[0] >= 0xF8 {
									checkNegotiation(r, loginCase{Data: d, Proto: pi, Key: ki, Remote: ri, Secret: si})
								}
							}
						}
					}
				}
			}
		}
		if r.Shard == 0 {
			ops := []lop{{"REQ"}, {"REQ0"}, {"OTHER"}, {"COMPRESS"}, {"SUCCESS"}}
			// every look-alike channel, alone and after/before a real request, then login success
			for _, sc := range hist {
				for _, ch := range foreignChannels {
					for _, h := range [][]lop{{{"OTHER:" + ch}, {"SUCCESS"}}, {{"OTHER:" + ch}, {"OTHER:" + ch}, {"SUCCESS"}}, {{"REQ"}, {"OTHER:" + ch}, {"SUCCESS"}}, {{"OTHER:" + ch}, {"REQ"}, {"SUCCESS"}}} {
						r.Eval(1)
						r.Class("foreign-channel-history")
						if out := runLoginHistory(sc, h); out.FailKey != "" {
							r.Violation(sc.name+"/"+out.FailKey, fmt.Sprintf("history %v: %s", h, out.FailDesc), bfs.ReplayData[lop]{Scenario: sc.name, History: h})
						}
					}
				}
			}
			if pluginAnswered == 0 {
				r.NotExhaustive("the plugin-subscriber scenarios never saw the plugin's answer relayed: the event path was not exercised")
			}
			r.ClassN("plugin-answered-foreign-channel", pluginAnswered)
			for _, sc := range hist {
				sc := sc
				depth := 4
				if r.Thorough() {
					depth = 6
				}
				res := bfs.Explore(bfs.Config[lop]{Name: sc.name, Ops: ops, Depth: depth, Deadline: r.DeadlineTime(),
					Run: func(h []lop) bfs.Outcome { return runLoginHistory(sc, h) }})
				res.Merge(r, sc.name)
				for o, c := range res.Outcomes {
					r.ClassN(sc.name+":"+o, c)
				}
			}
		}
	})
}
