package c20

// C20 (payload half) — Velocity modern forwarding data is authentic and negotiated like Velocity.
//
// Engine C: every requested version in [-130,260] plus int extremes x client protocols x key
// revisions x property lists x secrets x addresses x names goes through the real
// velocity.CreateForwardingData; the result is verified and parsed by the independent Paper-style
// reference (zzverif/refpaperfwd) and the chosen version is compared with Velocity's
// findForwardingVersion.

import (
	"bytes"
	"crypto/rsa"
	"errors"
	"fmt"
	"math"
	"testing"
	"time"

	"go.minekube.com/gate/pkg/edition/java/internal/velocity"
	"go.minekube.com/gate/pkg/edition/java/profile"
	"go.minekube.com/gate/pkg/edition/java/proto/version"
	"go.minekube.com/gate/pkg/edition/java/proxy/crypto"
	"go.minekube.com/gate/pkg/edition/java/proxy/crypto/keyrevision"
	ref "go.minekube.com/gate/pkg/edition/java/proxy/zzverif/refpaperfwd"
	"go.minekube.com/gate/pkg/edition/java/proxy/zzverif/vrt"
	"go.minekube.com/gate/pkg/gate/proto"
	"go.minekube.com/gate/pkg/util/uuid"
)

type fakeKey struct {
	rev    keyrevision.Revision
	holder uuid.UUID
	expiry time.Time
	pub    []byte
	sig    []byte
}

func (k *fakeKey) Signer() *rsa.PublicKey                     { return nil }
func (k *fakeKey) ExpiryTemporal() time.Time                  { return k.expiry }
func (k *fakeKey) Expired() bool                              { return false }
func (k *fakeKey) Signature() []byte                          { return k.sig }
func (k *fakeKey) SignatureValid() bool                       { return true }
func (k *fakeKey) Salt() []byte                               { return nil }
func (k *fakeKey) SignedPublicKey() *rsa.PublicKey            { return nil }
func (k *fakeKey) SignedPublicKeyBytes() []byte               { return k.pub }
func (k *fakeKey) VerifyDataSignature([]byte, ...[]byte) bool { return true }
func (k *fakeKey) SignatureHolder() uuid.UUID                 { return k.holder }
func (k *fakeKey) KeyRevision() keyrevision.Revision          { return k.rev }

var _ crypto.IdentifiedKey = (*fakeKey)(nil)

type fakePlayer struct {
	prof  profile.GameProfile
	proto proto.Protocol
	key   crypto.IdentifiedKey
}

func (p *fakePlayer) ID() uuid.UUID                       { return p.prof.ID }
func (p *fakePlayer) Username() string                    { return p.prof.Name }
func (p *fakePlayer) GameProfile() profile.GameProfile    { return p.prof }
func (p *fakePlayer) Protocol() proto.Protocol            { return p.proto }
func (p *fakePlayer) IdentifiedKey() crypto.IdentifiedKey { return p.key }

type keyCase struct {
	name string
	rev  int
	key  *fakeKey
}

type caseT struct {
	Requested int `json:"requested"`
	Proto     int `json:"proto"`
	Key       int `json:"key"`
	Props     int `json:"props"`
	Secret    int `json:"secret"`
	IP        int `json:"ip"`
	Name      int `json:"name"`
	ID        int `json:"id,omitempty"`        // index into ids
	AnyProto  int `json:"any_proto,omitempty"` // != 0: client protocol number, taken from version.Versions (Proto is ignored)
	// Shape != "": the profile is generated so that the forwarded payload (without the 32-byte MAC) is
	// SizeTarget+SizeDelta bytes long (Props is ignored; Name is ignored for shape max-name+big-value)
	Shape      string `json:"shape,omitempty"` // one-big-value | many-small | long-signature | max-name+big-value
	SizeTarget int    `json:"size_target,omitempty"`
	SizeDelta  int    `json:"size_delta,omitempty"`
}

// ---- size classes: payload lengths around plausible buffer boundaries ----

var (
	sizeTargets = []int{512, 1024, 2048, 4096, 8192, 16384, 32768}
	// the payload itself and payload+MAC (32 bytes) on either side of the boundary
	sizeDeltas = []int{-33, -32, -31, -1, 0, 1}
	sizeShapes = []string{"one-big-value", "many-small", "long-signature", "max-name+big-value"}
)

func varintLen(n int) int {
	l := 1
	for n >= 0x80 {
		n >>= 7
		l++
	}
	return l
}
func strLen(s string) int { return varintLen(len(s)) + len(s) }

// refPayloadLen is the length of the forwarded payload by the documented layout (independent of the code under test).
func refPayloadLen(ver int, addr, name string, props []profile.Property, k *fakeKey) int {
	n := varintLen(ver) + strLen(addr) + 16 + strLen(name) + varintLen(len(props))
	for _, p := range props {
		n += strLen(p.Name) + strLen(p.Value) + 1
		if p.Signature != "" {
			n += strLen(p.Signature)
		}
	}
	if ver == ref.WithKey || ver == ref.WithKeyV2 {
		n += 8 + varintLen(len(k.pub)) + len(k.pub) + varintLen(len(k.sig)) + len(k.sig)
		if ver == ref.WithKeyV2 {
			n++
			if k.holder != uuid.Nil {
				n += 16
			}
		}
	}
	return n
}

func filler(n int) string {
	if n < 0 {
		n = 0
	}
	b := make([]byte, n)
	for i := range b {
		b[i] = byte('A' + (i*7+i/26)%26)
	}
	return string(b)
}

// sizedProfile returns name and properties such that the payload is target bytes long (exact == false when a
// VarInt length prefix makes that length unreachable; the nearest length is used then).
func sizedProfile(shape string, target, ver int, addr, baseName string, k *fakeKey) (name string, props []profile.Property, exact bool) {
	name = baseName
	build := func(f int) []profile.Property {
		switch shape {
		case "one-big-value":
			return []profile.Property{{Name: "textures", Value: filler(f), Signature: "c2ln"}}
		case "long-signature":
			return []profile.Property{{Name: "textures", Value: "dmFsdWU=", Signature: filler(f + 1)}}
		case "max-name+big-value":
			return []profile.Property{{Name: "textures", Value: filler(f)}}
		}
		// many-small: properties of 12 bytes each, the last one takes up the slack
		var ps []profile.Property
		for i := 0; len(ps) < 2600 && (i+2)*12 < f; i++ {
			ps = append(ps, profile.Property{Name: fmt.Sprintf("p%04d", i), Value: "vwxyz"})
		}
		slack := f - len(ps)*12
		return append(ps, profile.Property{Name: "last", Value: filler(slack)})
	}
	if shape == "max-name+big-value" {
		name = names[3]
	}
	f := target - refPayloadLen(ver, addr, name, build(0), k)
	for i := 0; i < 6; i++ {
		if f < 0 {
			f = 0
		}
		d := target - refPayloadLen(ver, addr, name, build(f), k)
		if d == 0 {
			return name, build(f), true
		}
		f += d
	}
	return name, build(f), false
}

var (
	protos = []*proto.Version{version.Minecraft_1_13, version.Minecraft_1_18_2, version.Minecraft_1_19, version.Minecraft_1_19_1, version.Minecraft_1_19_3, version.Minecraft_1_20_2, version.Minecraft_1_21_4}
	holder = uuid.UUID{0xde, 0xad, 0xbe, 0xef, 1, 2, 0x40, 3, 0x80, 4, 5, 6, 7, 8, 9, 10}
	expiry = time.UnixMilli(1_700_000_123_456)
	pubDER = bytes.Repeat([]byte{0x30, 0x82, 0x01, 0x22, 0xAB}, 58) // 290 bytes, opaque to forwarding
	keySig = bytes.Repeat([]byte{0x5a, 0x00, 0xff}, 171)            // 513 bytes (>127: 2-byte VarInt length)
	keys   = []keyCase{
		{"none", ref.NoKey, nil},
		{"genericV1", ref.GenericV1, &fakeKey{rev: keyrevision.GenericV1, expiry: expiry, pub: pubDER, sig: keySig[:256]}},
		{"linkedV2+holder", ref.LinkedV2, &fakeKey{rev: keyrevision.LinkedV2, holder: holder, expiry: expiry, pub: pubDER, sig: keySig}},
		{"linkedV2-noholder", ref.LinkedV2, &fakeKey{rev: keyrevision.LinkedV2, expiry: expiry, pub: pubDER, sig: keySig}},
	}
	propSets = [][]profile.Property{
		nil,
		{{Name: "textures", Value: "ewogICJ0aW1lc3RhbXAiIDogMTcwMDAwMDAwMH0="}},
		{{Name: "textures", Value: "dmFsdWU=", Signature: "c2lnbmF0dXJl"}},
		{{Name: "textures", Value: "dmFsdWU=", Signature: "c2ln"}, {Name: "forgeClient", Value: "true"}},
		{{Name: "ünï\"cödé", Value: string(bytes.Repeat([]byte("x"), 300)), Signature: "日本"}},
		{{Name: "", Value: ""}, {Name: "empty-value", Value: ""}, {Name: "", Value: "empty-name", Signature: "s"}}, // empty strings: present-but-empty vs absent
		{{Name: "a", Value: "1"}, {Name: "a", Value: "2"}, {Name: "a", Value: "1"}},                                    // repeated names / identical entries keep order and multiplicity
	}
	// HMAC-SHA256 treats keys of up to 64 bytes (one block) and longer keys differently; the empty key is legal
	secrets = [][]byte{[]byte("s"), []byte("0123456789abcdef0123456789abcdef"), bytes.Repeat([]byte{0xfe, 0x01}, 50), {0}, {}, bytes.Repeat([]byte("k"), 63), bytes.Repeat([]byte("k"), 64), bytes.Repeat([]byte("K"), 65)}
	ips     = []string{"203.0.113.7", "2001:db8::8a2e:370:7334", "127.0.0.1", "::1"}
	names   = []string{"Steve", "a", "ABCDEFGHIJKLMNOP", "Ünïcödé_Nämé_16x"}
	id      = uuid.UUID{0x12, 0x34, 0x56, 0x78, 0x9a, 0xbc, 0x4d, 0xef, 0x80, 0x12, 0x34, 0x56, 0x78, 0x9a, 0xbc, 0xde}
	ids     = []uuid.UUID{id, {0, 0, 0, 0, 0, 0, 0x30, 1, 0x80, 0, 0, 0, 0, 0, 0, 2}, {0xff, 0xff, 0xff, 0xff, 0xff, 0xff, 0x4f, 0xff, 0xbf, 0xff, 0xff, 0xff, 0xff, 0xff, 0xff, 0xff}}
)

func requestedValues() []int {
	var v []int
	for i := -130; i <= 260; i++ {
		v = append(v, i)
	}
	return append(v, math.MinInt32, math.MaxInt32, math.MinInt64, math.MaxInt64, math.MinInt32-1, math.MaxInt32+1)
}

func check(r *vrt.R, c caseT) {
	kc := keys[c.Key]
	id := ids[c.ID]
	clientProto, clientName := protos[c.Proto].Protocol, protos[c.Proto].String()
	if c.AnyProto != 0 {
		clientProto, clientName = proto.Protocol(c.AnyProto), fmt.Sprintf("protocol %d", c.AnyProto)
	}
	want := ref.VelocityVersion(c.Requested, int(clientProto), kc.rev)
	cProps, cName := propSets[c.Props], names[c.Name]
	if c.Shape != "" {
		var exact bool
		cName, cProps, exact = sizedProfile(c.Shape, c.SizeTarget+c.SizeDelta, want, ips[c.IP], names[c.Name], kc.key)
		r.Class(fmt.Sprintf("payload-size:~%d", c.SizeTarget))
		r.Class("payload-shape:" + c.Shape)
		if !exact && refPayloadLen(want, ips[c.IP], cName, cProps, kc.key) > c.SizeTarget+c.SizeDelta+8 {
			r.Class("payload-size:target-below-the-minimum-for-this-version(key data)")
		} else if !exact {
			r.Class("payload-size:not-exact(varint prefix)")
		}
	}
	pl := &fakePlayer{prof: profile.GameProfile{ID: id, Name: cName, Properties: cProps}, proto: clientProto}
	if kc.key != nil {
		pl.key = kc.key
	}
	secret := secrets[c.Secret]
	r.Eval(1)
	r.Class(fmt.Sprintf("expected-version:%d", want))
	desc := func() string {
		return fmt.Sprintf("requested=%d client=%s key=%s props=%d secret#%d ip=%s name=%q uuid=%s shape=%q payload=%d%+d", c.Requested, clientName, kc.name, c.Props, c.Secret, ips[c.IP], cName, id, c.Shape, c.SizeTarget, c.SizeDelta)
	}
	var data []byte
	var err error
	if p, v := vrt.Catch(func() { data, err = velocity.CreateForwardingData(secret, ips[c.IP], pl, c.Requested) }); p {
		r.Violation("CreateForwardingData/panic", fmt.Sprintf("%s: panic %v", desc(), v), c)
		return
	}
	if err != nil {
		r.Violation("CreateForwardingData/error", fmt.Sprintf("%s: Velocity would answer with version %d, got error %v", desc(), want, err), c)
		return
	}
	got, perr := ref.Parse(secret, data)
	if perr != nil {
		key := "paper-parse"
		if errors.Is(perr, ref.ErrBadMAC) {
			key = "hmac"
		}
		r.Violation("CreateForwardingData/"+key, fmt.Sprintf("%s: a Paper backend rejects the payload: %v", desc(), perr), c)
		return
	}
	if got.Version != want {
		k := "version-mismatch"
		if c.Requested > 127 && c.Requested < 256 {
			k = "version-mismatch-requested-128-255" // not reachable through a signed byte; see the login pass
		}
		r.Violation("findForwardingVersion/"+k, fmt.Sprintf("%s: payload carries version %d, Velocity chooses %d", desc(), got.Version, want), c)
		return
	}
	if got.AddressRaw != ips[c.IP] {
		r.Violation("CreateForwardingData/address", fmt.Sprintf("%s: parsed address %q", desc(), got.AddressRaw), c)
	}
	if c.Shape != "" {
		if wantLen := refPayloadLen(want, ips[c.IP], cName, cProps, kc.key); len(data)-32 != wantLen {
			r.Violation("CreateForwardingData/payload-length", fmt.Sprintf("%s: %d bytes after the MAC, the layout gives %d", desc(), len(data)-32, wantLen), c)
		}
	}
	if got.UUID != [16]byte(id) || got.Name != cName {
		r.Violation("CreateForwardingData/identity", fmt.Sprintf("%s: parsed uuid %x name %q", desc(), got.UUID, got.Name), c)
	}
	if len(got.Properties) != len(cProps) {
		r.Violation("CreateForwardingData/properties", fmt.Sprintf("%s: parsed %d properties", desc(), len(got.Properties)), c)
	} else {
		for i, p := range cProps {
			g := got.Properties[i]
			if g.Name != p.Name || g.Value != p.Value || g.Signature != p.Signature || g.HasSig != (p.Signature != "") {
				r.Violation("CreateForwardingData/properties", fmt.Sprintf("%s: property %d parsed as %+v, want %+v", desc(), i, g, p), c)
			}
		}
	}
	if want == ref.WithKey || want == ref.WithKeyV2 {
		k := kc.key
		if !got.HasKey || got.KeyExpiry != k.expiry.UnixMilli() || !bytes.Equal(got.KeyBytes, k.pub) || !bytes.Equal(got.KeySig, k.sig) {
			r.Violation("CreateForwardingData/key-data", fmt.Sprintf("%s: key data differs (expiry %d, %d key bytes, %d sig bytes)", desc(), got.KeyExpiry, len(got.KeyBytes), len(got.KeySig)), c)
		}
		if want == ref.WithKeyV2 {
			if got.HasSigner != (k.holder != uuid.Nil) || got.Signer != [16]byte(k.holder) {
				r.Violation("CreateForwardingData/signer", fmt.Sprintf("%s: signer flag %v uuid %x, holder %s", desc(), got.HasSigner, got.Signer, k.holder), c)
			}
		}
	} else if got.HasKey {
		r.Violation("CreateForwardingData/key-data", fmt.Sprintf("%s: version %d must not carry key data", desc(), want), c)
	}
	// authenticity is bound to the configured secret
	other := append(append([]byte{}, secret...), 1)
	if _, e := ref.Verify(other, data); e == nil {
		r.Violation("CreateForwardingData/hmac-any-secret", fmt.Sprintf("%s: payload also verifies under a different secret", desc()), c)
	}
	if want != ref.Default || len(cProps) > 0 {
		r.Nontrivial(1)
	}
}

func TestVerif(t *testing.T) {
	vrt.Run(t, "C20", func(r *vrt.R) {
		var rc caseT
		if r.ReplayInto(&rc) {
			check(r, rc)
			return
		}
		reqs := requestedValues()
		n := 0
		for _, req := range reqs {
			for pi := range protos {
				for ki := range keys {
					n++
					if !r.Mine(n) {
						continue
					}
					if r.Expired() {
						return
					}
					base := caseT{Requested: req, Proto: pi, Key: ki}
					if r.Thorough() {
						// full product of the remaining fields
						for a := range propSets {
							for b := range secrets {
								for c := range ips {
									for d := range names {
										x := base
										x.Props, x.Secret, x.IP, x.Name = a, b, c, d
										check(r, x)
									}
								}
							}
						}
						continue
					}
					// quick: every vector that deviates from the base in at most one of the remaining fields
					check(r, base)
					for a := 1; a < len(propSets); a++ {
						x := base
						x.Props = a
						check(r, x)
					}
					for b := 1; b < len(secrets); b++ {
						x := base
						x.Secret = b
						check(r, x)
					}
					for c := 1; c < len(ips); c++ {
						x := base
						x.IP = c
						check(r, x)
					}
					for d := 1; d < len(names); d++ {
						x := base
						x.Name = d
						check(r, x)
					}
					for e := 1; e < len(ids); e++ {
						x := base
						x.ID = e
						check(r, x)
					}
				}
			}
		}
		// ---- payload SIZE classes: every forwarding version the code can emit, with and without key data ----
		verCases := []caseT{ // (protocol index, key index, requested)
			{Proto: 1, Key: 0, Requested: 1}, // v1, no key
			{Proto: 3, Key: 1, Requested: 1}, // v1, keyed player but key data not requested
			{Proto: 3, Key: 1, Requested: 2}, // v2 + GenericV1 key data
			{Proto: 3, Key: 2, Requested: 3}, // v3 + LinkedV2 key data + signer
			{Proto: 3, Key: 3, Requested: 4}, // v3, no signer
			{Proto: 6, Key: 0, Requested: 4}, // v4 (lazy session), no key data
		}
		for _, vc := range verCases {
			for _, tg := range sizeTargets {
				for _, dl := range sizeDeltas {
					for si, sh := range sizeShapes {
						n++
						if !r.Mine(n) {
							continue
						}
						x := vc
						x.Shape, x.SizeTarget, x.SizeDelta = sh, tg, dl
						x.Secret, x.IP = si%len(secrets), (si+tg/512)%len(ips)
						check(r, x)
					}
				}
			}
		}

		// ---- version negotiation for EVERY protocol the proxy knows (not only the era representatives) ----
		nv := 0
		for _, v := range version.Versions {
			for _, req := range reqs {
				if !r.Thorough() && (req < -2 || req > 6) && req != 127 && req != 128 && req != 255 && req != 256 && req != -128 && req != -129 {
					continue
				}
				for ki := range keys {
					n++
					if !r.Mine(n) {
						continue
					}
					check(r, caseT{Requested: req, Key: ki, AnyProto: int(v.Protocol)})
					nv++
				}
			}
		}
		r.ClassN("all-known-protocols-sweep", nv)
		r.Sample(map[string]any{"requested_values": len(reqs), "protocols": len(protos), "key_cases": len(keys), "property_sets": len(propSets), "secrets": len(secrets), "addresses": len(ips), "names": len(names)})
	})
}
