package c20

// C20 (payload half) — Velocity modern forwarding data is authentic and negotiated like Velocity.
//
// Engine C: every requested version in [-130,260] plus int extremes x client protocols x key
// revisions x property lists x secrets x addresses x names goes through the real
// velocity.CreateForwardingData; the result is verified and parsed by the independent Paper-style
// reference (zzverif/refpaperfwd) and the chosen version is compared with Velocity's
// findForwardingVersion.

import (
	"bytes"
	"crypto/rsa"
	"errors"
	"fmt"
	"math"
	"testing"
	"time"

	"go.minekube.com/gate/pkg/edition/java/internal/velocity"
	"go.minekube.com/gate/pkg/edition/java/profile"
	"go.minekube.com/gate/pkg/edition/java/proto/version"
	"go.minekube.com/gate/pkg/edition/java/proxy/crypto"
	"go.minekube.com/gate/pkg/edition/java/proxy/crypto/keyrevision"
	ref "go.minekube.com/gate/pkg/edition/java/proxy/zzverif/refpaperfwd"
	"go.minekube.com/gate/pkg/edition/java/proxy/zzverif/vrt"
	"go.minekube.com/gate/pkg/gate/proto"
	"go.minekube.com/gate/pkg/util/uuid"
)

type fakeKey struct {
	rev    keyrevision.Revision
	holder uuid.UUID
	expiry time.Time
	pub    []byte
	sig    []byte
}

func (k *fakeKey) Signer() *rsa.PublicKey                     { return nil }
func (k *fakeKey) ExpiryTemporal() time.Time                  { return k.expiry }
func (k *fakeKey) Expired() bool                              { return false }
func (k *fakeKey) Signature() []byte                          { return k.sig }
func (k *fakeKey) SignatureValid() bool                       { return true }
func (k *fakeKey) Salt() []byte                               { return nil }
func (k *fakeKey) SignedPublicKey() *rsa.PublicKey            { return nil }
func (k *fakeKey) SignedPublicKeyBytes() []byte               { return k.pub }
func (k *fakeKey) VerifyDataSignature([]byte, ...[]byte) bool { return true }
func (k *fakeKey) SignatureHolder() uuid.UUID                 { return k.holder }
func (k *fakeKey) KeyRevision() keyrevision.Revision          { return k.rev }

var _ crypto.IdentifiedKey = (*fakeKey)(nil)

type fakePlayer struct {
	prof  profile.GameProfile
	proto proto.Protocol
	key   crypto.IdentifiedKey
}

func (p *fakePlayer) ID() uuid.UUID                       { return p.prof.ID }
func (p *fakePlayer) Username() string                    { return p.prof.Name }
func (p *fakePlayer) GameProfile() profile.GameProfile    { return p.prof }
func (p *fakePlayer) Protocol() proto.Protocol            { return p.proto }
func (p *fakePlayer) IdentifiedKey() crypto.IdentifiedKey { return p.key }

type keyCase struct {
	name string
	rev  int
	key  *fakeKey
}

type caseT struct {
	Requested int `json:"requested"`
	Proto     int `json:"proto"`
	Key       int `json:"key"`
	Props     int `json:"props"`
	Secret    int `json:"secret"`
	IP        int `json:"ip"`
	Name      int `json:"name"`
	ID        int `json:"id,omitempty"`        // index into ids
	AnyProto  int `json:"any_proto,omitempty"` // != 0: client protocol number, taken from version.Versions (Proto is ignored)
}

var (
	protos = []*proto.Version{version.Minecraft_1_13, version.Minecraft_1_18_2, version.Minecraft_1_19, version.Minecraft_1_19_1, version.Minecraft_1_19_3, version.Minecraft_1_20_2, version.Minecraft_1_21_4}
	holder = uuid.UUID{0xde, 0xad, 0xbe, 0xef, 1, 2, 0x40, 3, 0x80, 4, 5, 6, 7, 8, 9, 10}
	expiry = time.UnixMilli(1_700_000_123_456)
	pubDER = bytes.Repeat([]byte{0x30, 0x82, 0x01, 0x22, 0xAB}, 58) // 290 bytes, opaque to forwarding
	keySig = bytes.Repeat([]byte{0x5a, 0x00, 0xff}, 171)            // 513 bytes (>127: 2-byte VarInt length)
	keys   = []keyCase{
		{"none", ref.NoKey, nil},
		{"genericV1", ref.GenericV1, &fakeKey{rev: keyrevision.GenericV1, expiry: expiry, pub: pubDER, sig: keySig[:256]}},
		{"linkedV2+holder", ref.LinkedV2, &fakeKey{rev: keyrevision.LinkedV2, holder: holder, expiry: expiry, pub: pubDER, sig: keySig}},
		{"linkedV2-noholder", ref.LinkedV2, &fakeKey{rev: keyrevision.LinkedV2, expiry: expiry, pub: pubDER, sig: keySig}},
	}
	propSets = [][]profile.Property{
		nil,
		{{Name: "textures", Value: "ewogICJ0aW1lc3RhbXAiIDogMTcwMDAwMDAwMH0="}},
		{{Name: "textures", Value: "dmFsdWU=", Signature: "c2lnbmF0dXJl"}},
		{{Name: "textures", Value: "dmFsdWU=", Signature: "c2ln"}, {Name: "forgeClient", Value: "true"}},
		{{Name: "ünï\"cödé", Value: string(bytes.Repeat([]byte("x"), 300)), Signature: "日本"}},
	}
	secrets = [][]byte{[]byte("s"), []byte("0123456789abcdef0123456789abcdef"), bytes.Repeat([]byte{0xfe, 0x01}, 50), {0}}
	ips     = []string{"203.0.113.7", "2001:db8::8a2e:370:7334", "127.0.0.1", "::1"}
	names   = []string{"Steve", "a", "ABCDEFGHIJKLMNOP", "Ünïcödé_Nämé_16x"}
	id      = uuid.UUID{0x12, 0x34, 0x56, 0x78, 0x9a, 0xbc, 0x4d, 0xef, 0x80, 0x12, 0x34, 0x56, 0x78, 0x9a, 0xbc, 0xde}
	ids     = []uuid.UUID{id, {0, 0, 0, 0, 0, 0, 0x30, 1, 0x80, 0, 0, 0, 0, 0, 0, 2}, {0xff, 0xff, 0xff, 0xff, 0xff, 0xff, 0x4f, 0xff, 0xbf, 0xff, 0xff, 0xff, 0xff, 0xff, 0xff, 0xff}}
)

func requestedValues() []int {
	var v []int
	for i := -130; i <= 260; i++ {
		v = append(v, i)
	}
	return append(v, math.MinInt32, math.MaxInt32, math.MinInt64, math.MaxInt64, math.MinInt32-1, math.MaxInt32+1)
}

func check(r *vrt.R, c caseT) {
	kc := keys[c.Key]
	id := ids[c.ID]
	clientProto, clientName := protos[c.Proto].Protocol, protos[c.Proto].String()
	if c.AnyProto != 0 {
		clientProto, clientName = proto.Protocol(c.AnyProto), fmt.Sprintf("protocol %d", c.AnyProto)
	}
	pl := &fakePlayer{prof: profile.GameProfile{ID: id, Name: names[c.Name], Properties: propSets[c.Props]}, proto: clientProto}
	if kc.key != nil {
		pl.key = kc.key
	}
	secret := secrets[c.Secret]
	want := ref.VelocityVersion(c.Requested, int(clientProto), kc.rev)
	r.Eval(1)
	r.Class(fmt.Sprintf("expected-version:%d", want))
	desc := func() string {
		return fmt.Sprintf("requested=%d client=%s key=%s props=%d secret#%d ip=%s name=%q uuid=%s", c.Requested, clientName, kc.name, c.Props, c.Secret, ips[c.IP], names[c.Name], id)
	}
	var data []byte
	var err error
	if p, v := vrt.Catch(func() { data, err = velocity.CreateForwardingData(secret, ips[c.IP], pl, c.Requested) }); p {
		r.Violation("CreateForwardingData/panic", fmt.Sprintf("%s: panic %v", desc(), v), c)
		return
	}
	if err != nil {
		r.Violation("CreateForwardingData/error", fmt.Sprintf("%s: Velocity would answer with version %d, got error %v", desc(), want, err), c)
		return
	}
	got, perr := ref.Parse(secret, data)
	if perr != nil {
		key := "paper-parse"
		if errors.Is(perr, ref.ErrBadMAC) {
			key = "hmac"
		}
		r.Violation("CreateForwardingData/"+key, fmt.Sprintf("%s: a Paper backend rejects the payload: %v", desc(), perr), c)
		return
	}
	if got.Version != want {
		k := "version-mismatch"
		if c.Requested > 127 && c.Requested < 256 {
			k = "version-mismatch-requested-128-255" // not reachable through a signed byte; see the login pass
		}
		r.Violation("findForwardingVersion/"+k, fmt.Sprintf("%s: payload carries version %d, Velocity chooses %d", desc(), got.Version, want), c)
		return
	}
	if got.AddressRaw != ips[c.IP] {
		r.Violation("CreateForwardingData/address", fmt.Sprintf("%s: parsed address %q", desc(), got.AddressRaw), c)
	}
	if got.UUID != [16]byte(id) || got.Name != names[c.Name] {
		r.Violation("CreateForwardingData/identity", fmt.Sprintf("%s: parsed uuid %x name %q", desc(), got.UUID, got.Name), c)
	}
	if len(got.Properties) != len(propSets[c.Props]) {
		r.Violation("CreateForwardingData/properties", fmt.Sprintf("%s: parsed %d properties", desc(), len(got.Properties)), c)
	} else {
		for i, p := range propSets[c.Props] {
			g := got.Properties[i]
			if g.Name != p.Name || g.Value != p.Value || g.Signature != p.Signature || g.HasSig != (p.Signature != "") {
				r.Violation("CreateForwardingData/properties", fmt.Sprintf("%s: property %d parsed as %+v, want %+v", desc(), i, g, p), c)
			}
		}
	}
	if want == ref.WithKey || want == ref.WithKeyV2 {
		k := kc.key
		if !got.HasKey || got.KeyExpiry != k.expiry.UnixMilli() || !bytes.Equal(got.KeyBytes, k.pub) || !bytes.Equal(got.KeySig, k.sig) {
			r.Violation("CreateForwardingData/key-data", fmt.Sprintf("%s: key data differs (expiry %d, %d key bytes, %d sig bytes)", desc(), got.KeyExpiry, len(got.KeyBytes), len(got.KeySig)), c)
		}
		if want == ref.WithKeyV2 {
			if got.HasSigner != (k.holder != uuid.Nil) || got.Signer != [16]byte(k.holder) {
				r.Violation("CreateForwardingData/signer", fmt.Sprintf("%s: signer flag %v uuid %x, holder %s", desc(), got.HasSigner, got.Signer, k.holder), c)
			}
		}
	} else if got.HasKey {
		r.Violation("CreateForwardingData/key-data", fmt.Sprintf("%s: version %d must not carry key data", desc(), want), c)
	}
	// authenticity is bound to the configured secret
	other := append(append([]byte{}, secret...), 1)
	if _, e := ref.Verify(other, data); e == nil {
		r.Violation("CreateForwardingData/hmac-any-secret", fmt.Sprintf("%s: payload also verifies under a different secret", desc()), c)
	}
	if want != ref.Default || len(propSets[c.Props]) > 0 {
		r.Nontrivial(1)
	}
}

func TestVerif(t *testing.T) {
	vrt.Run(t, "C20", func(r *vrt.R) {
		var rc caseT
		if r.ReplayInto(&rc) {
			check(r, rc)
			return
		}
		reqs := requestedValues()
		n := 0
		for _, req := range reqs {
			for pi := range protos {
				for ki := range keys {
					n++
					if !r.Mine(n) {
						continue
					}
					if r.Expired() {
						return
					}
					base := caseT{Requested: req, Proto: pi, Key: ki}
					if r.Thorough() {
						// full product of the remaining fields
						for a := range propSets {
							for b := range secrets {
								for c := range ips {
									for d := range names {
										x := base
										x.Props, x.Secret, x.IP, x.Name = a, b, c, d
										check(r, x)
									}
								}
							}
						}
						continue
					}
					// quick: every vector that deviates from the base in at most one of the remaining fields
					check(r, base)
					for a := 1; a < len(propSets); a++ {
						x := base
						x.Props = a
						check(r, x)
					}
					for b := 1; b < len(secrets); b++ {
						x := base
						x.Secret = b
						check(r, x)
					}
					for c := 1; c < len(ips); c++ {
						x := base
						x.IP = c
						check(r, x)
					}
					for d := 1; d < len(names); d++ {
						x := base
						x.Name = d
						check(r, x)
					}
					for e := 1; e < len(ids); e++ {
						x := base
						x.ID = e
						check(r, x)
					}
				}
			}
		}
		// ---- version negotiation for EVERY protocol the proxy knows (not only the era representatives) ----
		nv := 0
		for _, v := range version.Versions {
			for _, req := range reqs {
				if !r.Thorough() && (req < -2 || req > 6) && req != 127 && req != 128 && req != 255 && req != 256 && req != -128 && req != -129 {
					continue
				}
				for ki := range keys {
					n++
					if !r.Mine(n) {
						continue
					}
					check(r, caseT{Requested: req, Key: ki, AnyProto: int(v.Protocol)})
					nv++
				}
			}
		}
		r.ClassN("all-known-protocols-sweep", nv)
		r.Sample(map[string]any{"requested_values": len(reqs), "protocols": len(protos), "key_cases": len(keys), "property_sets": len(propSets), "secrets": len(secrets), "addresses": len(ips), "names": len(names)})
	})
}
