package c28

// Independent reference for the vanilla player-info packets (1.19.3+): a byte-level encoder used
// for backend packets, a byte-level decoder, and the client-side model of
// ClientPacketListener.handlePlayerInfoUpdate / handlePlayerInfoRemove. Nothing here uses the
// repo's codecs.
//
// ClientboundPlayerInfoUpdatePacket wire format:
//   EnumSet<Action> as a fixed bit set of ceil(nActions/8) bytes (nActions: 6 up to 1.21.1,
//   7 from 1.21.2 (UPDATE_LIST_ORDER), 8 from 1.21.4 (UPDATE_HAT)), VarInt entry count, then per
//   entry: UUID and, for every action of the set IN ENUM ORDER
//   (ADD_PLAYER, INITIALIZE_CHAT, UPDATE_GAME_MODE, UPDATE_LISTED, UPDATE_LATENCY,
//   UPDATE_DISPLAY_NAME, UPDATE_LIST_ORDER, UPDATE_HAT), that action's payload.
// Components: JSON string up to 1.20.2, nameless NBT from 1.20.3.

import (
	"encoding/binary"
	"encoding/json"
	"errors"
	"fmt"

	"go.minekube.com/gate/pkg/edition/java/proto/version"
	"go.minekube.com/gate/pkg/gate/proto"
	"go.minekube.com/gate/pkg/util/uuid"
)

const (
	actAdd = iota
	actChat
	actGameMode
	actListed
	actLatency
	actDisplayName
	actListOrder
	actHat
)

type refEntry struct {
	id          uuid.UUID
	name        string
	latency     int
	gameMode    int
	listed      bool
	displayName *string
	order       int
	showHat     bool
	props       []refProp // profile properties sent with ADD_PLAYER
	chat        []byte    // nil: "no chat session"; else the encoded session (uuid, expiry, key, signature)
}

// refProp is one profile property; sig == nil: unsigned (the optional signature is absent).
type refProp struct {
	name, value string
	sig         *string
}

// ---------------------------------------------------------------- primitives

func putVarInt(b []byte, v int) []byte {
	u := uint32(int32(v))
	for {
		if u&^0x7f == 0 {
			return append(b, byte(u))
		}
		b = append(b, byte(u&0x7f)|0x80)
		u >>= 7
	}
}

func putString(b []byte, s string) []byte { return append(putVarInt(b, len(s)), s...) }
func putBool(b []byte, v bool) []byte {
	if v {
		return append(b, 1)
	}
	return append(b, 0)
}

func nbtNetwork(p proto.Protocol) bool { return p.GreaterEqual(version.Minecraft_1_20_3) }

func putTextComponent(b []byte, p proto.Protocol, s string) []byte {
	if !nbtNetwork(p) {
		j, _ := json.Marshal(map[string]string{"text": s})
		return putString(b, string(j))
	}
	// nameless TAG_Compound { "text": TAG_String s }
	b = append(b, 10, 8)
	b = binary.BigEndian.AppendUint16(b, 4)
	b = append(b, "text"...)
	b = binary.BigEndian.AppendUint16(b, uint16(len(s)))
	b = append(b, s...)
	return append(b, 0)
}

type rd struct {
	b   []byte
	off int
}

var errShort = errors.New("unexpected end of packet")

func (r *rd) byte() (byte, error) {
	if r.off >= len(r.b) {
		return 0, errShort
	}
	c := r.b[r.off]
	r.off++
	return c, nil
}
func (r *rd) n(n int) ([]byte, error) {
	if n < 0 || r.off+n > len(r.b) {
		return nil, errShort
	}
	s := r.b[r.off : r.off+n]
	r.off += n
	return s, nil
}
func (r *rd) varInt() (int, error) {
	var u uint32
	for i := 0; i < 5; i++ {
		c, err := r.byte()
		if err != nil {
			return 0, err
		}
		u |= uint32(c&0x7f) << (7 * i)
		if c&0x80 == 0 {
			return int(int32(u)), nil
		}
	}
	return 0, errors.New("VarInt too big")
}
func (r *rd) bool() (bool, error) {
	c, err := r.byte()
	return c != 0, err
}
func (r *rd) str(max int) (string, error) {
	n, err := r.varInt()
	if err != nil {
		return "", err
	}
	if n < 0 || n > max*3 {
		return "", fmt.Errorf("string length %d out of range (max %d chars)", n, max)
	}
	s, err := r.n(n)
	if err != nil {
		return "", err
	}
	if len([]rune(string(s))) > max {
		return "", fmt.Errorf("string longer than %d chars", max)
	}
	return string(s), nil
}
func (r *rd) u16() (int, error) {
	s, err := r.n(2)
	if err != nil {
		return 0, err
	}
	return int(binary.BigEndian.Uint16(s)), nil
}

// nbtPayload reads the payload of a tag of the given type; it returns the value of a string tag
// and, for a compound, the value of its "text" string child ("" if none).
func (r *rd) nbtPayload(typ byte, depth int) (string, error) {
	if depth > 16 {
		return "", errors.New("nbt too deep")
	}
	switch typ {
	case 1:
		_, err := r.n(1)
		return "", err
	case 2:
		_, err := r.n(2)
		return "", err
	case 3, 5:
		_, err := r.n(4)
		return "", err
	case 4, 6:
		_, err := r.n(8)
		return "", err
	case 8:
		n, err := r.u16()
		if err != nil {
			return "", err
		}
		s, err := r.n(n)
		return string(s), err
	case 9:
		et, err := r.byte()
		if err != nil {
			return "", err
		}
		s, err := r.n(4)
		if err != nil {
			return "", err
		}
		for i := 0; i < int(int32(binary.BigEndian.Uint32(s))); i++ {
			if _, err := r.nbtPayload(et, depth+1); err != nil {
				return "", err
			}
		}
		return "", nil
	case 10:
		text := ""
		for {
			t, err := r.byte()
			if err != nil {
				return "", err
			}
			if t == 0 {
				return text, nil
			}
			n, err := r.u16()
			if err != nil {
				return "", err
			}
			name, err := r.n(n)
			if err != nil {
				return "", err
			}
			v, err := r.nbtPayload(t, depth+1)
			if err != nil {
				return "", err
			}
			if t == 8 && string(name) == "text" {
				text = v
			}
		}
	}
	return "", fmt.Errorf("unsupported nbt tag type %d", typ)
}

// component returns the plain text of a text component (all the harness ever sends).
func (r *rd) component(p proto.Protocol) (string, error) {
	if !nbtNetwork(p) {
		s, err := r.str(262144)
		if err != nil {
			return "", err
		}
		var v any
		if err := json.Unmarshal([]byte(s), &v); err != nil {
			return "", fmt.Errorf("component json %q: %w", s, err)
		}
		switch t := v.(type) {
		case string:
			return t, nil
		case map[string]any:
			txt, _ := t["text"].(string)
			return txt, nil
		}
		return "", fmt.Errorf("unsupported component json %q", s)
	}
	typ, err := r.byte()
	if err != nil {
		return "", err
	}
	if typ != 8 && typ != 10 {
		return "", fmt.Errorf("component nbt root tag %d", typ)
	}
	return r.nbtPayload(typ, 0)
}

// ---------------------------------------------------------------- encoder (backend side)

func refEncodeUpdate(p proto.Protocol, actions []int, entries []refEntry) []byte {
	var set byte
	for _, a := range actions {
		set |= 1 << a
	}
	b := []byte{set}
	b = putVarInt(b, len(entries))
	for _, e := range entries {
		b = append(b, e.id[:]...)
		for a := actAdd; a <= actHat; a++ {
			if set&(1<<a) == 0 {
				continue
			}
			switch a {
			case actAdd:
				b = putString(b, e.name)
				b = putVarInt(b, len(e.props))
				for _, pr := range e.props {
					b = putString(b, pr.name)
					b = putString(b, pr.value)
					b = putBool(b, pr.sig != nil)
					if pr.sig != nil {
						b = putString(b, *pr.sig)
					}
				}
			case actChat:
				b = putBool(b, e.chat != nil)
				b = append(b, e.chat...)
			case actGameMode:
				b = putVarInt(b, e.gameMode)
			case actListed:
				b = putBool(b, e.listed)
			case actLatency:
				b = putVarInt(b, e.latency)
			case actDisplayName:
				b = putBool(b, e.displayName != nil)
				if e.displayName != nil {
					b = putTextComponent(b, p, *e.displayName)
				}
			case actListOrder:
				b = putVarInt(b, e.order)
			case actHat:
				b = putBool(b, e.showHat)
			}
		}
	}
	return b
}

func refEncodeRemove(list []uuid.UUID) []byte {
	b := putVarInt(nil, len(list))
	for _, id := range list {
		b = append(b, id[:]...)
	}
	return b
}

// ---------------------------------------------------------------- client model

type clientEntry struct {
	name, props string
	gameMode    int // GameType.DEFAULT_MODE = survival
	listed      bool
	latency     int
	displayName *string
	order       int
	showHat     bool
}

type client struct {
	proto    proto.Protocol
	nActions int
	entries  map[uuid.UUID]*clientEntry
}

func newClient(p proto.Protocol, nActions int) *client {
	return &client{proto: p, nActions: nActions, entries: map[uuid.UUID]*clientEntry{}}
}

type decodedEntry struct {
	id uuid.UUID
	clientEntry
}

// handleUpdate decodes the bytes like FriendlyByteBuf/ClientboundPlayerInfoUpdatePacket and
// applies them like ClientPacketListener.handlePlayerInfoUpdate. Any decode problem (short read,
// trailing bytes, unknown action bit) is what disconnects a real client.
func (c *client) handleUpdate(b []byte) error {
	r := &rd{b: b}
	set, err := r.byte()
	if err != nil {
		return err
	}
	if int(set)>>c.nActions != 0 {
		return fmt.Errorf("action bit set beyond the %d actions of this version (bits %08b)", c.nActions, set)
	}
	n, err := r.varInt()
	if err != nil {
		return err
	}
	if n < 0 || n > 1<<16 {
		return fmt.Errorf("entry count %d", n)
	}
	var list []decodedEntry
	for i := 0; i < n; i++ {
		var e decodedEntry
		idb, err := r.n(16)
		if err != nil {
			return err
		}
		copy(e.id[:], idb)
		for a := actAdd; a < c.nActions; a++ {
			if set&(1<<a) == 0 {
				continue
			}
			switch a {
			case actAdd:
				if e.name, err = r.str(16); err != nil {
					return fmt.Errorf("profile name: %w", err)
				}
				pn, err := r.varInt()
				if err != nil {
					return err
				}
				if pn < 0 || pn > 16 {
					return fmt.Errorf("property count %d", pn)
				}
				for k := 0; k < pn; k++ {
					name, err := r.str(64)
					if err != nil {
						return fmt.Errorf("property name: %w", err)
					}
					val, err := r.str(32767)
					if err != nil {
						return fmt.Errorf("property value: %w", err)
					}
					has, err := r.bool()
					if err != nil {
						return err
					}
					sig := ""
					if has {
						if sig, err = r.str(1024); err != nil {
							return fmt.Errorf("property signature: %w", err)
						}
					}
					if k > 0 {
						e.props += ","
					}
					e.props += name + "=" + val + "/" + sig
				}
			case actChat:
				has, err := r.bool()
				if err != nil {
					return err
				}
				if has {
					if _, err = r.n(16 + 8); err != nil { // session id, expiry
						return err
					}
					for k := 0; k < 2; k++ { // public key, key signature
						l, err := r.varInt()
						if err != nil {
							return err
						}
						if _, err = r.n(l); err != nil {
							return err
						}
					}
				}
			case actGameMode:
				if e.gameMode, err = r.varInt(); err != nil {
					return err
				}
			case actListed:
				if e.listed, err = r.bool(); err != nil {
					return err
				}
			case actLatency:
				if e.latency, err = r.varInt(); err != nil {
					return err
				}
			case actDisplayName:
				has, err := r.bool()
				if err != nil {
					return err
				}
				if has {
					s, err := r.component(c.proto)
					if err != nil {
						return fmt.Errorf("display name: %w", err)
					}
					e.displayName = &s
				}
			case actListOrder:
				if e.order, err = r.varInt(); err != nil {
					return err
				}
			case actHat:
				if e.showHat, err = r.bool(); err != nil {
					return err
				}
			}
		}
		list = append(list, e)
	}
	if r.off != len(b) {
		return fmt.Errorf("%d bytes left over after the last entry (packet larger than expected)", len(b)-r.off)
	}
	// apply
	if set&(1<<actAdd) != 0 {
		for _, e := range list {
			if _, ok := c.entries[e.id]; !ok {
				c.entries[e.id] = &clientEntry{name: e.name, props: e.props, showHat: true}
			}
		}
	}
	for _, e := range list {
		cur := c.entries[e.id]
		if cur == nil {
			continue // "Ignoring player info update for unknown player"
		}
		for a := actAdd; a < c.nActions; a++ {
			if set&(1<<a) == 0 {
				continue
			}
			switch a {
			case actGameMode:
				cur.gameMode = e.gameMode
				if cur.gameMode < 0 || cur.gameMode > 3 {
					cur.gameMode = 0 // GameType.byId: out of range -> SURVIVAL
				}
			case actListed:
				cur.listed = e.listed
			case actLatency:
				cur.latency = e.latency
			case actDisplayName:
				cur.displayName = e.displayName
			case actListOrder:
				cur.order = e.order
			case actHat:
				cur.showHat = e.showHat
			}
		}
	}
	return nil
}

func (c *client) handleRemove(b []byte) error {
	r := &rd{b: b}
	n, err := r.varInt()
	if err != nil {
		return err
	}
	if n < 0 || n > 1<<16 {
		return fmt.Errorf("remove count %d", n)
	}
	for i := 0; i < n; i++ {
		idb, err := r.n(16)
		if err != nil {
			return err
		}
		var id uuid.UUID
		copy(id[:], idb)
		delete(c.entries, id)
	}
	if r.off != len(b) {
		return fmt.Errorf("%d bytes left over in remove packet", len(b)-r.off)
	}
	return nil
}
