package c28

// C28 — the tab-list model matches what the client was told.
//
// Engine B: BFS over histories of tab-list API calls and backend player-info packets on a fresh
// real internal/tablist.TabList (1.19.3+ viewers). Every packet the viewer is given is encoded
// by the real encoder for the viewer's protocol and the BYTES are decoded by an independent
// vanilla-client decoder (refclient.go) and applied to a reference client model
// (ClientPacketListener.handlePlayerInfoUpdate / handlePlayerInfoRemove). Backend packets are
// produced by an independent vanilla encoder, decoded by the real Upsert.Decode (as the proxy
// does), given to ProcessUpdate/ProcessRemove, and the same bytes reach the client model (the
// proxy forwards them unchanged). After every step TabList.Entries() must equal the client model.

import (
	"bytes"
	"fmt"
	"sort"
	"strings"
	"testing"
	"time"

	"go.minekube.com/common/minecraft/component"
	"go.minekube.com/gate/pkg/edition/java/profile"
	"go.minekube.com/gate/pkg/edition/java/proto/packet/tablist/playerinfo"
	"go.minekube.com/gate/pkg/edition/java/proto/version"
	"go.minekube.com/gate/pkg/edition/java/proxy/crypto"
	apitab "go.minekube.com/gate/pkg/edition/java/proxy/tablist"
	"go.minekube.com/gate/pkg/edition/java/proxy/zzverif/bfs"
	"go.minekube.com/gate/pkg/edition/java/proxy/zzverif/vrt"
	"go.minekube.com/gate/pkg/gate/proto"
	"go.minekube.com/gate/pkg/internal/tablist"
	"go.minekube.com/gate/pkg/util/uuid"
)

// ---------------------------------------------------------------- operations

// Op is one step of a history. I = entry id index (0/1).
//
//	K="add"   V=variant A|B|C|D : TabList.Add(new entry object)
//	K="readd"                   : TabList.Add(the entry object currently in Entries()[id])
//	K="set"   V=lat|gm|unlist|list|dn|dnnil|order : Entries()[id].SetX(...)
//	K="rm"                      : TabList.RemoveAll(id)
//	K="rmall"                   : TabList.RemoveAll()
//	K="bup"   V=join|add|lat|gm|list|unlist|dn|dnnil|order|gm+lat|join2 : backend player-info update
//	          V=joinP (join with a signed and an unsigned profile property) | joinS (join with a chat session)
//	          V=lat2|lat2r|dn2|dn2r|unlist2|unlist2r : ONE packet with an entry for each id (r: id1 first) -
//	            the ids may be known or unknown independently
//	K="brm2"                    : backend remove packet listing both ids
//	K="brm"                     : backend player-info remove
//	K="add2"  V=AB|BA           : TabList.Add(e0, e1) — two ids in ONE call
//	K="adddup"                  : TabList.Add(variant A of id, variant B of id) — the same id twice in one call
//	K="rm2"                     : TabList.RemoveAll(id0, id1) — two ids in one call
//	K="sset"  V=lat|dn          : setter on a STALE handle: an Entry obtained from Entries() earlier that has since
//	                              been removed from the list or replaced by another Entry object of the same id
type Op struct {
	K string `json:"k"`
	I int    `json:"i,omitempty"`
	V string `json:"v,omitempty"`
}

func (o Op) String() string {
	s := o.K
	if o.V != "" {
		s += ":" + o.V
	}
	if o.K != "rmall" && o.K != "add2" && o.K != "rm2" && o.K != "brm2" && !(o.K == "bup" && strings.HasSuffix(strings.TrimSuffix(o.V, "r"), "2")) {
		s += fmt.Sprintf("(%d)", o.I)
	}
	return s
}

var ids = [2]uuid.UUID{
	{0x11, 0x11, 0x11, 0x11, 0, 0, 0x40, 0, 0x80, 0, 0, 0, 0, 0, 0, 1},
	{0x22, 0x22, 0x22, 0x22, 0, 0, 0x40, 0, 0x80, 0, 0, 0, 0, 0, 0, 2},
}

func text(s string) component.Component { return &component.Text{Content: s} }

func variant(v string, i int, owner tablist.InternalTabList) *tablist.Entry {
	a := tablist.EntryAttributes{
		Profile:  profile.GameProfile{ID: ids[i], Name: fmt.Sprintf("p%d", i)},
		GameMode: -1, Listed: true, ShowsHat: true,
	}
	switch v {
	case "B":
		a.Latency, a.GameMode, a.Listed, a.DisplayName, a.ListOrder = 50*time.Millisecond, 1, false, text("B"), 2
	case "C":
		a.GameMode, a.DisplayName = 0, text("C")
	case "D":
		a.Profile.Properties = []profile.Property{{Name: "textures", Value: "dmFsdWU=", Signature: "c2ln"}}
	case "E": // an unsigned property (the signature is optional on the wire) next to a signed one
		a.Profile.Properties = []profile.Property{{Name: "textures", Value: "dW5zaWduZWQ="}, {Name: "extra", Value: "eA==", Signature: "c2ln"}}
	}
	return &tablist.Entry{OwningTabList: owner, EntryAttributes: a}
}

// ---------------------------------------------------------------- viewer

type viewer struct {
	proto    proto.Protocol
	client   *client
	buffered int
	errs     []string
}

func (v *viewer) deliver(p proto.Packet) {
	var buf bytes.Buffer
	if err := p.Encode(&proto.PacketContext{Direction: proto.ClientBound, Protocol: v.proto, Packet: p}, &buf); err != nil {
		v.errs = append(v.errs, fmt.Sprintf("encode %T: %v", p, err))
		return
	}
	switch p.(type) {
	case *playerinfo.Upsert:
		if err := v.client.handleUpdate(buf.Bytes()); err != nil {
			v.errs = append(v.errs, fmt.Sprintf("client cannot decode player-info update % x: %v", buf.Bytes(), err))
		}
	case *playerinfo.Remove:
		if err := v.client.handleRemove(buf.Bytes()); err != nil {
			v.errs = append(v.errs, fmt.Sprintf("client cannot decode player-info remove % x: %v", buf.Bytes(), err))
		}
	default:
		v.errs = append(v.errs, fmt.Sprintf("unexpected packet %T", p))
	}
}

// Every packet the viewer is given counts as sent, in the order given (a real connection keeps
// buffered and written packets in order); whether a buffered packet is flushed is only counted.
func (v *viewer) WritePacket(p proto.Packet) error  { v.buffered = 0; v.deliver(p); return nil }
func (v *viewer) BufferPacket(p proto.Packet) error { v.buffered++; v.deliver(p); return nil }
func (v *viewer) Flush() error                      { v.buffered = 0; return nil }
func (v *viewer) Protocol() proto.Protocol          { return v.proto }
func (v *viewer) IdentifiedKey() crypto.IdentifiedKey {
	return nil
}

// ---------------------------------------------------------------- comparing

func dnText(c component.Component) string {
	if c == nil {
		return "<nil>"
	}
	if t, ok := c.(*component.Text); ok && len(t.Extra) == 0 {
		return "text:" + t.Content
	}
	return fmt.Sprintf("%#v", c)
}

type view struct {
	name, props string
	lat, gm     int
	listed      bool
	dn          string
	order       int
}

func (w view) String() string {
	return fmt.Sprintf("{name=%s props=%s latency=%d gamemode=%d listed=%v displayname=%s order=%d}", w.name, w.props, w.lat, w.gm, w.listed, w.dn, w.order)
}

func propsStr(ps []profile.Property) string {
	var s []string
	for _, p := range ps {
		s = append(s, p.Name+"="+p.Value+"/"+p.Signature)
	}
	return strings.Join(s, ",")
}

func gateView(e apitab.Entry, withOrder bool) view {
	gm := e.GameMode()
	if gm == -1 {
		gm = 0 // "not set": the client shows its default (survival)
	}
	w := view{name: e.Profile().Name, props: propsStr(e.Profile().Properties), lat: int(e.Latency().Milliseconds()), gm: gm, listed: e.Listed(), dn: dnText(e.DisplayName())}
	if withOrder {
		w.order = e.ListOrder()
	}
	return w
}

func clientView(e *clientEntry, withOrder bool) view {
	w := view{name: e.name, props: e.props, lat: e.latency, gm: e.gameMode, listed: e.listed, dn: "<nil>"}
	if e.displayName != nil {
		w.dn = "text:" + *e.displayName
	}
	if withOrder {
		w.order = e.order
	}
	return w
}

// compare returns "" when the proxy's entries equal the client's, else field-kind and description.
func compare(tl tablist.InternalTabList, c *client, withOrder bool) (kind, desc string) {
	g := tl.Entries()
	for i, id := range ids {
		ge, gok := g[id]
		ce, cok := c.entries[id]
		switch {
		case gok && !cok:
			return "entry-missing-on-client", fmt.Sprintf("proxy reports entry %d %v, the client holds none", i, gateView(ge, withOrder))
		case !gok && cok:
			return "entry-only-on-client", fmt.Sprintf("client holds entry %d %v, the proxy reports none", i, clientView(ce, withOrder))
		case !gok:
			continue
		}
		gv, cv := gateView(ge, withOrder), clientView(ce, withOrder)
		if gv != cv {
			k := "field"
			switch {
			case gv.name != cv.name || gv.props != cv.props:
				k = "profile"
			case gv.lat != cv.lat:
				k = "latency"
			case gv.gm != cv.gm:
				k = "gamemode"
			case gv.listed != cv.listed:
				k = "listed"
			case gv.dn != cv.dn:
				k = "displayname"
			case gv.order != cv.order:
				k = "order"
			}
			return k + "-mismatch", fmt.Sprintf("entry %d: proxy reports %v, client holds %v", i, gv, cv)
		}
	}
	if len(g) != len(c.entries) {
		return "entry-count", fmt.Sprintf("proxy reports %d entries, client holds %d", len(g), len(c.entries))
	}
	return "", ""
}

func stateKey(tl tablist.InternalTabList) string {
	g := tl.Entries()
	var parts []string
	for i, id := range ids {
		e, ok := g[id]
		if !ok {
			continue
		}
		parts = append(parts, fmt.Sprintf("%d:%v|gm%d|hat%v|ord%d|chat%v", i, gateView(e, true), e.GameMode(), e.ShowHat(), e.ListOrder(), e.ChatSession() != nil))
	}
	sort.Strings(parts)
	return strings.Join(parts, ";")
}

// ---------------------------------------------------------------- running a history

type scenario struct {
	name           string
	proto          proto.Protocol
	depthQ, depthT int
}

func (sc scenario) nActions() int {
	switch {
	case sc.proto.GreaterEqual(version.Minecraft_1_21_4):
		return 8
	case sc.proto.GreaterEqual(version.Minecraft_1_21_2):
		return 7
	}
	return 6
}

func (sc scenario) ops() []Op {
	var ops []Op
	sets := []string{"lat", "gm", "unlist", "list", "dn", "dnnil"}
	bups := []string{"join", "add", "lat", "gm", "list", "unlist", "dn", "dnnil", "gm+lat", "joinP", "joinS"}
	if sc.nActions() >= 7 {
		sets = append(sets, "order")
		bups = append(bups, "order")
	}
	for i := 0; i < 2; i++ {
		for _, v := range []string{"A", "B", "C", "D", "E"} {
			ops = append(ops, Op{K: "add", I: i, V: v})
		}
		ops = append(ops, Op{K: "readd", I: i})
		for _, v := range sets {
			ops = append(ops, Op{K: "set", I: i, V: v})
		}
		ops = append(ops, Op{K: "rm", I: i})
		for _, v := range bups {
			ops = append(ops, Op{K: "bup", I: i, V: v})
		}
		ops = append(ops, Op{K: "brm", I: i})
	}
	ops = append(ops, Op{K: "rmall"}, Op{K: "bup", V: "join2"})
	ops = append(ops, Op{K: "add2", V: "AB"}, Op{K: "add2", V: "BA"}, Op{K: "rm2"}, Op{K: "brm2"})
	for _, v := range []string{"lat2", "lat2r", "dn2", "dn2r", "unlist2", "unlist2r"} {
		ops = append(ops, Op{K: "bup", V: v})
	}
	for i := 0; i < 2; i++ {
		ops = append(ops, Op{K: "adddup", I: i}, Op{K: "sset", I: i, V: "lat"}, Op{K: "sset", I: i, V: "dn"})
	}
	return ops
}

// backendUpdate builds the vanilla bytes of a backend player-info update.
func backendUpdate(sc scenario, op Op) []byte {
	reversed := strings.HasSuffix(op.V, "2r")
	e := refEntry{id: ids[op.I], name: fmt.Sprintf("p%d", op.I), latency: 30, gameMode: 3, listed: true, order: 4, showHat: true}
	dn := "N"
	var actions []int
	two := false
	if base := strings.TrimSuffix(op.V, "r"); strings.HasSuffix(base, "2") && base != "join2" {
		// a partial update for both ids in one packet
		two = true
		op.V = strings.TrimSuffix(base, "2")
		e.latency = 45
		dn = "N2"
	}
	switch op.V {
	case "joinP", "joinS":
		actions = []int{actAdd, actChat, actGameMode, actListed, actLatency, actDisplayName}
		if sc.nActions() >= 7 {
			actions = append(actions, actListOrder)
		}
		if sc.nActions() >= 8 {
			actions = append(actions, actHat)
		}
		e.latency, e.gameMode, e.order = 25, 1, 0
		if op.V == "joinP" {
			sig := "c2lnbmF0dXJl"
			e.props = []refProp{{name: "textures", value: "dGV4", sig: &sig}, {name: "unsigned", value: "dQ=="}}
		} else {
			e.chat = refChatSession()
		}
	case "join", "join2":
		actions = []int{actAdd, actChat, actGameMode, actListed, actLatency, actDisplayName}
		if sc.nActions() >= 7 {
			actions = append(actions, actListOrder)
		}
		if sc.nActions() >= 8 {
			actions = append(actions, actHat)
		}
		e.displayName = nil
		e.latency, e.gameMode, e.order = 20, 0, 0
	case "add":
		actions = []int{actAdd}
	case "lat":
		actions = []int{actLatency}
	case "gm":
		actions = []int{actGameMode}
	case "list":
		actions = []int{actListed}
	case "unlist":
		actions = []int{actListed}
		e.listed = false
	case "dn":
		actions = []int{actDisplayName}
		e.displayName = &dn
	case "dnnil":
		actions = []int{actDisplayName}
	case "order":
		actions = []int{actListOrder}
	case "gm+lat":
		actions = []int{actGameMode, actLatency}
		e.gameMode, e.latency = 2, 90
	}
	entries := []refEntry{e}
	if two {
		e2 := e
		e.id, e.name = ids[0], "p0"
		e2.id, e2.name = ids[1], "p1"
		entries = []refEntry{e, e2}
		if reversed {
			entries = []refEntry{e2, e}
		}
	}
	if op.V == "join2" {
		e2 := e
		e.id, e.name = ids[0], "p0"
		e2.id, e2.name = ids[1], "p1"
		entries = []refEntry{e, e2}
	}
	return refEncodeUpdate(sc.proto, actions, entries)
}

func runHistory(sc scenario, h []Op) bfs.Outcome {
	withOrder := sc.nActions() >= 7
	cl := newClient(sc.proto, sc.nActions())
	v := &viewer{proto: sc.proto, client: cl}
	tl := tablist.New(v)
	trace := make([]string, 0, len(h))
	failAt := func(i int, op Op, key, desc string) bfs.Outcome {
		return bfs.Outcome{FailKey: key, FailDesc: fmt.Sprintf("op %d %s: %s\nhistory so far: %s", i, op, desc, strings.Join(trace, " ; "))}
	}
	lastUnflushed := false
	var stale [2]apitab.Entry // see Op "sset"
	for i, op := range h {
		trace = append(trace, op.String())
		before := tl.Entries()
		var dupFirst apitab.Entry
		var call func() error
		switch op.K {
		case "add2":
			e0, e1 := variant(op.V[:1], 0, tl), variant(op.V[1:], 1, tl)
			call = func() error { return tl.Add(e0, e1) }
		case "adddup":
			e0, e1 := variant("A", op.I, tl), variant("B", op.I, tl)
			dupFirst = e0 // listed by the first half of the call, replaced by the second
			call = func() error { return tl.Add(e0, e1) }
		case "rm2":
			call = func() error { return tl.RemoveAll(ids[0], ids[1]) }
		case "sset":
			e := stale[op.I]
			if e == nil {
				return bfs.Outcome{FailKey: "harness/sset-without-stale-handle", FailDesc: fmt.Sprintf("op %d %s enabled without a stale handle; history %v", i, op, h)}
			}
			switch op.V {
			case "lat":
				call = func() error { return e.SetLatency(110 * time.Millisecond) }
			case "dn":
				call = func() error { return e.SetDisplayName(text("stale")) }
			}
		case "add":
			e := variant(op.V, op.I, tl)
			call = func() error { return tl.Add(e) }
		case "readd":
			e := tl.Entries()[ids[op.I]]
			call = func() error { return tl.Add(e) }
		case "set":
			e := tl.Entries()[ids[op.I]]
			switch op.V {
			case "lat":
				call = func() error { return e.SetLatency(70 * time.Millisecond) }
			case "gm":
				call = func() error { return e.SetGameMode(2) }
			case "unlist":
				call = func() error { return e.SetListed(false) }
			case "list":
				call = func() error { return e.SetListed(true) }
			case "dn":
				call = func() error { return e.SetDisplayName(text("S")) }
			case "dnnil":
				call = func() error { return e.SetDisplayName(nil) }
			case "order":
				call = func() error { return e.SetListOrder(5) }
			}
		case "rm":
			call = func() error { return tl.RemoveAll(ids[op.I]) }
		case "rmall":
			call = func() error { return tl.RemoveAll() }
		case "bup":
			raw := backendUpdate(sc, op)
			call = func() error {
				// what the proxy does with a backend packet: decode, process, forward the bytes
				var pk playerinfo.Upsert
				rd := bytes.NewReader(raw)
				if err := pk.Decode(&proto.PacketContext{Direction: proto.ClientBound, Protocol: sc.proto}, rd); err != nil {
					return fmt.Errorf("proxy cannot decode a vanilla player-info update % x: %w", raw, err)
				}
				if rd.Len() != 0 {
					return fmt.Errorf("proxy left %d bytes of a vanilla player-info update undecoded", rd.Len())
				}
				// handleUpsertPlayerInfo: an error of ProcessUpdate is logged ("ignored"), the packet is forwarded anyway
				_ = tl.ProcessUpdate(&pk)
				if err := cl.handleUpdate(raw); err != nil {
					return fmt.Errorf("HARNESS: reference client rejects reference encoding: %w", err)
				}
				return nil
			}
		case "brm", "brm2":
			list := []uuid.UUID{ids[op.I]}
			if op.K == "brm2" {
				list = []uuid.UUID{ids[0], ids[1]}
			}
			raw := refEncodeRemove(list)
			call = func() error {
				var pk playerinfo.Remove
				if err := pk.Decode(&proto.PacketContext{Direction: proto.ClientBound, Protocol: sc.proto}, bytes.NewReader(raw)); err != nil {
					return fmt.Errorf("proxy cannot decode a vanilla player-info remove: %w", err)
				}
				tl.ProcessRemove(&pk)
				return cl.handleRemove(raw)
			}
		}
		var err error
		panicked, val := vrt.Catch(func() { err = call() })
		if panicked {
			return failAt(i, op, op.K+"/panic", fmt.Sprintf("panicked: %v", val))
		}
		if err != nil {
			return failAt(i, op, op.K+"/error", fmt.Sprintf("returned error: %v", err))
		}
		if len(v.errs) > 0 {
			return failAt(i, op, op.K+"/client-decode", strings.Join(v.errs, "; "))
		}
		if kind, desc := compare(tl, cl, withOrder); kind != "" {
			keyOp := op.K
			if kind == "profile-mismatch" && (op.K == "add2" || op.K == "adddup") {
				// Add over an existing id with another profile: the same (listed) finding as through a single-entry Add
				keyOp = "add"
			}
			return failAt(i, op, keyOp+"/"+kind, desc)
		}
		lastUnflushed = v.buffered > 0
		after := tl.Entries()
		for k, id := range ids {
			if b := before[id]; b != nil && after[id] != b {
				stale[k] = b
			}
		}
		if dupFirst != nil {
			stale[op.I] = dupFirst
		}
	}
	obs := "flushed"
	if lastUnflushed {
		obs = "last-op-left-buffered-packets"
	}
	// The proxy-side state is fully observable through Entries() (attributes of every entry) and
	// equals the client model whenever no violation was reported; entry objects of equal
	// attributes behave equally, so equal keys have equal futures.
	// a stale handle keeps the attributes it had, but its setters only use the profile id and the new value:
	// whether one exists is all that matters for the future
	return bfs.Outcome{Key: stateKey(tl) + fmt.Sprintf("|stale:%v,%v", stale[0] != nil, stale[1] != nil), Obs: obs}
}

func enabled(h []Op, op Op) bool {
	if op.K != "readd" && op.K != "set" && op.K != "sset" {
		return true
	}
	// needs an entry for that id / a stale handle for that id: decided on the op history alone (cheap
	// over-approximation is not allowed — replay the presence exactly)
	present, stale := [2]bool{}, [2]bool{}
	gone := func(i int) { // the listed Entry object of id i leaves the list
		if present[i] {
			stale[i] = true
		}
		present[i] = false
	}
	for _, o := range h {
		switch o.K {
		case "add": // a NEW object: an existing one is replaced
			gone(o.I)
			present[o.I] = true
		case "adddup":
			gone(o.I)
			present[o.I], stale[o.I] = true, true // the first of the two objects is replaced by the second
		case "add2":
			gone(0)
			gone(1)
			present = [2]bool{true, true}
		case "rm", "brm":
			gone(o.I)
		case "rmall", "rm2", "brm2":
			gone(0)
			gone(1)
		case "bup":
			switch o.V {
			case "join", "add", "joinP", "joinS":
				present[o.I] = true
			case "join2":
				present = [2]bool{true, true}
			}
		}
	}
	if op.K == "sset" {
		return stale[op.I]
	}
	return present[op.I]
}

func scenarios() []scenario {
	return []scenario{
		{"viewer-1.19.3", version.Minecraft_1_19_3.Protocol, 3, 4},
		{"viewer-1.21.2", version.Minecraft_1_21_2.Protocol, 3, 4},
		{"viewer-1.21.4", version.Minecraft_1_21_4.Protocol, 3, 4},
	}
}

func TestVerif(t *testing.T) {
	vrt.Run(t, "C28", func(r *vrt.R) {
		scs := scenarios()
		var rp bfs.ReplayData[Op]
		if r.ReplayInto(&rp) {
			for _, sc := range scs {
				if sc.name != rp.Scenario {
					continue
				}
				out := runHistory(sc, rp.History)
				r.Eval(1)
				if out.FailKey != "" {
					r.Violation(sc.name+"/"+out.FailKey, out.FailDesc, rp)
				}
				return
			}
			t.Fatalf("replay: unknown scenario %q", rp.Scenario)
		}
		for _, sc := range scs {
			if r.Expired() {
				r.NotExhaustive("scenario " + sc.name + " not started: soft deadline")
				continue
			}
			depth := sc.depthQ
			if r.Thorough() {
				depth = sc.depthT
			}
			sc := sc
			res := bfs.Explore(bfs.Config[Op]{
				Name: sc.name, Ops: sc.ops(), Depth: depth, Shard: r.Shard, NShards: r.NShards, Deadline: r.DeadlineTime(),
				Enabled: enabled,
				Run: func(h []Op) bfs.Outcome {
					out := runHistory(sc, h)
					last := h[len(h)-1]
					r.Class("last-op:" + last.K)
					if last.K == "bup" {
						r.Class("backend-update:" + last.V)
					}
					if last.K == "bup" && strings.HasSuffix(strings.TrimSuffix(last.V, "r"), "2") && last.V != "join2" && len(h) > 1 {
						r.Class("two-entry-partial-update-after-history")
					}
					if out.Obs == "last-op-left-buffered-packets" {
						r.Class("note:op-left-buffered-unflushed-packets")
					}
					return out
				},
			})
			res.Merge(r, sc.name)
		}
	})
}
