package c28

import (
	"crypto/rand"
	"crypto/rsa"
	"crypto/x509"
	"encoding/binary"
	"sync"
)

// refChatSession returns the vanilla encoding of a RemoteChatSession.Data: session uuid, then the profile
// public key data (expiry as epoch millis, X.509 public key as a byte array, key signature as a byte array).
// The key is a real RSA key (the proxy parses it); the signature is not verified when a session is relayed.
var refChatSession = sync.OnceValue(func() []byte {
	k, err := rsa.GenerateKey(rand.Reader, 1024)
	if err != nil {
		panic(err)
	}
	der, err := x509.MarshalPKIXPublicKey(&k.PublicKey)
	if err != nil {
		panic(err)
	}
	b := []byte{0xC5, 0x55, 0x10, 0x4E, 0, 0, 0x40, 0, 0x80, 0, 0, 0, 0, 0, 0, 9}
	b = binary.BigEndian.AppendUint64(b, 4102444800000) // 2100-01-01
	b = putVarInt(b, len(der))
	b = append(b, der...)
	sig := make([]byte, 256)
	for i := range sig {
		sig[i] = byte(i*7 + 3)
	}
	b = putVarInt(b, len(sig))
	return append(b, sig...)
})
