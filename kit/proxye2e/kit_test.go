package proxy

// End-to-end kit for engine D (bubble): a real Proxy serving in-memory connections inside a
// testing/synctest bubble, with a scripted vanilla client and scripted backends. The harness
// injects ONE event, calls synctest.Wait() (all goroutines durably blocked) and inspects what
// each peer received. Shared by the C15/C16 harnesses (mapped into package proxy by the driver).

import (
	"context"
	"errors"
	"fmt"
	"net"
	"testing"
	"testing/synctest"
	"time"

	"github.com/robinbraemer/event"
	"go.minekube.com/gate/pkg/edition/java/auth"
	"go.minekube.com/gate/pkg/edition/java/config"
	"go.minekube.com/gate/pkg/edition/java/proto/packet"
	cfgpacket "go.minekube.com/gate/pkg/edition/java/proto/packet/config"
	"go.minekube.com/gate/pkg/edition/java/proto/state"
	"go.minekube.com/gate/pkg/edition/java/proto/util"
	"go.minekube.com/gate/pkg/edition/java/proto/version"
	"go.minekube.com/gate/pkg/edition/java/proxy/zzverif/e2e"
	"go.minekube.com/gate/pkg/gate/proto"
	"go.minekube.com/gate/pkg/util/netutil"
	"go.minekube.com/gate/pkg/util/uuid"
)

var kitAuth auth.Authenticator

func kitInit(t *testing.T) {
	if kitAuth == nil {
		a, err := auth.New(auth.Options{})
		if err != nil {
			t.Fatal(err)
		}
		kitAuth = a
	}
}

type kWorld struct {
	t       *testing.T
	p       *Proxy
	cfg     *config.Config
	servers map[string]*kServer
	dialLog []string
	events  []string
	// onPreConnect, when set, is called for every ServerPreConnectEvent (the harness scripts allow/deny/redirect)
	onPreConnect func(e *ServerPreConnectEvent)
}

type kServer struct {
	w     *kWorld
	name  string
	addr  net.Addr
	mode  string // "accept" | "refuse" | "hang"
	conns []*kPeer
}

func (s *kServer) Name() string   { return s.name }
func (s *kServer) Addr() net.Addr { return s.addr }
func (s *kServer) Dial(ctx context.Context, player Player) (net.Conn, error) {
	s.w.dialLog = append(s.w.dialLog, s.name+":"+s.mode)
	switch s.mode {
	case "refuse":
		return nil, errors.New("connection refused (scripted)")
	case "hang":
		<-ctx.Done()
		return nil, ctx.Err()
	}
	c := e2e.NewConn(fmt.Sprintf("10.0.0.1:%d", 40000+len(s.w.dialLog)), s.addr.String())
	s.conns = append(s.conns, &kPeer{conn: c, df: e2e.NewDeframer(), outThreshold: -1, name: fmt.Sprintf("%s#%d", s.name, len(s.conns))})
	return c, nil
}

// last returns the most recent backend-side peer of the server (nil if never dialled).
func (s *kServer) last() *kPeer {
	if len(s.conns) == 0 {
		return nil
	}
	return s.conns[len(s.conns)-1]
}

type kOpts struct {
	Servers         []string // registered backends, in order
	Try             []string
	ClientThreshold int // proxy->client compression threshold (-1 off)
	Mutate          func(cfg *config.Config)
}

// newKWorld must run inside a bubble.
func newKWorld(t *testing.T, o kOpts) *kWorld {
	kitInit(t)
	cfg := config.DefaultConfig
	cfg.OnlineMode = false
	cfg.Servers = map[string]string{}
	cfg.Try = append([]string{}, o.Try...)
	cfg.ForcedHosts = map[string][]string{}
	cfg.Quota.Connections.Enabled = false
	cfg.Quota.Logins.Enabled = false
	cfg.Forwarding.Mode = config.NoneForwardingMode
	cfg.Compression.Threshold = o.ClientThreshold
	// NOTE: the proxy computes timeouts as time.Duration(cfg.X)*time.Millisecond although cfg.X already is a
	// duration in nanoseconds (the default 5s becomes ~57 days). The kit stores the millisecond COUNT so that the
	// effective timeouts are the intended 5 s / 30 s and the timeout paths are reachable on the fake clock.
	cfg.ConnectionTimeout = 5000
	cfg.ReadTimeout = 30000
	cfg.BuiltinCommands = false
	cfg.BungeePluginChannelEnabled = false
	if o.Mutate != nil {
		o.Mutate(&cfg)
	}
	w := &kWorld{t: t, cfg: &cfg, servers: map[string]*kServer{}}
	p, err := New(Options{Config: &cfg, EventMgr: event.New(), Authenticator: kitAuth})
	if err != nil {
		t.Fatal(err)
	}
	if err := p.init(); err != nil {
		t.Fatal(err)
	}
	w.p = p
	event.Subscribe(p.Event(), 0, func(e *ServerPreConnectEvent) {
		if w.onPreConnect != nil {
			w.onPreConnect(e)
		}
	})
	for i, n := range o.Servers {
		s := &kServer{w: w, name: n, addr: netutil.NewAddr(fmt.Sprintf("10.9.0.%d:25565", i+1), "tcp"), mode: "accept"}
		w.servers[n] = s
		if _, err := p.Register(s); err != nil {
			t.Fatal(err)
		}
	}
	return w
}

// close tears the world down so that every goroutine of the bubble can exit.
func (w *kWorld) close(clients ...*kPeer) {
	for _, c := range clients {
		c.conn.PeerClose()
	}
	synctest.Wait()
	for _, s := range w.servers {
		for _, b := range s.conns {
			b.conn.PeerClose()
		}
	}
	synctest.Wait()
	w.p.Shutdown(nil)
	synctest.Wait()
	// let pending timers (context timeouts, keep-alive/poll sleeps) run out
	time.Sleep(2 * time.Minute)
	synctest.Wait()
}

// ---- peers ----

type kPeer struct {
	name         string
	conn         *e2e.Conn
	df           *e2e.Deframer // proxy -> peer stream
	outThreshold int           // peer -> proxy framing
	protocol     proto.Protocol
	inbox        [][]byte
	loginPhase   bool // client only: watch for SetCompression in the proxy -> client stream
	err          error
}

func (k *kPeer) sendPayload(payload []byte) { k.conn.Inject(e2e.Frame(payload, k.outThreshold)) }

func (k *kPeer) sendPacket(reg *state.Registry, dir proto.Direction, p proto.Packet) {
	b, err := e2e.Encode(reg, dir, k.protocol, p)
	if err != nil {
		panic(fmt.Sprintf("kit: cannot encode %T for protocol %d: %v", p, k.protocol, err))
	}
	k.sendPayload(b)
}

// pump moves everything the proxy wrote into the inbox (as packet payloads).
func (k *kPeer) pump() {
	k.df.Feed(k.conn.Take())
	for {
		f, err := k.df.Next()
		if err != nil {
			k.err = err
			return
		}
		if f == nil {
			return
		}
		if k.loginPhase {
			if id, data, err := e2e.SplitID(f); err == nil && id == 0x03 {
				if t, n := e2e.GetVarInt(data); n > 0 {
					k.df.SetThreshold(int(t))
					k.outThreshold = int(t)
				}
			}
		}
		k.inbox = append(k.inbox, f)
	}
}

// take returns and clears the inbox (after pumping).
func (k *kPeer) take() [][]byte {
	k.pump()
	out := k.inbox
	k.inbox = nil
	return out
}

func kString(b []byte, s string) []byte {
	b = e2e.PutVarInt(b, int32(len(s)))
	return append(b, s...)
}

func readKString(b []byte) (string, []byte, bool) {
	l, n := e2e.GetVarInt(b)
	if n <= 0 || int(l) > len(b)-n || l < 0 {
		return "", nil, false
	}
	return string(b[n : n+int(l)]), b[n+int(l):], true
}

// ---- client ----

func (w *kWorld) newClient(protocol proto.Protocol, remote string) *kPeer {
	c := &kPeer{name: "client", conn: e2e.NewConn("10.0.0.1:25565", remote), df: e2e.NewDeframer(), outThreshold: -1, protocol: protocol, loginPhase: true}
	go w.p.HandleConn(c.conn)
	synctest.Wait()
	return c
}

func (c *kPeer) clientHandshake(host string, next int32) {
	p := e2e.PutVarInt(nil, 0)
	p = e2e.PutVarInt(p, int32(c.protocol))
	p = kString(p, host)
	p = append(p, 0x63, 0xDD)
	p = e2e.PutVarInt(p, next)
	c.sendPayload(p)
}

func kitConfigPhase(p proto.Protocol) bool { return p.GreaterEqual(version.Minecraft_1_20_2) }

// clientLogin performs handshake + login start (+ login acknowledged on 1.20.2+) and returns
// the payloads received up to and including LoginSuccess.
func (c *kPeer) clientLogin(name, host string) error {
	c.clientHandshake(host, 2)
	p := e2e.PutVarInt(nil, 0)
	p = kString(p, name)
	switch {
	case kitConfigPhase(c.protocol): // 1.20.2+: name, uuid
		id := uuid.OfflinePlayerUUID(name)
		p = append(p, id[:]...)
	case c.protocol.GreaterEqual(version.Minecraft_1_19_3): // name, optional uuid
		p = append(p, 0)
	case c.protocol.GreaterEqual(version.Minecraft_1_19_1): // name, optional key, optional uuid
		p = append(p, 0, 0)
	case c.protocol.GreaterEqual(version.Minecraft_1_19): // name, optional key
		p = append(p, 0)
	}
	c.sendPayload(p)
	synctest.Wait()
	got := c.take()
	ok := false
	for _, f := range got {
		id, _, _ := e2e.SplitID(f)
		if id == 0x02 {
			ok = true
		}
	}
	if !ok {
		return fmt.Errorf("no LoginSuccess; proxy sent %d frames, closed=%v err=%v", len(got), c.conn.ClosedByProxy(), c.err)
	}
	c.loginPhase = false
	if kitConfigPhase(c.protocol) {
		c.sendPayload(e2e.PutVarInt(nil, 0x03)) // LoginAcknowledged
	}
	synctest.Wait()
	return nil
}

// ---- backend ----

// backendExpectLogin consumes the proxy's Handshake + LoginStart and returns the handshake address and user name.
func (b *kPeer) backendExpectLogin(protocol proto.Protocol) (addr, user string, err error) {
	b.protocol = protocol
	fr := b.take()
	if len(fr) < 2 {
		return "", "", fmt.Errorf("backend %s: expected handshake+login start, got %d frames", b.name, len(fr))
	}
	id, data, _ := e2e.SplitID(fr[0])
	if id != 0 {
		return "", "", fmt.Errorf("backend %s: first packet id %d", b.name, id)
	}
	_, n := e2e.GetVarInt(data)
	addr, _, _ = readKString(data[n:])
	_, ldata, _ := e2e.SplitID(fr[1])
	user, _, _ = readKString(ldata)
	b.inbox = append(b.inbox, fr[2:]...)
	return addr, user, nil
}

func (b *kPeer) backendSetCompression(t int) {
	p := e2e.PutVarInt(nil, 0x03)
	p = e2e.PutVarInt(p, int32(t))
	b.sendPayload(p)
	synctest.Wait()
	b.pump() // anything written before the switch is uncompressed
	b.outThreshold = t
	b.df.SetThreshold(t)
}

func (b *kPeer) backendLoginSuccess(name string) {
	b.sendPacket(state.Login, proto.ClientBound, &packet.ServerLoginSuccess{UUID: uuid.OfflinePlayerUUID(name), Username: name})
}

func kitJoinGame(protocol proto.Protocol, entityID int) *packet.JoinGame {
	lt := "default"
	lvl := "minecraft:overworld"
	j := &packet.JoinGame{EntityID: entityID, Gamemode: 1, Dimension: 0, Difficulty: 1, MaxPlayers: 20, LevelType: &lt, ViewDistance: 8, PreviousGamemode: -1, SimulationDistance: 8}
	if protocol.GreaterEqual(version.Minecraft_1_16) {
		j.LevelNames = []string{"minecraft:overworld"}
		j.DimensionInfo = &packet.DimensionInfo{RegistryIdentifier: "minecraft:overworld", LevelName: &lvl}
		// 1.16-1.20.1 carry the registry (and 1.16.2-1.18.2 the current dimension) as NBT: empty compounds
		j.Registry = util.CompoundBinaryTag{Type: 10, Data: []byte{0}}
		j.CurrentDimensionData = util.CompoundBinaryTag{Type: 10, Data: []byte{0}}
	}
	return j
}

func (b *kPeer) backendJoinGame(entityID int) {
	b.sendPacket(state.Play, proto.ClientBound, kitJoinGame(b.protocol, entityID))
}

func (b *kPeer) backendFinishConfig() {
	b.sendPacket(state.Config, proto.ClientBound, &cfgpacket.FinishedUpdate{})
}

func (c *kPeer) clientFinishConfig() {
	c.sendPacket(state.Config, proto.ServerBound, &cfgpacket.FinishedUpdate{})
}

// unregisteredIDs returns packet ids without a registered type for the registry cell.
func unregisteredIDs(reg *state.Registry, dir proto.Direction, protocol proto.Protocol, n int) []int {
	pr := state.FromDirection(dir, reg, protocol)
	var out []int
	for id := 0x7E; id >= 0 && len(out) < n; id-- {
		if _, ok := pr.PacketIDs[proto.PacketID(id)]; !ok {
			out = append(out, id)
		}
	}
	return out
}

// joinInitial drives a fresh client all the way into play on the first try server.
// Returns client and backend peers.
func (w *kWorld) joinInitial(protocol proto.Protocol, name string, backendThreshold int) (*kPeer, *kPeer, error) {
	c := w.newClient(protocol, "203.0.113.9:40000")
	if err := c.clientLogin(name, "mc.example.com"); err != nil {
		return c, nil, err
	}
	if len(w.cfg.Try) == 0 {
		return c, nil, errors.New("kit: no try server")
	}
	s := w.servers[w.cfg.Try[0]]
	b := s.last()
	if b == nil {
		return c, nil, fmt.Errorf("backend %s was not dialled (dials %v, client closed=%v)", s.name, w.dialLog, c.conn.ClosedByProxy())
	}
	if err := w.backendAccept(c, b, protocol, name, backendThreshold, 1); err != nil {
		return c, b, err
	}
	return c, b, nil
}

// backendAccept plays the backend's side of a successful login (and configuration) up to JoinGame,
// with the client acknowledging configuration where needed.
func (w *kWorld) backendAccept(c, b *kPeer, protocol proto.Protocol, name string, backendThreshold, entityID int) error {
	if _, _, err := b.backendExpectLogin(protocol); err != nil {
		return err
	}
	if backendThreshold >= 0 {
		b.backendSetCompression(backendThreshold)
	}
	b.backendLoginSuccess(name)
	synctest.Wait()
	if kitConfigPhase(protocol) {
		// a client that is already in play is first sent back to configuration (StartUpdate) and must acknowledge
		for _, f := range c.take() {
			if p, _, _, _ := e2e.Decode(state.Play, proto.ClientBound, protocol, f); p != nil {
				if _, ok := p.(*cfgpacket.StartUpdate); ok {
					c.sendPacket(state.Play, proto.ServerBound, &cfgpacket.FinishedUpdate{}) // "acknowledge configuration"
					synctest.Wait()
				}
			}
		}
		b.backendFinishConfig()
		synctest.Wait()
		c.take()
		c.clientFinishConfig()
		synctest.Wait()
	}
	b.take()
	b.backendJoinGame(entityID)
	synctest.Wait()
	// the transition handler may poll for the client's play handler
	time.Sleep(350 * time.Millisecond)
	synctest.Wait()
	return nil
}

var cfgStartUpdate cfgpacket.StartUpdate
var cfgFinishedUpdate cfgpacket.FinishedUpdate
