// Package vuatomic replaces go.uber.org/atomic in instrumented copies (subset used by gate).
package vuatomic

import (
	"time"

	ua "go.uber.org/atomic"

	"go.minekube.com/gate/pkg/edition/java/proxy/zzverif/sched"
)

func pt(kind string, o any) {
	if x := sched.Active(); x != nil && !x.Aborting() {
		x.Wait(kind, o, nil)
	}
}

type Bool struct{ v ua.Bool }

func NewBool(v bool) *Bool                    { b := &Bool{}; b.v.Store(v); return b }
func (b *Bool) Load() bool                    { pt("atomic.Load", b); return b.v.Load() }
func (b *Bool) Store(x bool)                  { pt("atomic.Store", b); b.v.Store(x) }
func (b *Bool) Swap(x bool) bool              { pt("atomic.Swap", b); return b.v.Swap(x) }
func (b *Bool) Toggle() bool                  { pt("atomic.Toggle", b); return b.v.Toggle() }
func (b *Bool) CAS(o, n bool) bool            { pt("atomic.CAS", b); return b.v.CompareAndSwap(o, n) }
func (b *Bool) CompareAndSwap(o, n bool) bool { pt("atomic.CAS", b); return b.v.CompareAndSwap(o, n) }
func (b *Bool) String() string                { return b.v.String() }

type Int32 struct{ v ua.Int32 }

func NewInt32(v int32) *Int32                   { b := &Int32{}; b.v.Store(v); return b }
func (b *Int32) Load() int32                    { pt("atomic.Load", b); return b.v.Load() }
func (b *Int32) Store(x int32)                  { pt("atomic.Store", b); b.v.Store(x) }
func (b *Int32) Swap(x int32) int32             { pt("atomic.Swap", b); return b.v.Swap(x) }
func (b *Int32) Add(x int32) int32              { pt("atomic.Add", b); return b.v.Add(x) }
func (b *Int32) Sub(x int32) int32              { pt("atomic.Sub", b); return b.v.Sub(x) }
func (b *Int32) Inc() int32                     { pt("atomic.Inc", b); return b.v.Inc() }
func (b *Int32) Dec() int32                     { pt("atomic.Dec", b); return b.v.Dec() }
func (b *Int32) CAS(o, n int32) bool            { pt("atomic.CAS", b); return b.v.CompareAndSwap(o, n) }
func (b *Int32) CompareAndSwap(o, n int32) bool { pt("atomic.CAS", b); return b.v.CompareAndSwap(o, n) }

type Int64 struct{ v ua.Int64 }

func NewInt64(v int64) *Int64                   { b := &Int64{}; b.v.Store(v); return b }
func (b *Int64) Load() int64                    { pt("atomic.Load", b); return b.v.Load() }
func (b *Int64) Store(x int64)                  { pt("atomic.Store", b); b.v.Store(x) }
func (b *Int64) Swap(x int64) int64             { pt("atomic.Swap", b); return b.v.Swap(x) }
func (b *Int64) Add(x int64) int64              { pt("atomic.Add", b); return b.v.Add(x) }
func (b *Int64) Sub(x int64) int64              { pt("atomic.Sub", b); return b.v.Sub(x) }
func (b *Int64) Inc() int64                     { pt("atomic.Inc", b); return b.v.Inc() }
func (b *Int64) Dec() int64                     { pt("atomic.Dec", b); return b.v.Dec() }
func (b *Int64) CAS(o, n int64) bool            { pt("atomic.CAS", b); return b.v.CompareAndSwap(o, n) }
func (b *Int64) CompareAndSwap(o, n int64) bool { pt("atomic.CAS", b); return b.v.CompareAndSwap(o, n) }

type Uint32 struct{ v ua.Uint32 }

func NewUint32(v uint32) *Uint32      { b := &Uint32{}; b.v.Store(v); return b }
func (b *Uint32) Load() uint32        { pt("atomic.Load", b); return b.v.Load() }
func (b *Uint32) Store(x uint32)      { pt("atomic.Store", b); b.v.Store(x) }
func (b *Uint32) Add(x uint32) uint32 { pt("atomic.Add", b); return b.v.Add(x) }
func (b *Uint32) Inc() uint32         { pt("atomic.Inc", b); return b.v.Inc() }
func (b *Uint32) CompareAndSwap(o, n uint32) bool {
	pt("atomic.CAS", b)
	return b.v.CompareAndSwap(o, n)
}

type Duration struct{ v ua.Duration }

func NewDuration(v time.Duration) *Duration            { b := &Duration{}; b.v.Store(v); return b }
func (b *Duration) Load() time.Duration                { pt("atomic.Load", b); return b.v.Load() }
func (b *Duration) Store(x time.Duration)              { pt("atomic.Store", b); b.v.Store(x) }
func (b *Duration) Swap(x time.Duration) time.Duration { pt("atomic.Swap", b); return b.v.Swap(x) }
func (b *Duration) Add(x time.Duration) time.Duration  { pt("atomic.Add", b); return b.v.Add(x) }
func (b *Duration) CompareAndSwap(o, n time.Duration) bool {
	pt("atomic.CAS", b)
	return b.v.CompareAndSwap(o, n)
}

type String struct{ v ua.String }

func NewString(v string) *String       { b := &String{}; b.v.Store(v); return b }
func (b *String) Load() string         { pt("atomic.Load", b); return b.v.Load() }
func (b *String) Store(x string)       { pt("atomic.Store", b); b.v.Store(x) }
func (b *String) Swap(x string) string { pt("atomic.Swap", b); return b.v.Swap(x) }

type Error struct{ v ua.Error }

func NewError(v error) *Error  { b := &Error{}; b.v.Store(v); return b }
func (b *Error) Load() error   { pt("atomic.Load", b); return b.v.Load() }
func (b *Error) Store(x error) { pt("atomic.Store", b); b.v.Store(x) }
