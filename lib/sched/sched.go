// Package sched is engine A of /verif: a CHESS-style controlled scheduler and a stateless,
// preemption-bounded depth-first explorer that runs REAL code.
//
// Harness threads are goroutines started through Go; exactly one runs at a time. Every hooked
// synchronisation operation (package vsync / vatomic / vuatomic, which the source rewriter
// substitutes for sync, sync/atomic and go.uber.org/atomic) calls Wait/Point first, which
// parks the caller and hands control to the explorer. The explorer picks the next thread among
// the enabled ones (a thread whose pending operation cannot proceed - a held mutex, an
// unfinished Once, a non-zero WaitGroup - is disabled, not spinning). "No enabled thread while
// some are unfinished" is a deadlock and is reported with every thread's pending operation.
//
// Exploration is depth-first over choice lists. run(prefix) replays a prefix (an out-of-range
// choice is a hard error: the execution diverged) and then always takes choice 0 (keep the
// running thread if it is enabled, else the lowest enabled id). Alternatives are expanded
// wherever the preemption count stays within the bound. Decisions with a single enabled thread
// are not recorded.
package sched

import (
	"runtime"
	"fmt"
	"hash/fnv"
	"runtime/debug"
	"sort"
	"strings"
	"sync/atomic"
	"time"
)

type abortT struct{}

var abortSentinel = &abortT{}
var inspectBlocked = &abortT{}

type thread struct {
	id     int
	name   string
	resume chan bool
	cond   func() bool
	kind   string
	obj    any
	done   bool
	yieldN int // consecutive yields without progress elsewhere
	steps  int
}

// point is one recorded decision.
type point struct {
	nEnabled   int
	curEnabled bool
	preBefore  int
}

// X is one execution.
type X struct {
	e         *Explorer
	threads   []*thread
	cur       *thread
	yieldCh   chan struct{}
	prefix    []int
	choices   []int
	points    []point
	preempt   int
	aborting  bool
	inspect   bool
	ops       int64 // progress counter: incremented whenever a thread is resumed from a non-yield point
	onPoint   []func()
	atEnd     []func()
	fails     []Failure
	outcome   []string
	trace     []string
	wantTrace bool
	serial    uint64
	steps     int
	vals      map[any]any
}

// Failure is a property violation found in one execution.
type Failure struct {
	Key     string   `json:"key"`
	Desc    string   `json:"desc"`
	Choices []int    `json:"choices"`
	Trace   []string `json:"trace,omitempty"`
}

var active atomic.Pointer[X]
var serial atomic.Uint64

// Active returns the running execution or nil when code runs outside the explorer (package
// init, harness setup in a plain test, free-running passes): the shims then fall back to the
// real primitives.
func Active() *X { return active.Load() }

// Serial identifies the execution (shims use it to reset per-execution state of globals).
func (x *X) Serial() uint64 { return x.serial }

// Value returns per-execution storage for a shim object that may be a package-level global.
func (x *X) Value(key any, mk func() any) any {
	if v, ok := x.vals[key]; ok {
		return v
	}
	v := mk()
	x.vals[key] = v
	return v
}

// CurID returns the id of the running thread.
func (x *X) CurID() int { return x.cur.id }

// Go starts f as a new scheduled thread. Outside an execution it is a plain go statement.
func Go(f func()) {
	x := Active()
	if x == nil {
		go f()
		return
	}
	x.Go("", f)
}

func (x *X) Go(name string, f func()) {
	if x.aborting {
		return
	}
	t := &thread{id: len(x.threads), name: name, resume: make(chan bool)}
	if name == "" {
		t.name = fmt.Sprintf("t%d", t.id)
	}
	x.threads = append(x.threads, t)
	go func() {
		if !<-t.resume {
			t.done = true
			x.yieldCh <- struct{}{}
			return
		}
		defer func() {
			if r := recover(); r != nil && r != any(abortSentinel) {
				x.fails = append(x.fails, Failure{Key: "panic:" + t.name + ":" + firstLine(fmt.Sprint(r)), Desc: fmt.Sprintf("thread %s panicked: %v\n%s", t.name, r, trimStack(debug.Stack()))})
			}
			t.done = true
			x.yieldCh <- struct{}{}
		}()
		f()
	}()
}

func firstLine(s string) string {
	if i := strings.IndexByte(s, '\n'); i >= 0 {
		s = s[:i]
	}
	if len(s) > 120 {
		s = s[:120]
	}
	return s
}

func trimStack(b []byte) string {
	s := string(b)
	if len(s) > 3000 {
		s = s[:3000]
	}
	return s
}

// Wait is the scheduling point used by the shims: the calling thread is parked until the
// explorer resumes it, which it does only when cond (nil = always) holds. The operation the
// caller performs right after Wait returns is atomic with respect to the other threads.
func (x *X) Wait(kind string, obj any, cond func() bool) {
	if x.aborting {
		// runtime.Goexit, not a panic: code under test that recovers panics in a loop (a read loop, an
		// event dispatcher) would swallow a sentinel panic and spin; Goexit still runs the deferred calls.
		runtime.Goexit()
	}
	if x.inspect {
		// an OnPoint invariant is reading through the real accessors while all threads are
		// parked: proceed when the operation would not block, otherwise give up on this point
		if cond != nil && !cond() {
			panic(inspectBlocked)
		}
		return
	}
	t := x.cur
	t.cond, t.kind, t.obj = cond, kind, obj
	x.yieldCh <- struct{}{}
	if !<-t.resume {
		runtime.Goexit()
	}
	t.cond = nil
}

// Aborting reports whether the execution is being torn down (shim release operations become
// no-ops so deferred unlocks can unwind).
func (x *X) Aborting() bool { return x.aborting }

// Point is a scheduling point with no blocking condition.
func Point(kind string, obj any) {
	if x := Active(); x != nil {
		x.Wait(kind, obj, nil)
	}
}

// Yield marks a polling loop: the caller stays disabled until some other thread made progress.
// If only yielders remain the explorer reports a livelock (as a deadlock-kind failure).
func Yield() {
	x := Active()
	if x == nil {
		time.Sleep(time.Millisecond)
		return
	}
	n := x.ops
	x.Wait("yield", nil, func() bool { return x.ops != n })
}

// Sleep replaces time.Sleep in instrumented code.
func Sleep(d time.Duration) {
	if Active() == nil {
		time.Sleep(d)
		return
	}
	Yield()
}

// OnPoint registers an invariant evaluated by the explorer before every scheduling decision
// (all threads parked). It must only read state that is consistent outside critical sections,
// e.g. guard on vsync's Held().
func (x *X) OnPoint(f func()) { x.onPoint = append(x.onPoint, f) }

// AtEnd registers a final oracle run after all threads finished (not run after a deadlock).
func (x *X) AtEnd(f func()) { x.atEnd = append(x.atEnd, f) }

// Fail records a violation for this execution.
func (x *X) Fail(key, format string, a ...any) {
	x.fails = append(x.fails, Failure{Key: key, Desc: fmt.Sprintf(format, a...)})
}

// Outcome contributes to the execution's observable outcome (distinct outcomes are counted).
func (x *X) Outcome(s string) { x.outcome = append(x.outcome, s) }

// Log appends to the execution trace (kept only when replaying a failure).
func (x *X) Log(format string, a ...any) {
	if x.wantTrace {
		x.trace = append(x.trace, fmt.Sprintf("[%s] ", x.cur.name)+fmt.Sprintf(format, a...))
	}
}

// Options configure an exploration.
type Options struct {
	Bound      int       // preemption bound (-1 = unbounded)
	MaxExec    int64     // cap on executions (0 = none); hitting it makes the run non-exhaustive
	Deadline   time.Time // soft deadline
	Shard      int
	NShards    int
	StepLimit  int           // max scheduling steps per execution (default 20000): exceeding = livelock failure
	HangAfter  time.Duration // a thread that does not come back to the scheduler within this time blocked outside it (default 20s)
	StopOnFail bool          // stop after the first failing execution (default: keep going, dedup by key)
}

// Result summarises an exploration.
type Result struct {
	Executions   int64
	Decisions    int64
	MaxDecisions int
	MaxThreads   int
	Outcomes     map[string]int64
	Failures     map[string]*Failure // first failure per key
	FailCount    map[string]int64
	Exhaustive   bool
	Reason       string
	Sample       []int
	SampleTrace  []string
}

type Explorer struct {
	opt  Options
	body func(x *X)
	res  *Result
	stop bool
}

// Explore runs body under every schedule within the bound. body runs as thread 0 ("main"); it
// builds fresh objects, starts threads with x.Go and returns; the execution ends when every
// thread has finished.
func Explore(opt Options, body func(x *X)) *Result {
	if opt.NShards <= 0 {
		opt.NShards = 1
	}
	if opt.StepLimit == 0 {
		opt.StepLimit = 20000
	}
	if opt.HangAfter == 0 {
		opt.HangAfter = 90 * time.Second
	}
	e := &Explorer{opt: opt, body: body, res: &Result{Outcomes: map[string]int64{}, Failures: map[string]*Failure{}, FailCount: map[string]int64{}, Exhaustive: true}}
	e.explore(nil, 0)
	return e.res
}

// Replay runs one schedule with tracing on and returns its failures and trace.
func Replay(opt Options, choices []int, body func(x *X)) ([]Failure, []string) {
	if opt.StepLimit == 0 {
		opt.StepLimit = 20000
	}
	if opt.HangAfter == 0 {
		opt.HangAfter = 90 * time.Second
	}
	e := &Explorer{opt: opt, body: body, res: &Result{Outcomes: map[string]int64{}, Failures: map[string]*Failure{}, FailCount: map[string]int64{}}}
	x := e.run(choices, true)
	for i := range x.fails {
		x.fails[i].Choices = append([]int{}, x.choices...)
	}
	return x.fails, x.trace
}

func hashPrefix(p []int) uint32 {
	h := fnv.New32a()
	for _, c := range p {
		h.Write([]byte{byte(c), byte(c >> 8), 0xFE})
	}
	return h.Sum32()
}

func (e *Explorer) explore(prefix []int, depth int) {
	if e.stop {
		return
	}
	const shardDepth = 2
	if depth == shardDepth && e.opt.NShards > 1 && int(hashPrefix(prefix)%uint32(e.opt.NShards)) != e.opt.Shard {
		return
	}
	if !e.opt.Deadline.IsZero() && time.Now().After(e.opt.Deadline) {
		e.res.Exhaustive, e.res.Reason, e.stop = false, "soft deadline reached", true
		return
	}
	if e.opt.MaxExec > 0 && e.res.Executions >= e.opt.MaxExec {
		e.res.Exhaustive, e.res.Reason, e.stop = false, fmt.Sprintf("execution cap %d reached", e.opt.MaxExec), true
		return
	}
	x := e.run(prefix, false)
	counted := depth >= shardDepth || e.opt.Shard == 0 || e.opt.NShards <= 1
	if counted {
		e.res.Executions++
		e.res.Decisions += int64(len(x.points))
		if len(x.points) > e.res.MaxDecisions {
			e.res.MaxDecisions = len(x.points)
		}
		if len(x.threads) > e.res.MaxThreads {
			e.res.MaxThreads = len(x.threads)
		}
		e.res.Outcomes[strings.Join(x.outcome, ";")]++
		if e.res.Sample == nil && len(x.choices) > 2 {
			e.res.Sample = append([]int{}, x.choices...)
		}
		for i := range x.fails {
			f := x.fails[i]
			e.res.FailCount[f.Key]++
			if _, ok := e.res.Failures[f.Key]; !ok {
				f.Choices = append([]int{}, x.choices...)
				e.res.Failures[f.Key] = &f
			}
		}
		if len(x.fails) > 0 && e.opt.StopOnFail {
			e.stop = true
			return
		}
	}
	for i := len(prefix); i < len(x.points); i++ {
		p := x.points[i]
		cost := p.preBefore
		if p.curEnabled {
			cost++
		}
		if e.opt.Bound >= 0 && cost > e.opt.Bound {
			continue
		}
		for alt := 1; alt < p.nEnabled; alt++ {
			np := make([]int, i+1)
			copy(np, x.choices[:i])
			np[i] = alt
			e.explore(np, depth+1)
			if e.stop {
				return
			}
		}
	}
}

func (e *Explorer) run(prefix []int, trace bool) *X {
	x := &X{e: e, yieldCh: make(chan struct{}), prefix: prefix, wantTrace: trace, serial: serial.Add(1), vals: map[any]any{}}
	active.Store(x)
	defer active.Store(nil)
	x.Go("main", func() { e.body(x) })
	timer := time.NewTimer(e.opt.HangAfter)
	defer timer.Stop()
	for {
		for _, f := range x.onPoint {
			x.runInspect(f)
		}
		// enabled threads in canonical order: the running thread first (if still enabled), then ascending ids
		var enabled []*thread
		curEnabled := false
		unfinished := 0
		if x.cur != nil && !x.cur.done && (x.cur.cond == nil || x.cur.cond()) {
			enabled = append(enabled, x.cur)
			curEnabled = true
		}
		for _, t := range x.threads {
			if t.done {
				continue
			}
			unfinished++
			if t == x.cur {
				continue
			}
			if t.cond == nil || t.cond() {
				enabled = append(enabled, t)
			}
		}
		if unfinished == 0 {
			break
		}
		if len(enabled) == 0 {
			// only pollers left: the progress a yielder waits for may have been its own last step
			// (unlock; kick; goto retry) - let them retry, bounded; forever = livelock
			for _, t := range x.threads {
				if !t.done && t.kind == "yield" && t.cond != nil && t.yieldN < 200 {
					t.yieldN++
					enabled = append(enabled, t)
				}
			}
		}
		if len(enabled) == 0 {
			x.fails = append(x.fails, Failure{Key: "deadlock:" + x.deadlockKey(), Desc: "no enabled thread: " + x.describeThreads()})
			x.abort()
			return x
		}
		x.steps++
		if x.steps > e.opt.StepLimit {
			x.fails = append(x.fails, Failure{Key: "livelock:step-limit", Desc: fmt.Sprintf("execution exceeded %d scheduling steps: %s", e.opt.StepLimit, x.describeThreads())})
			x.abort()
			return x
		}
		idx := 0
		if len(enabled) > 1 {
			d := len(x.points)
			if d < len(prefix) {
				idx = prefix[d]
				if idx >= len(enabled) {
					panic(fmt.Sprintf("sched: replay diverged at decision %d: choice %d but only %d enabled (nondeterministic harness)", d, idx, len(enabled)))
				}
			}
			x.points = append(x.points, point{nEnabled: len(enabled), curEnabled: curEnabled, preBefore: x.preempt})
			x.choices = append(x.choices, idx)
			if curEnabled && idx != 0 {
				x.preempt++
			}
		}
		t := enabled[idx]
		if t.kind != "yield" {
			x.ops++
			for _, o := range x.threads {
				o.yieldN = 0
			}
		}
		if trace {
			x.trace = append(x.trace, fmt.Sprintf("-> %s resumes at %s %s", t.name, t.kind, objName(t.obj)))
		}
		x.cur = t
		t.resume <- true
		if !timer.Stop() {
			select {
			case <-timer.C:
			default:
			}
		}
		timer.Reset(e.opt.HangAfter)
		select {
		case <-x.yieldCh:
		case <-timer.C:
			panic(fmt.Sprintf("sched: thread %s did not return to the scheduler within %v (blocked outside the shims?) after %s %s", t.name, e.opt.HangAfter, t.kind, objName(t.obj)))
		}
	}
	// final oracles run outside the scheduler: the shims fall back to the real primitives
	active.Store(nil)
	for _, f := range x.atEnd {
		f()
	}
	return x
}

// runInspect evaluates an invariant with all threads parked. Shim operations inside it do not
// yield; if one would block (a thread is parked inside that critical section) the evaluation
// is skipped for this point.
func (x *X) runInspect(f func()) {
	x.inspect = true
	defer func() {
		x.inspect = false
		if r := recover(); r != nil && r != any(inspectBlocked) {
			panic(r)
		}
	}()
	f()
}

func objName(o any) string {
	if o == nil {
		return ""
	}
	if s, ok := o.(fmt.Stringer); ok {
		return s.String()
	}
	return fmt.Sprintf("%T@%p", o, o)
}

func (x *X) deadlockKey() string {
	var parts []string
	for _, t := range x.threads {
		if !t.done {
			parts = append(parts, t.name+"@"+t.kind)
		}
	}
	sort.Strings(parts)
	return strings.Join(parts, ",")
}

func (x *X) describeThreads() string {
	var sb strings.Builder
	for _, t := range x.threads {
		if t.done {
			fmt.Fprintf(&sb, "%s:done ", t.name)
		} else {
			fmt.Fprintf(&sb, "%s:blocked-at-%s(%s) ", t.name, t.kind, objName(t.obj))
		}
	}
	return sb.String()
}

func (x *X) abort() {
	x.aborting = true
	for _, t := range x.threads {
		if t.done {
			continue
		}
		x.cur = t
		t.resume <- false
		<-x.yieldCh
	}
}

// Report copies an exploration result into the common shape used by vrt.
type Reporter interface {
	Eval(int)
	Nontrivial(int)
	Distinct(string)
	States(int)
	Transitions(int)
	Traces(int)
	Class(string)
	ClassN(string, int)
	NotExhaustive(string)
	Violation(key, desc string, replay any)
	Sample(any)
	AddExtra(string, int64)
}

// ReplayData is what a sched violation stores for the driver.
type ReplayData struct {
	Scenario string `json:"scenario"`
	Bound    int    `json:"bound"`
	Choices  []int  `json:"choices"`
}

// Merge reports res for the named scenario: executions are evaluations and validated traces
// (every schedule ran on the real code), decisions are transitions, distinct outcomes are
// counted as distinct non-trivial cases.
func (res *Result) Merge(r Reporter, scenario string, bound int) {
	r.Eval(int(res.Executions))
	r.States(int(res.Executions))
	r.Transitions(int(res.Decisions))
	r.Traces(int(res.Executions))
	for o := range res.Outcomes {
		r.Distinct(scenario + "|" + o)
	}
	r.ClassN("scenario:"+scenario, int(res.Executions))
	r.AddExtra("schedules", res.Executions)
	if !res.Exhaustive {
		r.NotExhaustive(scenario + ": " + res.Reason)
	}
	keys := make([]string, 0, len(res.Failures))
	for k := range res.Failures {
		keys = append(keys, k)
	}
	sort.Strings(keys)
	for _, k := range keys {
		f := res.Failures[k]
		r.Violation(scenario+"/"+k, fmt.Sprintf("scenario %s, bound %d, schedule %v (seen in %d schedules)\n%s", scenario, bound, f.Choices, res.FailCount[k], f.Desc),
			ReplayData{Scenario: scenario, Bound: bound, Choices: f.Choices})
	}
	if res.Sample != nil {
		r.Sample(map[string]any{"scenario": scenario, "bound": bound, "schedule_choices": res.Sample, "executions": res.Executions, "distinct_outcomes": len(res.Outcomes), "max_decisions": res.MaxDecisions, "threads": res.MaxThreads})
	}
}

// ---------------- map-overlap monitor ----------------
//
// Under a cooperative scheduler a `for range m` spans several scheduling points (RangeStep is
// one), so a write to the same map by another thread between RangeBegin and RangeEnd is exactly
// the situation in which the Go runtime throws "concurrent map iteration and map write". The
// monitor reports it deterministically.

type RangeTok struct {
	key    uintptr
	thread int
	x      *X
	ended  bool
}

func mapKey(m any) uintptr {
	if m == nil {
		return 0
	}
	return mapPointer(m)
}

// RangeBegin is inserted before `for ... range m` by the rewriter.
func RangeBegin(m any) *RangeTok {
	x := Active()
	if x == nil || x.aborting {
		return nil
	}
	k := mapKey(m)
	if k == 0 {
		return nil
	}
	t := &RangeTok{key: k, thread: x.cur.id, x: x}
	rs, _ := x.vals[rangesKey{}].(map[*RangeTok]bool)
	if rs == nil {
		rs = map[*RangeTok]bool{}
		x.vals[rangesKey{}] = rs
	}
	rs[t] = true
	return t
}

type rangesKey struct{}

// RangeStep is a scheduling point at the top of every iteration.
func RangeStep(t *RangeTok) {
	if t == nil || t.ended {
		return
	}
	if x := Active(); x != nil && x == t.x && !x.aborting {
		x.Wait("range.next", nil, nil)
	}
}

func RangeEnd(t *RangeTok) {
	if t == nil || t.ended {
		return
	}
	t.ended = true
	if rs, _ := t.x.vals[rangesKey{}].(map[*RangeTok]bool); rs != nil {
		delete(rs, t)
	}
}

// MapWrite is inserted before every map store/delete/clear by the rewriter.
func MapWrite(m any) {
	x := Active()
	if x == nil || x.aborting {
		return
	}
	k := mapKey(m)
	if k == 0 {
		return
	}
	rs, _ := x.vals[rangesKey{}].(map[*RangeTok]bool)
	for t := range rs {
		if t.key == k && t.thread != x.cur.id && !x.threads[t.thread].done {
			x.Fail("map-overlap", "map %T written by thread %s while thread %s iterates it (the runtime would throw 'concurrent map iteration and map write')\n%s", m, x.cur.name, x.threads[t.thread].name, trimStack(debug.Stack()))
		}
	}
}

// HasFailure reports whether this execution already recorded a failure whose key starts with prefix.
func (x *X) HasFailure(prefix string) bool {
	for _, f := range x.fails {
		if strings.HasPrefix(f.Key, prefix) {
			return true
		}
	}
	return false
}
