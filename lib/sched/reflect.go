package sched

import "reflect"

func mapPointer(m any) uintptr {
	v := reflect.ValueOf(m)
	if v.Kind() != reflect.Map || v.IsNil() {
		return 0
	}
	return uintptr(v.UnsafePointer())
}
