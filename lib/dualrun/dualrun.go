// Package dualrun lets one scenario body serve both passes of an engine-A (sched) check:
//
//   - the deciding pass: every schedule within the preemption bound under the controlled scheduler
//     (delegates to schedrun.Run), and
//   - the supplementary free-running pass ($VERIF_PASS == "race", built with -race and WITHOUT
//     instrumentation): the same thread bodies on real goroutines for N rounds; data races reported by
//     the race detector (package racelog) and oracle failures become violations (without replay data,
//     because a free run is sampling and cannot be replayed deterministically).
//
// A body uses *Env instead of *sched.X.
package dualrun

import (
	"fmt"
	"os"
	"runtime/debug"
	"strings"
	"sync"
	"time"

	"go.minekube.com/gate/pkg/edition/java/proxy/zzverif/racelog"
	"go.minekube.com/gate/pkg/edition/java/proxy/zzverif/sched"
	"go.minekube.com/gate/pkg/edition/java/proxy/zzverif/schedrun"
	"go.minekube.com/gate/pkg/edition/java/proxy/zzverif/vrt"
)

// Env is one execution (one schedule, or one free round).
type Env struct {
	X *sched.X // nil in the free-running pass

	mu      sync.Mutex
	clock   int
	threads []freeThread
	atEnd   []func()
	fails   []fail
	outcome []string
}

type freeThread struct {
	name string
	f    func()
}
type fail struct{ key, desc string }

// Free reports whether this is the free-running pass (no scheduler, real goroutines).
func (e *Env) Free() bool { return e.X == nil }

// Go starts a thread (scheduler thread, or a real goroutine released together with the others).
func (e *Env) Go(name string, f func()) {
	if e.X != nil {
		e.X.Go(name, f)
		return
	}
	e.threads = append(e.threads, freeThread{name, f})
}

// OnPoint registers an invariant for every scheduling point (ignored in the free pass).
func (e *Env) OnPoint(f func()) {
	if e.X != nil {
		e.X.OnPoint(f)
	}
}

// AtEnd registers the final oracle (runs after all threads finished).
func (e *Env) AtEnd(f func()) {
	if e.X != nil {
		e.X.AtEnd(f)
		return
	}
	e.atEnd = append(e.atEnd, f)
}

func (e *Env) Fail(key, format string, a ...any) {
	if e.X != nil {
		e.X.Fail(key, format, a...)
		return
	}
	e.mu.Lock()
	e.fails = append(e.fails, fail{key, fmt.Sprintf(format, a...)})
	e.mu.Unlock()
}

func (e *Env) Outcome(s string) {
	if e.X != nil {
		e.X.Outcome(s)
		return
	}
	e.mu.Lock()
	e.outcome = append(e.outcome, s)
	e.mu.Unlock()
}

// Tick advances and returns the execution's logical clock. Under the scheduler one thread runs at
// a time, so ticks are a faithful real-time order; in the free pass the mutex makes
// "a.ret < b.call" imply that a really returned before b was called.
func (e *Env) Tick() int {
	e.mu.Lock()
	e.clock++
	c := e.clock
	e.mu.Unlock()
	return c
}

type Scenario struct {
	Name     string
	Quick    int   // preemption bound, quick tier (-1 = unbounded)
	Thorough int   // preemption bound, thorough tier
	MaxExec  int64 // optional cap per shard
	// free pass: rounds per tier (0 = scenario skipped in the free pass)
	FreeQuick, FreeThorough int
	// FreeOnly scenarios are not explored by the scheduler (use it when the code under test spawns
	// goroutines in map-iteration order over ASYMMETRIC elements: thread identities would then differ
	// between replays of the same schedule prefix and the explorer could not stay deterministic).
	FreeOnly bool
	Body     func(e *Env)
}

// IsFreePass reports whether the driver runs the free-running race pass.
func IsFreePass() bool { return os.Getenv("VERIF_PASS") == "race" }

// Run runs the scenarios in the mode selected by the driver's pass name.
func Run(r *vrt.R, scs []Scenario) {
	if !IsFreePass() {
		var ss []schedrun.Scenario
		for _, s := range scs {
			if s.FreeOnly {
				continue
			}
			body := s.Body
			ss = append(ss, schedrun.Scenario{Name: s.Name, Quick: s.Quick, Thorough: s.Thorough, MaxExec: s.MaxExec,
				Body: func(x *sched.X) { body(&Env{X: x}) }})
		}
		if r.Replay() != nil {
			schedrun.Run(r, ss)
			return
		}
		for _, s := range ss {
			runGuarded(r, s)
		}
		return
	}
	if r.Replay() != nil {
		r.T.Fatalf("free-running pass violations carry no replay data")
	}
	if !racelog.Enabled() {
		r.NotExhaustive("race pass: GORACE log_path not set, race reports cannot be collected")
	}
	seen := map[string]bool{}
	for _, s := range scs {
		rounds := s.FreeQuick
		if r.Thorough() {
			rounds = s.FreeThorough
		}
		if rounds == 0 {
			continue
		}
		done := 0
		t0 := time.Now()
		for i := 0; i < rounds; i++ {
			if r.Expired() {
				break
			}
			if !freeRound(r, s) {
				r.Note(fmt.Sprintf("race pass %s: round %d did not finish within 30s (threads blocked); scenario abandoned", s.Name, i))
				break
			}
			done++
		}
		r.ClassN("race-pass:"+s.Name, done)
		r.Note(fmt.Sprintf("race pass %s: %d/%d rounds %.1fs", s.Name, done, rounds, time.Since(t0).Seconds()))
		r.AddExtra("free_rounds", int64(done))
		for _, rep := range racelog.Collect() {
			if seen[rep.Key] {
				continue
			}
			seen[rep.Key] = true
			r.Violation(rep.Key, fmt.Sprintf("race detector report in free-running pass (first seen while running scenario %s, %d rounds)\n%s", s.Name, done, rep.Text), nil)
		}
	}
	// the free pass is sampling: it never claims exhaustiveness of its own, the deciding pass does
	r.Note("race pass is supplementary sampling; absence of reports is not a proof")
}

// runGuarded explores one scenario. If the explorer finds that the SAME schedule prefix led to a
// different set of enabled threads on replay, the code under test is not a function of the schedule
// (typically: it iterates a map that is concurrently modified, or spawns goroutines per element of a
// live map, so Go's random iteration order decides what happens). That ends the scenario with a
// violation under a stable key instead of killing the shard, and the other scenarios still run.
func runGuarded(r *vrt.R, s schedrun.Scenario) {
	defer func() {
		if p := recover(); p != nil {
			msg := fmt.Sprint(p)
			if !strings.Contains(msg, "replay diverged") {
				panic(p)
			}
			r.NotExhaustive(s.Name + ": exploration aborted, execution not determined by the schedule")
			r.Violation(s.Name+"/schedule-independent-nondeterminism", "replaying an identical schedule prefix produced a different execution (different set of enabled threads): the code under test depends on something other than the schedule, e.g. on Go's random map iteration order while the map is being modified. "+msg, nil)
		}
	}()
	schedrun.Run(r, []schedrun.Scenario{s})
}

func freeRound(r *vrt.R, s Scenario) (finished bool) {
	e := &Env{}
	s.Body(e)
	var wg sync.WaitGroup
	start := make(chan struct{})
	for _, t := range e.threads {
		wg.Add(1)
		go func() {
			defer wg.Done()
			defer func() {
				if p := recover(); p != nil {
					e.Fail("panic:"+t.name+":"+firstLine(fmt.Sprint(p)), "thread %s panicked: %v\n%s", t.name, p, trim(debug.Stack()))
				}
			}()
			<-start
			t.f()
		}()
	}
	close(start)
	ch := make(chan struct{})
	go func() { wg.Wait(); close(ch) }()
	select {
	case <-ch:
	case <-time.After(30 * time.Second):
		return false
	}
	for _, f := range e.atEnd {
		f()
	}
	r.Eval(1)
	for _, f := range e.fails {
		r.Violation(s.Name+"/"+f.key, "free-running pass: "+f.desc, nil)
	}
	r.Distinct("free|" + s.Name + "|" + strings.Join(e.outcome, ";"))
	return true
}

func firstLine(s string) string {
	if i := strings.IndexByte(s, '\n'); i >= 0 {
		s = s[:i]
	}
	if len(s) > 120 {
		s = s[:120]
	}
	return s
}

func trim(b []byte) string {
	if len(b) > 2500 {
		b = b[:2500]
	}
	return string(b)
}
