package pktgen

import (
	"bytes"
	"crypto/rsa"
	"crypto/x509"
	"encoding/binary"
	"fmt"
	"math"
	"math/big"
	"reflect"
	"strings"
	"time"

	"github.com/Tnze/go-mc/nbt"
	"go.minekube.com/common/minecraft/color"
	"go.minekube.com/common/minecraft/component"
	"go.minekube.com/common/minecraft/key"

	"go.minekube.com/gate/pkg/edition/java/proto/packet/chat"
	"go.minekube.com/gate/pkg/edition/java/proto/packet/tablist/playerinfo"
	"go.minekube.com/gate/pkg/edition/java/proto/version"
	"go.minekube.com/gate/pkg/edition/java/proxy/crypto"
	"go.minekube.com/gate/pkg/edition/java/proxy/crypto/keyrevision"
	"go.minekube.com/gate/pkg/gate/proto"
	"go.minekube.com/gate/pkg/internal/mathutil"
	"go.minekube.com/gate/pkg/util/uuid"
)

// Val is one value of a per-kind alphabet. Make returns a FRESH value each time (packets cache
// and mutate: ComponentHolder.Write fills JSON, decoders append to slices).
//
// Convention: alphabet[0] is the "sparse" base value (zero / absent / empty), alphabet[1] the
// "rich" base value (typical, present, non-zero), alphabet[2] (if any) the "alt" value used for
// the second, different element of two-element slices.
type Val struct {
	Label string
	Make  func() any // any Go value assignable/convertible to the position's type; nil = zero value
}

func v(label string, x any) Val { return Val{label, func() any { return x }} }
func vf(label string, f func() any) Val {
	return Val{label, f}
}

// ---- scalars ----

func intVals(xs ...int64) []Val {
	out := make([]Val, len(xs))
	for i, x := range xs {
		out[i] = v(fmt.Sprint(x), x)
	}
	return out
}

var (
	// VarInt / Int32 carried in a Go int: every VarInt length boundary and the int32 extremes.
	alphaInt32 = intVals(0, 1, -1, 127, 128, 255, 256, 16383, 16384, 32767, 32768, 65535, 2097151, 2097152,
		268435455, 268435456, math.MaxInt32, math.MinInt32)
	alphaNonNegVarInt = intVals(0, 1, 2, 127, 128, 16383, 16384, 2097151, 2097152, 268435455, 268435456, math.MaxInt32)
	alphaInt64        = intVals(0, 1, -1, 255, 65536, math.MaxInt32, math.MaxInt32+1, math.MinInt32-1, math.MaxInt64, math.MinInt64)
	alphaInt16        = intVals(0, 1, -1, 127, 128, 255, -128, math.MaxInt16, math.MinInt16)
	alphaUint16       = intVals(0, 1, 255, 256, 25565, 32767, 32768, 65535)
	alphaUint8        = intVals(0, 1, 2, 127, 128, 255)
	alphaInt8         = intVals(0, 1, -1, 127, -128)
	alphaBool         = []Val{v("false", false), v("true", true)}
)

func floatVals(bits ...uint32) []Val {
	out := make([]Val, len(bits))
	for i, b := range bits {
		f := math.Float32frombits(b)
		out[i] = v(fmt.Sprintf("f32:%08x", b), f)
	}
	return out
}

// 0, 1, -1, 0.5, max, +inf, NaN, smallest subnormal, -0
var alphaFloat32 = floatVals(0, 0x3f800000, 0xbf800000, 0x3f000000, 0x7f7fffff, 0x7f800000, 0x7fc00001, 1, 0x80000000)

func enumVals(lo, hi int) []Val {
	var xs []int64
	for i := lo; i <= hi; i++ {
		xs = append(xs, int64(i))
	}
	return intVals(xs...)
}

// ---- strings / bytes ----

var repCache = map[string]string{}

// rep is strings.Repeat, memoised (the long values are requested for every generated packet).
func rep(s string, n int) string {
	if n < 64 {
		return strings.Repeat(s, n)
	}
	k := fmt.Sprintf("%s/%d", s, n)
	if r, ok := repCache[k]; ok {
		return r
	}
	r := strings.Repeat(s, n)
	repCache[k] = r
	return r
}

// stringVals returns the string alphabet limited to max characters (UTF-16 units, the unit
// vanilla limits strings in); max<=0 means the protocol default 32767.
var stringValsCache = map[int][]Val{}

// Thorough is set by the harness: the quick tier leaves out the 16383- and 32767-long strings and
// byte arrays (it keeps 127/128 and 16384, i.e. one value on each side of every VarInt length
// boundary except 16383), which are the bulk of the allocation work.
var Thorough bool

func stringVals(max int) []Val {
	if max <= 0 {
		max = 32767
	}
	if c, ok := stringValsCache[max]; ok {
		return c
	}
	out := stringVals0(max)
	stringValsCache[max] = out
	return out
}

func stringVals0(max int) []Val {
	cands := []struct {
		label string
		s     string
		chars int
	}{
		{"empty", "", 0},
		{"a", "a", 1},
		{"utf8-2-3-4byte+escapes", "ä€😀\"\\\n", 7}, // 😀 counts as 2 UTF-16 units
		{"len127", rep("a", 127), 127},
		{"len128", rep("b", 128), 128},
		{"len16383", rep("c", 16383), 16383},
		{"len16384", rep("d", 16384), 16384},
		{"len32767", rep("e", 32767), 32767},
	}
	var out []Val
	for _, c := range cands {
		if !Thorough && (c.chars == 16383 || c.chars == 32767) {
			continue
		}
		if c.chars <= max {
			out = append(out, v("str:"+c.label, c.s))
		}
	}
	if max != 32767 {
		// exactly at the limit: ASCII and 3-byte characters (bytes = 3*max, the limit is on chars)
		if max > 1 {
			out = append(out, v(fmt.Sprintf("str:max%d-ascii", max), rep("m", max)))
		}
		out = append(out, v(fmt.Sprintf("str:max%d-3byte", max), rep("€", max)))
	}
	return out
}

func seqBytes(n int) []byte {
	b := make([]byte, n)
	for i := range b {
		b[i] = byte(i*7 + 1)
	}
	return b
}

func bytesVal(label string, n int) Val {
	return vf(label, func() any { return seqBytes(n) })
}

// bytesVals: length-prefixed or trailing byte arrays, limited to max bytes (max<=0: 32767).
func bytesVals(max int) []Val {
	if max <= 0 {
		max = 32767
	}
	out := []Val{vf("bytes:empty", func() any { return []byte(nil) }), vf("bytes:1", func() any { return []byte{0x2A} })}
	for _, n := range []int{2, 127, 128, 255, 256, 16383, 16384, 32767} {
		if !Thorough && (n == 16383 || n == 32767) {
			continue
		}
		if n <= max {
			out = append(out, bytesVal(fmt.Sprintf("bytes:%d", n), n))
		}
	}
	if max != 32767 {
		found := false
		for _, n := range []int{1, 2, 127, 128, 255, 256, 16383, 16384} {
			if n == max {
				found = true
			}
		}
		if !found {
			out = append(out, bytesVal(fmt.Sprintf("bytes:max%d", max), max))
		}
	}
	out = append(out, vf("bytes:zero-byte", func() any { return []byte{0} }))
	return out
}

// fixedBytesVals: arrays whose length is fixed by the protocol (256-byte message signatures).
func fixedBytesVals(n int) []Val {
	return []Val{
		vf(fmt.Sprintf("bytes:fixed%d-zero", n), func() any { return make([]byte, n) }),
		vf(fmt.Sprintf("bytes:fixed%d-seq", n), func() any { return seqBytes(n) }),
		vf(fmt.Sprintf("bytes:fixed%d-ff", n), func() any { return bytes.Repeat([]byte{0xFF}, n) }),
	}
}

var (
	uuidA = uuid.UUID{0x12, 0x3e, 0x45, 0x67, 0xe8, 0x9b, 0x12, 0xd3, 0xa4, 0x56, 0x42, 0x66, 0x14, 0x17, 0x40, 0x00}
	uuidB = uuid.UUID{0x80, 0, 0, 0, 0, 0, 0x40, 1, 0x80, 0, 0, 0, 0, 0, 0, 0x7f}
	uuidF = uuid.UUID{0xFF, 0xFF, 0xFF, 0xFF, 0xFF, 0xFF, 0xFF, 0xFF, 0xFF, 0xFF, 0xFF, 0xFF, 0xFF, 0xFF, 0xFF, 0xFF}
)

var alphaUUID = []Val{v("uuid:nil", uuid.Nil), v("uuid:A", uuidA), v("uuid:B-highbits", uuidB), v("uuid:all-ff", uuidF)}

var alphaTime = []Val{
	v("time:zero", time.Time{}),
	v("time:2023", time.UnixMilli(1700000000123)),
	v("time:epoch", time.UnixMilli(0)),
	v("time:-1ms", time.UnixMilli(-1)),
	v("time:maxint64ms", time.UnixMilli(math.MaxInt64)),
}

func stringSliceVals() []Val {
	return []Val{
		vf("strs:empty", func() any { return []string(nil) }),
		vf("strs:1", func() any { return []string{"minecraft:overworld"} }),
		vf("strs:2", func() any { return []string{"a", "ä€😀"} }),
		vf("strs:empty-elem+long", func() any { return []string{"", rep("x", 16384)} }),
		vf("strs:count127", func() any { return manyStrings(127) }),
		vf("strs:count128", func() any { return manyStrings(128) }),
	}
}

func manyStrings(n int) []string {
	out := make([]string, n)
	for i := range out {
		out[i] = fmt.Sprintf("ns:value_%d", i)
	}
	return out
}

func uuidSliceVals() []Val {
	return []Val{
		vf("uuids:empty", func() any { return []uuid.UUID(nil) }),
		vf("uuids:1", func() any { return []uuid.UUID{uuidA} }),
		vf("uuids:2", func() any { return []uuid.UUID{uuidB, uuid.Nil} }),
		vf("uuids:count127", func() any { return manyUUIDs(127) }),
		vf("uuids:count128", func() any { return manyUUIDs(128) }),
	}
}

func manyUUIDs(n int) []uuid.UUID {
	out := make([]uuid.UUID, n)
	for i := range out {
		out[i][0], out[i][7], out[i][8], out[i][15] = byte(i), byte(i*3), 0x80|byte(i), byte(255-i)
	}
	return out
}

// ---- keys ----

func keyVals() []Val {
	return []Val{
		v("key:nil", nil),
		vf("key:minecraft:test", func() any { return key.New("minecraft", "test") }),
		vf("key:ns:path/chars", func() any { return key.New("my-ns_1.x", "a/b.c-d_e") }),
		vf("key:long", func() any { return key.New("ns", rep("p", 16384)) }),
	}
}

func keySliceVals() []Val {
	return []Val{
		vf("keys:empty", func() any { return []key.Key(nil) }),
		vf("keys:1", func() any { return []key.Key{key.New("minecraft", "vanilla")} }),
		vf("keys:2", func() any { return []key.Key{key.New("minecraft", "bundle"), key.New("x", "y/z")} }),
		vf("keys:count127", func() any { return manyKeys(127) }),
		vf("keys:count128", func() any { return manyKeys(128) }),
	}
}

func manyKeys(n int) []key.Key {
	out := make([]key.Key, n)
	for i := range out {
		out[i] = key.New("ns", fmt.Sprintf("feature_%d", i))
	}
	return out
}

// ---- identified keys (deterministic: a fixed modulus, not a generated key pair) ----

func fixedModulus(bits int, seed byte) *big.Int {
	b := make([]byte, bits/8)
	for i := range b {
		b[i] = byte(i)*31 + seed
	}
	b[0] |= 0x80
	b[len(b)-1] |= 1
	return new(big.Int).SetBytes(b)
}

func pubDER(bits int, seed byte) []byte {
	der, err := x509.MarshalPKIXPublicKey(&rsa.PublicKey{N: fixedModulus(bits, seed), E: 65537})
	if err != nil {
		panic(err)
	}
	return der
}

var (
	der1024 = pubDER(1024, 3)
	der2048 = pubDER(2048, 9)
)

func idKey(der []byte, expiry int64, sig []byte) crypto.IdentifiedKey {
	k, err := crypto.NewIdentifiedKey(keyrevision.LinkedV2, append([]byte(nil), der...), expiry, append([]byte(nil), sig...))
	if err != nil {
		panic(err)
	}
	return k
}

func identifiedKeyVals() []Val {
	return []Val{
		v("idkey:nil", nil),
		vf("idkey:1024/sig256", func() any { return idKey(der1024, 1700000000123, seqBytes(256)) }),
		vf("idkey:2048/sig512/expiry0", func() any { return idKey(der2048, 0, seqBytes(512)) }),
		vf("idkey:1024/sig-empty/expiry-neg", func() any { return idKey(der1024, -1, nil) }),
		vf("idkey:2048/sig4096", func() any { return idKey(der2048, math.MaxInt64, seqBytes(4096)) }),
	}
}

// ---- components ----

func sp(s string) *string { return &s }

func components() []struct {
	label string
	mk    func() component.Component
} {
	return []struct {
		label string
		mk    func() component.Component
	}{
		{"text-empty", func() component.Component { return &component.Text{Content: ""} }},
		{"text", func() component.Component { return &component.Text{Content: "hello"} }},
		{"text-utf8", func() component.Component { return &component.Text{Content: "ä€😀"} }},
		{"text-newline", func() component.Component { return &component.Text{Content: "line1\nline2"} }},
		{"text-backslash", func() component.Component { return &component.Text{Content: "back\\slash"} }},
		{"text-quotes", func() component.Component { return &component.Text{Content: "say \"hi\" it's"} }},
		{"text-yaml-keyword", func() component.Component { return &component.Text{Content: "null"} }},
		{"text-number-like", func() component.Component { return &component.Text{Content: "1e3"} }},
		{"styled", func() component.Component {
			return &component.Text{Content: "styled", S: component.Style{Bold: component.True, Italic: component.False, Color: color.Red}}
		}},
		{"translation+args", func() component.Component {
			return &component.Translation{Key: "chat.type.text", With: []component.Component{
				&component.Text{Content: "a"},
				&component.Text{Content: "b", S: component.Style{Color: color.Green, Underlined: component.True}},
			}}
		}},
		{"nested-extra", func() component.Component {
			return &component.Text{Content: "parent", Extra: []component.Component{
				&component.Text{Content: "c1", S: component.Style{Obfuscated: component.True}},
				&component.Translation{Key: "k", With: []component.Component{&component.Text{Content: "deep",
					Extra: []component.Component{&component.Text{Content: "deeper"}}}}},
			}}
		}},
		{"insertion", func() component.Component {
			return &component.Text{Content: "ins", S: component.Style{Insertion: sp("inserted"), Strikethrough: component.True}}
		}},
		// quantifier audit: the third way components nest (hover text inside a style) and the other component kinds
		{"hover-show-text-nested", func() component.Component {
			return &component.Text{Content: "hover me", S: component.Style{HoverEvent: component.ShowText(
				&component.Text{Content: "tip", S: component.Style{Color: color.Aqua}, Extra: []component.Component{&component.Text{Content: "more"}}})}}
		}},
		{"click-open-url", func() component.Component {
			return &component.Text{Content: "link", S: component.Style{ClickEvent: component.OpenUrl("https://example.com/a?b=c&d=\"e\"")}}
		}},
		{"keybind", func() component.Component { return &component.Keybind{Key: "key.jump", S: component.Style{Italic: component.True}} }},
		{"selector+separator", func() component.Component {
			return &component.Selector{Pattern: "@a[distance=..5]", Separator: &component.Text{Content: ", "}}
		}},
		{"score", func() component.Component { return &component.Score{Name: "*", Objective: "kills"} }},
		{"text-len16384", func() component.Component { return &component.Text{Content: rep("x", 16384)} }},
		{"text-len40000", func() component.Component { return &component.Text{Content: rep("y", 40000)} }},
	}
}

func componentVals() []Val {
	out := []Val{v("comp:nil", nil)}
	for _, c := range components() {
		c := c
		out = append(out, vf("comp:"+c.label, func() any { return c.mk() }))
	}
	// rich base must be index 1 = "text-empty" is a poor rich value; swap so that index 1 is "text"
	out[1], out[2] = out[2], out[1]
	return out
}

// holderVals: *chat.ComponentHolder (ptr=true) or chat.ComponentHolder values.
func holderVals(p proto.Protocol, ptr bool) []Val {
	var out []Val
	if ptr {
		out = append(out, v("holder:nil", (*chat.ComponentHolder)(nil)))
	} else {
		out = append(out, vf("holder:zero", func() any { return chat.ComponentHolder{} }))
	}
	cs := components()
	cs[0], cs[1] = cs[1], cs[0]
	for _, c := range cs {
		c := c
		if ptr {
			out = append(out, vf("holder:"+c.label, func() any { return &chat.ComponentHolder{Protocol: p, Component: c.mk()} }))
		} else {
			out = append(out, vf("holder:"+c.label, func() any { return chat.ComponentHolder{Protocol: p, Component: c.mk()} }))
		}
	}
	return out
}

// ---- NBT ----

type nbtb struct{ bytes.Buffer }

func (b *nbtb) name(typ byte, name string) *nbtb {
	b.WriteByte(typ)
	_ = binary.Write(b, binary.BigEndian, uint16(len(name)))
	b.WriteString(name)
	return b
}
func (b *nbtb) str(s string) *nbtb {
	_ = binary.Write(b, binary.BigEndian, uint16(len(s)))
	b.WriteString(s)
	return b
}
func (b *nbtb) i32(x int32) *nbtb { _ = binary.Write(b, binary.BigEndian, x); return b }
func (b *nbtb) end() *nbtb        { b.WriteByte(0); return b }

func nbtCompoundEmpty() nbt.RawMessage { return nbt.RawMessage{Type: nbt.TagCompound, Data: []byte{0}} }
func nbtCompoundSmall() nbt.RawMessage {
	var b nbtb
	b.name(nbt.TagByte, "a").WriteByte(1)
	b.end()
	return nbt.RawMessage{Type: nbt.TagCompound, Data: b.Bytes()}
}
func nbtCompoundNested() nbt.RawMessage {
	var b nbtb
	b.name(nbt.TagList, "l").WriteByte(nbt.TagCompound)
	b.i32(2)
	b.name(nbt.TagInt, "x").i32(5).end() // elem 0 {x:5}
	b.end()                              // elem 1 {}
	b.name(nbt.TagString, "s").str("strä")
	b.name(nbt.TagCompound, "n").name(nbt.TagLong, "big").Write([]byte{0x7f, 0xff, 0xff, 0xff, 0xff, 0xff, 0xff, 0xff})
	b.end() // end n
	b.name(nbt.TagIntArray, "ia").i32(2).i32(1).i32(-1)
	b.name(nbt.TagByteArray, "ba").i32(3).Write([]byte{1, 2, 3})
	b.name(nbt.TagList, "empty").WriteByte(nbt.TagEnd)
	b.i32(0)
	b.end()
	return nbt.RawMessage{Type: nbt.TagCompound, Data: b.Bytes()}
}
func nbtString(s string) nbt.RawMessage {
	var b nbtb
	b.str(s)
	return nbt.RawMessage{Type: nbt.TagString, Data: b.Bytes()}
}

func nbtVals(compoundOnly bool) []Val {
	out := []Val{
		vf("nbt:compound-empty", func() any { return nbtCompoundEmpty() }),
		vf("nbt:compound-small", func() any { return nbtCompoundSmall() }),
		vf("nbt:compound-nested-list", func() any { return nbtCompoundNested() }),
	}
	if !compoundOnly {
		out = append(out, vf("nbt:string", func() any { return nbtString("plain") }))
	}
	return out
}

// ---- playerinfo actions ----

func upsertActionsFor(p proto.Protocol) []playerinfo.UpsertAction {
	acts := []playerinfo.UpsertAction{playerinfo.AddPlayerAction, playerinfo.InitializeChatAction,
		playerinfo.UpdateGameModeAction, playerinfo.UpdateListedAction, playerinfo.UpdateLatencyAction,
		playerinfo.UpdateDisplayNameAction}
	if p.GreaterEqual(version.Minecraft_1_21_2) {
		acts = append(acts, playerinfo.UpdateListOrderAction)
	}
	if p.GreaterEqual(version.Minecraft_1_21_4) {
		acts = append(acts, playerinfo.UpdateHatAction)
	}
	return acts
}

// UpsertActionName names an action for labels/dumps.
func UpsertActionName(a playerinfo.UpsertAction) string {
	return strings.TrimPrefix(reflect.TypeOf(a).Elem().Name(), "")
}

// upsertActionVals: every subset of the version's actions in canonical order (index 0 = empty,
// index 1 = all), plus a few non-canonical orders and a duplicate.
func upsertActionVals(p proto.Protocol) []Val {
	acts := upsertActionsFor(p)
	n := len(acts)
	sub := func(mask int) []playerinfo.UpsertAction {
		var s []playerinfo.UpsertAction
		for i := 0; i < n; i++ {
			if mask&(1<<i) != 0 {
				s = append(s, acts[i])
			}
		}
		return s
	}
	full := 1<<n - 1
	order := []int{0, full}
	for m := 1; m < full; m++ {
		order = append(order, m)
	}
	var out []Val
	for _, m := range order {
		m := m
		out = append(out, vf(fmt.Sprintf("actions:set%0*b", n, m), func() any { return sub(m) }))
	}
	rev := func() any {
		s := sub(full)
		for i, j := 0, len(s)-1; i < j; i, j = i+1, j-1 {
			s[i], s[j] = s[j], s[i]
		}
		return s
	}
	out = append(out, vf("actions:all-reversed-order", rev))
	out = append(out, vf("actions:latency-before-gamemode", func() any {
		return []playerinfo.UpsertAction{playerinfo.UpdateLatencyAction, playerinfo.UpdateGameModeAction}
	}))
	return out
}

// ---- misc ----

func bitSetVals() []Val {
	return []Val{
		vf("bitset:empty", func() any { return mathutil.BitSet{} }),
		vf("bitset:3bytes", func() any { return mathutil.BitSet{Bytes: []byte{0x81, 0x00, 0x0F}} }),
		vf("bitset:1byte", func() any { return mathutil.BitSet{Bytes: []byte{0x01}} }),
		vf("bitset:all20", func() any { return mathutil.BitSet{Bytes: []byte{0xFF, 0xFF, 0x0F}} }),
	}
}

func mapStringStringVals() []Val {
	return []Val{
		vf("map:empty", func() any { return map[string]string(nil) }),
		vf("map:1", func() any { return map[string]string{"k": "v"} }),
		vf("map:2", func() any { return map[string]string{"a": "1", "ä€": rep("z", 200)} }),
		vf("map:empty-key", func() any { return map[string]string{"": ""} }),
		// crash-report details: the documented maximum is 32 entries
		vf("map:count32", func() any {
			m := map[string]string{}
			for i := 0; i < 32; i++ {
				m[fmt.Sprintf("detail_%d", i)] = fmt.Sprintf("value %d", i)
			}
			return m
		}),
	}
}

func tagsVals() []Val {
	return []Val{
		vf("tags:empty", func() any { return map[string]map[string][]int(nil) }),
		vf("tags:1", func() any {
			return map[string]map[string][]int{"minecraft:block": {"minecraft:logs": {1, 2, 300}}}
		}),
		vf("tags:2x2", func() any {
			return map[string]map[string][]int{
				"minecraft:block": {"a": {0}, "b": nil},
				"minecraft:item":  {"c": {math.MaxInt32, -1}, "d": {16384}},
			}
		}),
		vf("tags:empty-inner", func() any { return map[string]map[string][]int{"x": {}} }),
		// counts on both sides of the one-byte VarInt: 128 tags in a registry, 128 ids in a tag, 128 registries
		vf("tags:count128-tags", func() any {
			in := map[string][]int{}
			for i := 0; i < 128; i++ {
				in[fmt.Sprintf("ns:tag_%d", i)] = []int{i}
			}
			return map[string]map[string][]int{"minecraft:block": in}
		}),
		vf("tags:count128-ids", func() any {
			ids := make([]int, 128)
			for i := range ids {
				ids[i] = i * 3
			}
			return map[string]map[string][]int{"minecraft:item": {"ns:big": ids, "ns:127": ids[:127]}}
		}),
		vf("tags:count128-registries", func() any {
			m := map[string]map[string][]int{}
			for i := 0; i < 128; i++ {
				m[fmt.Sprintf("ns:registry_%d", i)] = map[string][]int{"t": {i}}
			}
			return m
		}),
	}
}

func argsMapVals() []Val {
	return []Val{
		vf("args:empty", func() any { return map[string][]byte(nil) }),
		vf("args:1", func() any { return map[string][]byte{"arg1": seqBytes(256)} }),
		vf("args:2", func() any { return map[string][]byte{"a": seqBytes(1), "sixteen-chars-ar": seqBytes(300)[:300]} }),
		vf("args:8", func() any {
			m := map[string][]byte{}
			for i := 0; i < 8; i++ {
				m[fmt.Sprintf("a%d", i)] = seqBytes(i + 1)
			}
			return m
		}),
	}
}

func faviconVals(p proto.Protocol) []Val {
	return []Val{
		v("favicon:none", ""),
		v("favicon:small", "data:image/png;base64,AAECAwQF"),
		v("favicon:empty-data", "data:image/png;base64,"),
		v("favicon:20k", "data:image/png;base64,"+rep("QUJD", 5000)),
	}
}
