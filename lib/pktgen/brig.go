package pktgen

import (
	"bytes"
	"context"
	"fmt"
	"io"
	"reflect"
	"sort"
	"strings"

	"go.minekube.com/brigodier"

	"go.minekube.com/gate/pkg/edition/java/proto/packet/brigadier"
	"go.minekube.com/gate/pkg/edition/java/proto/util"
	"go.minekube.com/gate/pkg/edition/java/proto/version"
	"go.minekube.com/gate/pkg/gate/proto"
)

var (
	placeholderCmd = brigodier.CommandFunc(func(*brigodier.CommandContext) error { return nil })
	requireFn      = brigodier.RequireFn(func(context.Context) bool { return true })
)

type askServer struct{}

func (askServer) Suggestions(_ *brigodier.CommandContext, b *brigodier.SuggestionsBuilder) *brigodier.Suggestions {
	return b.Build()
}

// names of the parser identifiers known to the registry (pre-1.19 they are sent as strings).
var parserNames = []string{
	"brigadier:bool", "brigadier:float", "brigadier:double", "brigadier:integer", "brigadier:long", "brigadier:string",
	"minecraft:entity", "minecraft:game_profile", "minecraft:block_pos", "minecraft:column_pos", "minecraft:vec3",
	"minecraft:vec2", "minecraft:block_state", "minecraft:block_predicate", "minecraft:item_stack",
	"minecraft:item_predicate", "minecraft:color", "minecraft:component", "minecraft:message",
	"minecraft:nbt_compound_tag", "minecraft:nbt_tag", "minecraft:nbt_path", "minecraft:objective",
	"minecraft:objective_criteria", "minecraft:operation", "minecraft:particle", "minecraft:angle", "minecraft:rotation",
	"minecraft:scoreboard_slot", "minecraft:score_holder", "minecraft:swizzle", "minecraft:team", "minecraft:item_slot",
	"minecraft:resource_location", "minecraft:mob_effect", "minecraft:function", "minecraft:entity_anchor",
	"minecraft:int_range", "minecraft:float_range", "minecraft:item_enchantment", "minecraft:entity_summon",
	"minecraft:dimension", "minecraft:time", "minecraft:uuid", "minecraft:nbt",
}

type argT struct {
	label string
	t     brigodier.ArgumentType
}

var argTypeCache = map[proto.Protocol][]argT{}

// ArgTypes lists, for a protocol, every argument type value the generator can build: the
// constructible typed parsers with property variants, plus one pass-through value per registered
// parser identifier (obtained by decoding its identifier followed by zero properties, the only way
// to obtain those unexported values). Types the encoder does not know in this version are dropped.
func ArgTypes(p proto.Protocol) []argT {
	if a, ok := argTypeCache[p]; ok {
		return a
	}
	cands := []argT{
		{"bool", brigodier.Bool},
		{"float-default", brigodier.Float32},
		{"float-min", &brigodier.Float32ArgumentType{Min: -1.5, Max: brigodier.MaxFloat32}},
		{"float-minmax", &brigodier.Float32ArgumentType{Min: 0, Max: 1}},
		{"double-default", brigodier.Float64},
		{"double-max", &brigodier.Float64ArgumentType{Min: brigodier.MinFloat64, Max: 1e300}},
		{"double-minmax", &brigodier.Float64ArgumentType{Min: -2, Max: 2}},
		{"int-default", brigodier.Int},
		{"int-min", &brigodier.Int32ArgumentType{Min: 0, Max: brigodier.MaxInt32}},
		{"int-minmax", &brigodier.Int32ArgumentType{Min: -5, Max: 2147483646}},
		{"long-default", brigodier.Int64},
		{"long-minmax", &brigodier.Int64ArgumentType{Min: -9, Max: 1 << 40}},
		// quantifier audit: every min/max flag combination of every numeric parser
		{"float-max", &brigodier.Float32ArgumentType{Min: brigodier.MinFloat32, Max: 2.5}},
		{"double-min", &brigodier.Float64ArgumentType{Min: -1e-300, Max: brigodier.MaxFloat64}},
		{"int-max", &brigodier.Int32ArgumentType{Min: brigodier.MinInt32, Max: 7}},
		{"long-min", &brigodier.Int64ArgumentType{Min: -(1 << 40), Max: brigodier.MaxInt64}},
		{"long-max", &brigodier.Int64ArgumentType{Min: brigodier.MinInt64, Max: 1<<63 - 1 - 5}},
		{"string-word", brigodier.SingleWord},
		{"string-quotable", brigodier.QuotablePhase},
		{"string-greedy", brigodier.GreedyPhrase},
		{"entity-0", &brigadier.EntityArgumentType{}},
		{"entity-single", &brigadier.EntityArgumentType{SingleEntity: true}},
		{"entity-players", &brigadier.EntityArgumentType{OnlyPlayers: true}},
		{"entity-single-players", &brigadier.EntityArgumentType{SingleEntity: true, OnlyPlayers: true}},
		{"registry-key", &brigadier.RegistryKeyArgumentType{Identifier: "minecraft:worldgen/biome"}},
		{"resource-or-tag-key", &brigadier.ResourceOrTagKeyArgumentType{Identifier: "minecraft:item"}},
		{"resource-key", &brigadier.ResourceKeyArgumentType{Identifier: ""}},
		{"resource-selector", &brigadier.ResourceSelectorArgumentType{Identifier: "minecraft:x"}},
	}
	seen := map[string]bool{}
	pad := bytes.Repeat([]byte{0}, 16)
	try := func(label string, wire []byte) {
		t, err := brigadier.Decode(bytes.NewReader(append(wire, pad...)), p)
		if err != nil || t == nil {
			return
		}
		// only pass-through values are interesting here; typed ones are covered above
		if reflect.TypeOf(t).String() != "*brigadier.passthroughProperty" {
			return
		}
		if seen[t.String()] {
			return
		}
		seen[t.String()] = true
		cands = append(cands, argT{"passthrough:" + t.String(), t})
	}
	if p.GreaterEqual(version.Minecraft_1_19) {
		for id := 0; id < 64; id++ {
			var b bytes.Buffer
			_ = util.WriteVarInt(&b, id)
			try(fmt.Sprint(id), b.Bytes())
		}
	} else {
		for _, n := range parserNames {
			var b bytes.Buffer
			_ = util.WriteString(&b, n)
			try(n, b.Bytes())
		}
	}
	var out []argT
	for _, c := range cands {
		if brigadier.Encode(io.Discard, c.t, p) == nil {
			out = append(out, c)
		}
	}
	argTypeCache[p] = out
	return out
}

func rootOf(children ...brigodier.CommandNode) *brigodier.RootCommandNode {
	r := &brigodier.RootCommandNode{}
	for _, c := range children {
		r.AddChild(c)
	}
	return r
}

func treeVals(p proto.Protocol) []Val {
	return []Val{
		vf("tree:empty-root", func() any { return rootOf() }),
		vf("tree:repo-test-like", func() any {
			l2 := brigodier.Literal("l2").Executes(placeholderCmd).Build()
			return rootOf(
				brigodier.Literal("l1").Executes(placeholderCmd).
					Then(brigodier.Argument("a1", brigodier.String).Executes(placeholderCmd).Suggests(askServer{}).
						Then(brigodier.Argument("a2", brigodier.Bool).Executes(placeholderCmd).Requires(requireFn))).Build(),
				l2,
				brigodier.Literal("l3").Redirect(l2).Build(),
				brigodier.Literal("l4").Requires(requireFn).Build(),
			)
		}),
		vf("tree:every-parser", func() any {
			lit := brigodier.Literal("args")
			for i, a := range ArgTypes(p) {
				ab := brigodier.Argument(fmt.Sprintf("a%d", i), a.t)
				if i%2 == 0 {
					ab.Executes(placeholderCmd)
				}
				if i%3 == 0 {
					ab.Suggests(askServer{})
				}
				if i%5 == 0 {
					ab.Requires(requireFn)
				}
				lit.Then(ab)
			}
			return rootOf(lit.Build())
		}),
		vf("tree:deep-chain+redirect-root", func() any {
			r := &brigodier.RootCommandNode{}
			r.AddChild(brigodier.Literal("a").Then(
				brigodier.Argument("b", brigodier.Int).Then(
					brigodier.Argument("c", brigodier.GreedyPhrase).Executes(placeholderCmd))).Build())
			r.AddChild(brigodier.Literal("back").Redirect(r).Build())
			return r
		}),
		vf("tree:shared-child+long-names", func() any {
			shared := brigodier.Argument(rep("n", 200), brigodier.Float64).Executes(placeholderCmd).Build()
			l1 := brigodier.Literal("x1").Build()
			l1.AddChild(shared)
			l2 := brigodier.Literal("x2").Build()
			l2.AddChild(shared)
			return rootOf(l1, l2, brigodier.Literal("ä€😀").Build())
		}),
		// node count and child count on both sides of the one-byte VarInt (127 / 128 children under the root, one of
		// them with 128 children of its own: 257 nodes)
		vf("tree:wide-127", func() any { return wideTree(127, 0) }),
		vf("tree:wide-128+128", func() any { return wideTree(128, 128) }),
	}
}

func wideTree(n, inner int) *brigodier.RootCommandNode {
	var kids []brigodier.CommandNode
	for i := 0; i < n; i++ {
		lb := brigodier.Literal(fmt.Sprintf("cmd%03d", i))
		if i%2 == 0 {
			lb.Executes(placeholderCmd)
		}
		if i == 0 {
			for j := 0; j < inner; j++ {
				lb.Then(brigodier.Argument(fmt.Sprintf("arg%03d", j), brigodier.Bool))
			}
		}
		kids = append(kids, lb.Build())
	}
	return rootOf(kids...)
}

// DescribeArgType renders an argument type structurally (no pointers), including the unexported
// pass-through values, so that two trees can be compared by value.
func DescribeArgType(t brigodier.ArgumentType) string {
	if t == nil {
		return "<nil>"
	}
	return describe(reflect.ValueOf(t), 0)
}

func describe(v reflect.Value, depth int) string {
	if depth > 6 {
		return "…"
	}
	switch v.Kind() {
	case reflect.Ptr, reflect.Interface:
		if v.IsNil() {
			return "nil"
		}
		return describe(v.Elem(), depth+1)
	case reflect.Struct:
		var sb strings.Builder
		sb.WriteString(v.Type().String() + "{")
		for i := 0; i < v.NumField(); i++ {
			f := v.Type().Field(i)
			if f.Name == "codec" || f.Name == "idByProtocol" {
				continue
			}
			sb.WriteString(f.Name + ":" + describe(v.Field(i), depth+1) + ",")
		}
		sb.WriteString("}")
		return sb.String()
	case reflect.Func:
		return "func"
	case reflect.Map:
		return fmt.Sprintf("map(%d)", v.Len())
	case reflect.String:
		return fmt.Sprintf("%q", v.String())
	case reflect.Bool:
		return fmt.Sprint(v.Bool())
	case reflect.Int, reflect.Int8, reflect.Int16, reflect.Int32, reflect.Int64:
		return fmt.Sprintf("%s(%d)", v.Type(), v.Int())
	case reflect.Uint, reflect.Uint8, reflect.Uint16, reflect.Uint32, reflect.Uint64:
		return fmt.Sprintf("%s(%d)", v.Type(), v.Uint())
	case reflect.Float32, reflect.Float64:
		return fmt.Sprintf("%s(%x)", v.Type(), v.Float())
	case reflect.Slice:
		var sb strings.Builder
		sb.WriteString("[")
		for i := 0; i < v.Len(); i++ {
			sb.WriteString(describe(v.Index(i), depth+1) + ",")
		}
		sb.WriteString("]")
		return sb.String()
	}
	return v.Kind().String()
}

// DumpTree renders a command graph canonically: nodes numbered in first-visit DFS order over the
// ordered children, each with kind, name, flags, parser, redirect target and child ids.
func DumpTree(root *brigodier.RootCommandNode) string {
	if root == nil {
		return "<nil root>"
	}
	ids := map[brigodier.CommandNode]int{}
	var order []brigodier.CommandNode
	var visit func(n brigodier.CommandNode)
	visit = func(n brigodier.CommandNode) {
		if _, ok := ids[n]; ok {
			return
		}
		ids[n] = len(ids)
		order = append(order, n)
		n.ChildrenOrdered().Range(func(_ string, c brigodier.CommandNode) bool {
			visit(c)
			return true
		})
		if r := n.Redirect(); r != nil {
			visit(r)
		}
	}
	visit(root)
	var sb strings.Builder
	for _, n := range order {
		fmt.Fprintf(&sb, "#%d ", ids[n])
		switch t := n.(type) {
		case *brigodier.RootCommandNode:
			sb.WriteString("root")
		case *brigodier.LiteralCommandNode:
			fmt.Fprintf(&sb, "literal %q", t.Name())
		case *brigodier.ArgumentCommandNode:
			fmt.Fprintf(&sb, "argument %q type=%s", t.Name(), DescribeArgType(t.Type()))
			if prov := t.CustomSuggestions(); prov != nil {
				name := "minecraft:ask_server"
				pv := reflect.ValueOf(prov)
				if pv.Kind() == reflect.Ptr && pv.Elem().Kind() == reflect.Struct {
					if f := pv.Elem().FieldByName("name"); f.IsValid() && f.Kind() == reflect.String {
						name = f.String()
					}
				}
				fmt.Fprintf(&sb, " suggests=%q", name)
			}
		default:
			fmt.Fprintf(&sb, "%T", n)
		}
		if n.Command() != nil {
			sb.WriteString(" exec")
		}
		if n.Requirement() != nil {
			sb.WriteString(" restricted")
		}
		if r := n.Redirect(); r != nil {
			fmt.Fprintf(&sb, " redirect=#%d", ids[r])
		}
		var kids []string
		n.ChildrenOrdered().Range(func(_ string, c brigodier.CommandNode) bool {
			kids = append(kids, fmt.Sprintf("#%d", ids[c]))
			return true
		})
		// the ordered map and the plain map must agree
		if len(kids) != len(n.Children()) {
			var names []string
			for k := range n.Children() {
				names = append(names, k)
			}
			sort.Strings(names)
			fmt.Fprintf(&sb, " CHILD-MAPS-DISAGREE(%v)", names)
		}
		sb.WriteString(" children=[" + strings.Join(kids, " ") + "]\n")
	}
	return sb.String()
}
