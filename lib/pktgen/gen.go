package pktgen

import (
	"bytes"
	"fmt"
	"reflect"
	"strconv"
	"strings"
	"time"

	"github.com/Tnze/go-mc/nbt"
	"go.minekube.com/brigodier"
	"go.minekube.com/common/minecraft/component"
	"go.minekube.com/common/minecraft/key"

	"go.minekube.com/gate/pkg/edition/java/proto/packet/chat"
	"go.minekube.com/gate/pkg/edition/java/proto/packet/tablist/playerinfo"
	"go.minekube.com/gate/pkg/edition/java/proto/state/states"
	"go.minekube.com/gate/pkg/edition/java/proxy/crypto"
	"go.minekube.com/gate/pkg/gate/proto"
	"go.minekube.com/gate/pkg/internal/mathutil"
	"go.minekube.com/gate/pkg/util/uuid"
)

// ---- paths ----

// Step is one step of a path into a packet value: a struct field, optionally followed by a
// slice index.
type Step struct {
	Field string
	Index int // -1: none
}

type Path []Step

func (p Path) String() string {
	var sb strings.Builder
	for i, s := range p {
		if i > 0 {
			sb.WriteByte('.')
		}
		sb.WriteString(s.Field)
		if s.Index >= 0 {
			fmt.Fprintf(&sb, "[%d]", s.Index)
		}
	}
	return sb.String()
}

// Norm is the path without indices; alphabets and overrides are keyed by it.
func (p Path) Norm() string {
	var parts []string
	for _, s := range p {
		parts = append(parts, s.Field)
	}
	return strings.Join(parts, ".")
}

func (p Path) with(field string, idx int) Path {
	q := make(Path, len(p), len(p)+1)
	copy(q, p)
	return append(q, Step{field, idx})
}

// ParsePath parses the String form.
func ParsePath(s string) Path {
	if s == "" {
		return nil
	}
	var p Path
	for _, part := range strings.Split(s, ".") {
		st := Step{Field: part, Index: -1}
		if i := strings.IndexByte(part, '['); i >= 0 {
			st.Field = part[:i]
			st.Index, _ = strconv.Atoi(strings.TrimSuffix(part[i+1:], "]"))
		}
		p = append(p, st)
	}
	return p
}

// ---- type classification ----

var (
	tUUID       = reflect.TypeOf(uuid.UUID{})
	tTime       = reflect.TypeOf(time.Time{})
	tNBT        = reflect.TypeOf(nbt.RawMessage{})
	tHolder     = reflect.TypeOf(chat.ComponentHolder{})
	tHolderPtr  = reflect.TypeOf((*chat.ComponentHolder)(nil))
	tBitSet     = reflect.TypeOf(mathutil.BitSet{})
	tRootPtr    = reflect.TypeOf((*brigodier.RootCommandNode)(nil))
	tKey        = reflect.TypeOf((*key.Key)(nil)).Elem()
	tIDKey      = reflect.TypeOf((*crypto.IdentifiedKey)(nil)).Elem()
	tComponent  = reflect.TypeOf((*component.Component)(nil)).Elem()
	tActions    = reflect.TypeOf([]playerinfo.UpsertAction(nil))
	tBytes      = reflect.TypeOf([]byte(nil))
	tStrings    = reflect.TypeOf([]string(nil))
	tUUIDs      = reflect.TypeOf([]uuid.UUID(nil))
	tKeys       = reflect.TypeOf([]key.Key(nil))
	tMapSS      = reflect.TypeOf(map[string]string(nil))
	tMapSB      = reflect.TypeOf(map[string][]byte(nil))
	tTags       = reflect.TypeOf(map[string]map[string][]int(nil))
	tState      = reflect.TypeOf(states.State(0))
	specialLeaf = map[reflect.Type]bool{tUUID: true, tTime: true, tNBT: true, tHolder: true, tHolderPtr: true, tBitSet: true,
		tRootPtr: true, tActions: true, tBytes: true, tStrings: true, tUUIDs: true, tKeys: true, tMapSS: true, tMapSB: true, tTags: true}
)

type posKind int

const (
	kLeaf        posKind = iota
	kOptStruct           // pointer to a plain struct
	kStructSlice         // slice of plain structs or of pointers to plain structs
)

func plainStruct(t reflect.Type) bool { return t.Kind() == reflect.Struct && !specialLeaf[t] }

func classify(t reflect.Type) posKind {
	if specialLeaf[t] {
		return kLeaf
	}
	switch t.Kind() {
	case reflect.Ptr:
		if plainStruct(t.Elem()) {
			return kOptStruct
		}
	case reflect.Slice:
		e := t.Elem()
		if plainStruct(e) || (e.Kind() == reflect.Ptr && plainStruct(e.Elem())) {
			return kStructSlice
		}
	}
	return kLeaf
}

// Pos is one position of a packet type where the generator deviates from the base value.
type Pos struct {
	Path Path
	Type reflect.Type
	Kind posKind
}

// ---- generator ----

// Gen enumerates packet values for one registry cell.
type Gen struct {
	Cell Cell
	name string // type name
	pos  []Pos
	disc map[string]bool // discriminator positions (by normalised path)
	ac   map[string][]Val
}

// NewGen prepares the generator of a cell.
func NewGen(c Cell) *Gen {
	g := &Gen{Cell: c, name: TypeName(c.Type), disc: map[string]bool{}, ac: map[string][]Val{}}
	for _, d := range discriminators[g.name] {
		g.disc[d] = true
	}
	g.walk(c.Type, nil)
	return g
}

func (g *Gen) ignored(norm string) bool { return ignoredPaths[g.name+"."+norm] }

func (g *Gen) walk(t reflect.Type, prefix Path) {
	for i := 0; i < t.NumField(); i++ {
		f := t.Field(i)
		if !f.IsExported() {
			continue
		}
		if f.Anonymous && plainStruct(f.Type) { // embedded struct: fields are promoted but paths keep the name
			g.walk(f.Type, prefix.with(f.Name, -1))
			continue
		}
		p := prefix.with(f.Name, -1)
		if g.ignored(p.Norm()) {
			continue
		}
		switch k := classify(f.Type); k {
		case kLeaf:
			if plainStruct(f.Type) {
				g.walk(f.Type, p)
			} else {
				g.pos = append(g.pos, Pos{p, f.Type, kLeaf})
			}
		case kOptStruct:
			g.pos = append(g.pos, Pos{p, f.Type, k})
			g.walk(f.Type.Elem(), p)
		case kStructSlice:
			g.pos = append(g.pos, Pos{p, f.Type, k})
			e := f.Type.Elem()
			if e.Kind() == reflect.Ptr {
				e = e.Elem()
			}
			g.walk(e, prefix.with(f.Name, 0))
		}
	}
}

// Positions lists the deviation positions (discriminators included).
func (g *Gen) Positions() []Pos { return g.pos }

// Alphabet returns the values of a position.
func (g *Gen) Alphabet(p Pos) []Val { return g.alphabet(p.Path.Norm(), p.Type) }

func (g *Gen) alphabet(norm string, t reflect.Type) []Val {
	if a, ok := g.ac[norm]; ok {
		return a
	}
	a := g.alphabet0(norm, t)
	g.ac[norm] = a
	return a
}

func (g *Gen) alphabet0(norm string, t reflect.Type) []Val {
	if f, ok := overrides[g.name+"."+norm]; ok {
		if vs := f(g.Cell); vs != nil {
			return vs
		}
	}
	switch classify(t) {
	case kOptStruct:
		return []Val{
			vf("opt:absent", func() any { return reflect.Zero(t).Interface() }),
			vf("opt:present", func() any { return g.build(t, norm, 1).Interface() }),
			vf("opt:present-alt", func() any { return g.build(t, norm, 2).Interface() }),
		}
	case kStructSlice:
		mk := func(which ...int) func() any {
			return func() any {
				s := reflect.MakeSlice(t, 0, len(which))
				for _, w := range which {
					s = reflect.Append(s, g.buildElem(t, norm, w))
				}
				return s.Interface()
			}
		}
		out := []Val{vf("slice:0", mk()), vf("slice:1", mk(1)), vf("slice:[rich,alt]", mk(1, 2)), vf("slice:[alt,rich]", mk(2, 1)),
			vf("slice:[alt]", mk(2)), vf("slice:[sparse,rich]", mk(0, 1)), vf("slice:[rich,sparse]", mk(1, 0)), vf("slice:[rich,rich]", mk(1, 1))}
		// element-COUNT boundaries: both sides of the one-byte VarInt count (127/128), or the documented maximum of
		// the collection where the protocol bounds it (hooks.go sliceCounts); elements alternate rich/alt
		for _, n := range sliceCountsFor(g.Cell, g.name+"."+norm) {
			which := make([]int, n)
			for i := range which {
				which[i] = 1 + i%2
			}
			out = append(out, vf(fmt.Sprintf("slice:count%d", n), mk(which...)))
		}
		return out
	}
	return defaultAlphabet(g.Cell, t)
}

func defaultAlphabet(c Cell, t reflect.Type) []Val {
	switch t {
	case tUUID:
		return alphaUUID
	case tTime:
		return alphaTime
	case tNBT:
		return nbtVals(false)
	case tHolder:
		return holderVals(c.Protocol, false)
	case tHolderPtr:
		return holderVals(c.Protocol, true)
	case tBitSet:
		return bitSetVals()
	case tRootPtr:
		return treeVals(c.Protocol)
	case tActions:
		return upsertActionVals(c.Protocol)
	case tBytes:
		return bytesVals(0)
	case tStrings:
		return stringSliceVals()
	case tUUIDs:
		return uuidSliceVals()
	case tKeys:
		return keySliceVals()
	case tMapSS:
		return mapStringStringVals()
	case tMapSB:
		return argsMapVals()
	case tTags:
		return tagsVals()
	case tKey:
		return keyVals()
	case tIDKey:
		return identifiedKeyVals()
	case tComponent:
		return componentVals()
	}
	switch t.Kind() {
	case reflect.String:
		return stringVals(0)
	case reflect.Bool:
		return alphaBool
	case reflect.Int, reflect.Int32:
		return alphaInt32
	case reflect.Int64:
		return alphaInt64
	case reflect.Int16:
		return alphaInt16
	case reflect.Int8:
		return alphaInt8
	case reflect.Uint8:
		return alphaUint8
	case reflect.Uint16:
		return alphaUint16
	case reflect.Float32:
		return alphaFloat32
	case reflect.Ptr:
		// pointer to scalar: absent + every scalar value
		inner := defaultAlphabet(c, t.Elem())
		out := []Val{v("ptr:nil", nil)}
		// rich value first
		idx := []int{1}
		for i := range inner {
			if i != 1 {
				idx = append(idx, i)
			}
		}
		for _, i := range idx {
			if i >= len(inner) {
				continue
			}
			iv := inner[i]
			out = append(out, vf("ptr:"+iv.Label, func() any {
				p := reflect.New(t.Elem())
				assign(p.Elem(), iv.Make())
				return p.Interface()
			}))
		}
		return out
	}
	panic(fmt.Sprintf("pktgen: no alphabet for type %s", t))
}

// assign stores x (any convertible Go value, nil = zero) into dst.
func assign(dst reflect.Value, x any) {
	if x == nil {
		dst.Set(reflect.Zero(dst.Type()))
		return
	}
	xv := reflect.ValueOf(x)
	switch {
	case xv.Type().AssignableTo(dst.Type()):
		dst.Set(xv)
	case xv.Type().ConvertibleTo(dst.Type()):
		dst.Set(xv.Convert(dst.Type()))
	case dst.Kind() == reflect.Ptr:
		p := reflect.New(dst.Type().Elem())
		assign(p.Elem(), x)
		dst.Set(p)
	default:
		panic(fmt.Sprintf("pktgen: cannot assign %s to %s", xv.Type(), dst.Type()))
	}
}

func pick(vs []Val, which int) Val {
	if which < len(vs) {
		return vs[which]
	}
	if which == 2 && len(vs) > 0 {
		return vs[0]
	}
	return vs[len(vs)-1]
}

// build constructs a value of type t located at normalised path norm: which = 0 sparse, 1 rich, 2 alt.
func (g *Gen) build(t reflect.Type, norm string, which int) reflect.Value {
	out := reflect.New(t).Elem()
	switch {
	case plainStruct(t):
		g.fill(out, norm, which)
	case classify(t) == kOptStruct:
		if which != 0 {
			p := reflect.New(t.Elem())
			g.fill(p.Elem(), norm, which)
			out.Set(p)
		}
	case classify(t) == kStructSlice:
		if which != 0 {
			out.Set(reflect.Append(out, g.buildElem(t, norm, which)))
		}
	default:
		assign(out, pick(g.alphabet(norm, t), which).Make())
	}
	return out
}

// buildElem builds one element of a struct slice; pointer elements are never nil.
func (g *Gen) buildElem(sliceT reflect.Type, norm string, which int) reflect.Value {
	e := sliceT.Elem()
	if e.Kind() == reflect.Ptr {
		p := reflect.New(e.Elem())
		g.fill(p.Elem(), norm, which)
		return p
	}
	return g.build(e, norm, which)
}

func join(a, b string) string {
	if a == "" {
		return b
	}
	return a + "." + b
}

func (g *Gen) fill(sv reflect.Value, norm string, which int) {
	t := sv.Type()
	for i := 0; i < t.NumField(); i++ {
		f := t.Field(i)
		if !f.IsExported() {
			continue
		}
		n := join(norm, f.Name)
		if g.ignored(n) {
			continue
		}
		sv.Field(i).Set(g.build(f.Type, n, which))
	}
}

// Dev is one deviation: position index and alphabet index.
type Dev struct {
	Pos int
	Val int
}

// Spec identifies one generated packet value of a cell.
type Spec struct {
	Base string // "rich" | "min"
	Mode []Dev  // discriminator settings
	Devs []Dev
}

func (g *Gen) devLabel(d Dev) string {
	p := g.pos[d.Pos]
	return p.Path.String() + "=" + g.Alphabet(p)[d.Val].Label
}

// Label renders a spec for reports and replay.
func (g *Gen) Label(s Spec) string {
	var parts []string
	for _, d := range s.Mode {
		parts = append(parts, "mode:"+g.devLabel(d))
	}
	for _, d := range s.Devs {
		parts = append(parts, g.devLabel(d))
	}
	return s.Base + "{" + strings.Join(parts, "; ") + "}"
}

// New returns a zero packet initialised like the registry does (SetState).
func (g *Gen) New() proto.Packet { return g.Cell.New() }

// rich returns a fresh all-rich value with the mode applied.
func (g *Gen) rich(mode []Dev) reflect.Value {
	p := reflect.ValueOf(g.Cell.New())
	g.fill(p.Elem(), "", 1)
	for _, d := range mode {
		g.apply(p, d)
	}
	return p
}

func (g *Gen) apply(root reflect.Value, d Dev) {
	p := g.pos[d.Pos]
	g.setAt(root, p.Path, g.Alphabet(p)[d.Val].Make(), true)
}

// applySparse sets a position to its sparse value unless an enclosing optional/slice is absent.
func (g *Gen) applySparse(root reflect.Value, i int) {
	p := g.pos[i]
	g.setAt(root, p.Path, g.Alphabet(p)[0].Make(), false)
}

// SetAt sets the value at a concrete path, allocating nil pointers and extending slices with rich
// elements on the way.
func (g *Gen) SetAt(root reflect.Value, path Path, x any) { g.setAt(root, path, x, true) }

func (g *Gen) setAt(root reflect.Value, path Path, x any, alloc bool) {
	cur := root.Elem()
	var norm string
	for i, st := range path {
		f := cur.FieldByName(st.Field)
		if !f.IsValid() {
			panic("pktgen: no field " + st.Field + " in " + cur.Type().String())
		}
		norm = join(norm, st.Field)
		last := i == len(path)-1
		if st.Index >= 0 {
			for f.Len() <= st.Index {
				if !alloc {
					return
				}
				f.Set(reflect.Append(f, g.buildElem(f.Type(), norm, 1)))
			}
			e := f.Index(st.Index)
			if last {
				assign(e, x)
				return
			}
			if e.Kind() == reflect.Ptr {
				if e.IsNil() {
					if !alloc {
						return
					}
					e.Set(g.buildElem(f.Type(), norm, 1))
				}
				e = e.Elem()
			}
			cur = e
			continue
		}
		if last {
			assign(f, x)
			return
		}
		if f.Kind() == reflect.Ptr {
			if f.IsNil() {
				if !alloc {
					return
				}
				f.Set(g.build(f.Type(), norm, 1))
			}
			f = f.Elem()
		}
		cur = f
	}
}

// GetAt returns the value at a concrete path (invalid Value if a pointer on the way is nil or an
// index is out of range).
func GetAt(root reflect.Value, path Path) reflect.Value {
	cur := root.Elem()
	for i, st := range path {
		f := cur.FieldByName(st.Field)
		if !f.IsValid() {
			return reflect.Value{}
		}
		if st.Index >= 0 {
			if f.Kind() != reflect.Slice || f.Len() <= st.Index {
				return reflect.Value{}
			}
			f = f.Index(st.Index)
		}
		if i == len(path)-1 {
			return f
		}
		if f.Kind() == reflect.Ptr {
			if f.IsNil() {
				return reflect.Value{}
			}
			f = f.Elem()
		}
		cur = f
	}
	return cur
}

// encodes reports whether the packet encodes and decodes back without error or panic.
func (g *Gen) encodes(p reflect.Value) bool {
	ok := false
	func() {
		defer func() { _ = recover() }()
		var buf bytes.Buffer
		if err := p.Interface().(proto.Packet).Encode(g.Cell.Ctx(), &buf); err != nil {
			return
		}
		q := g.Cell.New()
		if err := q.Decode(g.Cell.Ctx(), bytes.NewReader(buf.Bytes())); err != nil {
			return
		}
		ok = true
	}()
	return ok
}

// minPlan computes, for a mode, which non-discriminator positions can be sparse: starting from
// the rich value each position in turn is set to its sparse value and kept sparse if the packet
// still encodes and decodes. The result is the set of positions that stay rich ("required").
func (g *Gen) minPlan(mode []Dev) []bool {
	sparse := make([]bool, len(g.pos))
	buildWith := func(extra int) reflect.Value {
		p := g.rich(mode)
		for i := range g.pos {
			if sparse[i] || i == extra {
				g.applySparse(p, i)
			}
		}
		return p
	}
	if !g.encodes(g.rich(mode)) {
		return nil
	}
	for i, pos := range g.pos {
		if g.disc[pos.Path.Norm()] {
			continue
		}
		if g.encodes(buildWith(i)) {
			sparse[i] = true
		}
	}
	return sparse
}

// Builder returns a function that builds a fresh packet for a spec.
func (g *Gen) Build(s Spec, minSparse []bool) proto.Packet {
	p := g.rich(s.Mode)
	if s.Base == "min" {
		for i := range g.pos {
			if minSparse != nil && minSparse[i] {
				g.applySparse(p, i)
			}
		}
		// sparse values of nested positions may have been overwritten by a later, enclosing position;
		// order of g.pos is outer-before-inner, so re-applying is not needed.
	}
	for _, d := range s.Devs {
		g.apply(p, d)
	}
	return p.Interface().(proto.Packet)
}

// Modes is the cross product of the discriminator alphabets ([[]] when there is none).
func (g *Gen) Modes() [][]Dev {
	modes := [][]Dev{nil}
	for i, pos := range g.pos {
		if !g.disc[pos.Path.Norm()] {
			continue
		}
		var next [][]Dev
		for _, m := range modes {
			for vi := range g.Alphabet(pos) {
				mm := append(append([]Dev(nil), m...), Dev{i, vi})
				next = append(next, mm)
			}
		}
		modes = next
	}
	return modes
}

// Case is one enumerated value.
type Case struct {
	Spec  Spec
	Build func() proto.Packet
}

// Enumerate calls fn for every base (rich, min) x mode x deviation set of size <= depth. fn
// returns false to stop. Specs are yielded in a deterministic order.
func (g *Gen) Enumerate(depth int, fn func(Case) bool) {
	for _, mode := range g.Modes() {
		minSparse := g.minPlan(mode)
		for _, base := range []string{"rich", "min"} {
			if base == "min" && minSparse == nil {
				continue
			}
			base := base
			emit := func(devs []Dev) bool {
				s := Spec{Base: base, Mode: mode, Devs: append([]Dev(nil), devs...)}
				return fn(Case{Spec: s, Build: func() proto.Packet { return g.Build(s, minSparse) }})
			}
			if !emit(nil) {
				return
			}
			baseIdx := func(i int) int {
				if base == "min" && minSparse[i] {
					return 0
				}
				return 1
			}
			var rec func(start int, devs []Dev) bool
			rec = func(start int, devs []Dev) bool {
				if len(devs) == depth {
					return true
				}
				for i := start; i < len(g.pos); i++ {
					pos := g.pos[i]
					if g.disc[pos.Path.Norm()] {
						continue
					}
					al := g.Alphabet(pos)
					for vi := range al {
						if vi == baseIdx(i) && vi < len(al) {
							continue
						}
						if base == "min" && isCountLabel(al[vi].Label) {
							continue // element-count boundaries are enumerated around the rich base only (cost)
						}
						d := append(devs, Dev{i, vi})
						if !emit(d) {
							return false
						}
						if !rec(i+1, d) {
							return false
						}
					}
				}
				return true
			}
			if !rec(0, nil) {
				return
			}
		}
	}
}

// Bases yields only the base values (rich and min of every mode): the seeds of the C05 mutations.
func (g *Gen) Bases(fn func(Case) bool) { g.Enumerate(0, fn) }

// AlphabetAt returns the alphabet of the position a concrete path belongs to (nil if the path is
// not a generator position).
func (g *Gen) AlphabetAt(path Path) []Val {
	n := path.Norm()
	for _, p := range g.pos {
		if p.Path.Norm() == n {
			return g.Alphabet(p)
		}
	}
	return nil
}

// CaseFor rebuilds the case of a spec (replay).
func (g *Gen) CaseFor(s Spec) Case {
	minSparse := g.minPlan(s.Mode)
	return Case{Spec: s, Build: func() proto.Packet { return g.Build(s, minSparse) }}
}

// FindCell looks a cell up by its String form.
func FindCell(s string) (Cell, bool) {
	for _, c := range Cells() {
		if c.String() == s {
			return c, true
		}
	}
	return Cell{}, false
}

// IsComponentPath reports whether the position of a path holds a chat component.
func IsComponentPath(g *Gen, path Path) bool {
	n := path.Norm()
	for _, p := range g.pos {
		if p.Path.Norm() == n {
			return p.Type == tHolder || p.Type == tHolderPtr || p.Type == tComponent
		}
	}
	return false
}

// Seed is one valid encoding of a cell (packet data without the packet id).
type Seed struct {
	Label string
	Data  []byte
}

func (g *Gen) tryEncode(cs Case) (out []byte, ok bool) {
	defer func() {
		if recover() != nil {
			ok = false
		}
	}()
	var buf bytes.Buffer
	p := cs.Build()
	if Invalid(g.Cell, p) != "" {
		return nil, false
	}
	if err := p.Encode(g.Cell.Ctx(), &buf); err != nil {
		return nil, false
	}
	return buf.Bytes(), true
}

// Seeds returns the distinct valid encodings of the base values of the cell (rich and min base of
// every mode). With structural=true it adds the encodings of the single deviations at structural
// positions (optional structs, struct slices, command graphs, NBT, action sets, keys, components)
// that are at most maxLen bytes long.
func (g *Gen) Seeds(structural bool, maxLen int) []Seed {
	var out []Seed
	seen := map[string]bool{}
	add := func(cs Case) {
		b, ok := g.tryEncode(cs)
		if !ok || seen[string(b)] {
			return
		}
		seen[string(b)] = true
		out = append(out, Seed{g.Label(cs.Spec), b})
	}
	g.Enumerate(0, func(cs Case) bool { add(cs); return true })
	if structural {
		g.Enumerate(1, func(cs Case) bool {
			if len(cs.Spec.Devs) != 1 {
				return true
			}
			p := g.pos[cs.Spec.Devs[0].Pos]
			st := p.Kind != kLeaf
			switch p.Type {
			case tRootPtr, tNBT, tActions, tHolder, tHolderPtr, tIDKey, tComponent, tTags, tMapSB, tMapSS, tKeys, tStrings, tUUIDs:
				st = true
			}
			if !st {
				return true
			}
			if b, ok := g.tryEncode(cs); ok && len(b) <= maxLen && !seen[string(b)] {
				seen[string(b)] = true
				out = append(out, Seed{g.Label(cs.Spec), b})
			}
			return true
		})
	}
	return out
}

// isCountLabel recognises the element-count boundary values (slice:countN, strs:countN, uuids:countN, keys:countN,
// map:countN, tags:countN-*, tree:wide-*).
func isCountLabel(l string) bool {
	return strings.Contains(l, ":count") || strings.HasPrefix(l, "tree:wide-")
}
