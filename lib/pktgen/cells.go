// Package pktgen is the deterministic, reflection-driven packet value generator shared by the
// C04 (round-trip) and C05 (hostile decode) harnesses. It enumerates the cells of the packet
// registry in pkg/edition/java/proto/state and, for every registered packet type, a base value
// plus all <=d-field deviations drawn from per-kind boundary alphabets.
package pktgen

import (
	"fmt"
	"reflect"
	"sort"

	"go.minekube.com/gate/pkg/edition/java/proto/state"
	"go.minekube.com/gate/pkg/edition/java/proto/state/states"
	"go.minekube.com/gate/pkg/gate/proto"
)

// Cell is one (state, direction, protocol, packet type) entry of the registry.
type Cell struct {
	State     *state.Registry
	Direction proto.Direction
	Protocol  proto.Protocol
	ID        proto.PacketID
	Type      reflect.Type // struct type (not pointer)
}

func (c Cell) String() string {
	return fmt.Sprintf("%s/%s/%d/%#02x/%s", c.State.State, c.Direction, int(c.Protocol), int(c.ID), TypeName(c.Type))
}

// Ctx returns the packet context a packet of this cell is encoded/decoded with.
func (c Cell) Ctx() *proto.PacketContext {
	return &proto.PacketContext{Direction: c.Direction, Protocol: c.Protocol, PacketID: c.ID}
}

// New returns a fresh zero packet of the cell's type, initialised the way
// ProtocolRegistry.CreatePacket does (stateful packets get the registry state).
func (c Cell) New() proto.Packet {
	p := reflect.New(c.Type).Interface().(proto.Packet)
	if s, ok := p.(interface{ SetState(states.State) }); ok {
		s.SetState(c.State.State)
	}
	return p
}

// TypeName is pkg.Type of a packet struct type.
func TypeName(t reflect.Type) string { return t.String() }

// Registries in a fixed order.
var Registries = []*state.Registry{state.Handshake, state.Status, state.Login, state.Config, state.Play}

// Cells lists every registered cell in a deterministic order
// (state, direction, protocol ascending, packet id ascending).
func Cells() []Cell {
	var out []Cell
	for _, reg := range Registries {
		for _, pr := range []*state.PacketRegistry{reg.ServerBound, reg.ClientBound} {
			var protos []int
			for p := range pr.Protocols {
				protos = append(protos, int(p))
			}
			sort.Ints(protos)
			for _, p := range protos {
				r := pr.Protocols[proto.Protocol(p)]
				var ids []int
				for id := range r.PacketIDs {
					ids = append(ids, int(id))
				}
				sort.Ints(ids)
				for _, id := range ids {
					out = append(out, Cell{State: reg, Direction: pr.Direction, Protocol: proto.Protocol(p),
						ID: proto.PacketID(id), Type: r.PacketIDs[proto.PacketID(id)]})
				}
			}
		}
	}
	return out
}
