package pktgen

import (
	"bytes"
	"encoding/json"
	"fmt"
	"math"
	"reflect"
	"sort"
	"strings"
	"time"

	"github.com/Tnze/go-mc/nbt"
	"go.minekube.com/brigodier"
	"go.minekube.com/common/minecraft/component"
	"go.minekube.com/common/minecraft/component/codec"
	"go.minekube.com/common/minecraft/key"

	"go.minekube.com/gate/pkg/edition/java/proto/packet/chat"
	"go.minekube.com/gate/pkg/edition/java/proto/packet/tablist/playerinfo"
	"go.minekube.com/gate/pkg/edition/java/proxy/crypto"
)

// Diff is one place where two packet values differ semantically.
type Diff struct {
	Path Path
	A, B string // short renderings (A = original, B = decoded)
}

func short(s string) string {
	if len(s) > 160 {
		return fmt.Sprintf("%s…(%d bytes)", s[:160], len(s))
	}
	return s
}

// DiffPackets compares two packets of the same type field by field at the finest granularity the
// generator knows (struct fields, slice elements, optional structs), using value semantics for the
// representation-rich kinds (components, keys, NBT, command graphs, times, bit sets, action sets).
func DiffPackets(typeName string, a, b any) []Diff {
	var out []Diff
	diffValue(typeName, reflect.ValueOf(a).Elem(), reflect.ValueOf(b).Elem(), nil, &out)
	return out
}

func add(out *[]Diff, p Path, a, b string) {
	*out = append(*out, Diff{append(Path(nil), p...), short(a), short(b)})
}

// canonical JSON of a component through the library codec (external to the code under test)
func compJSON(c component.Component) (string, error) {
	if c == nil {
		return "<nil>", nil
	}
	var buf bytes.Buffer
	if err := codec.JsonModern.Marshal(&buf, c); err != nil {
		return "", err
	}
	var x any
	if err := json.Unmarshal(buf.Bytes(), &x); err != nil {
		return "", err
	}
	x = normJSON(x)
	b, _ := json.Marshal(x)
	return string(b), nil
}

// normJSON: a bare string and {"text":s} are the same component.
func normJSON(x any) any {
	switch t := x.(type) {
	case string:
		return map[string]any{"text": t}
	case []any:
		for i := range t {
			t[i] = normJSON(t[i])
		}
		return t
	case map[string]any:
		for _, k := range []string{"extra", "with"} {
			if v, ok := t[k]; ok {
				t[k] = normJSON(v)
			}
		}
		return t
	}
	return x
}

func holderJSON(h *chat.ComponentHolder) string {
	if h == nil {
		return "<nil holder>"
	}
	if h.Component == nil && len(h.JSON) == 0 && len(h.BinaryTag.Data) == 0 {
		return "<empty holder>"
	}
	// work on a copy: AsComponent caches
	cp := *h
	c, err := cp.AsComponent()
	if err != nil {
		return "<holder error: " + err.Error() + ">"
	}
	s, err := compJSON(c)
	if err != nil {
		return "<marshal error: " + err.Error() + ">"
	}
	return s
}

func keyStr(k key.Key) string {
	if k == nil || (reflect.ValueOf(k).Kind() == reflect.Ptr && reflect.ValueOf(k).IsNil()) {
		return "<nil>"
	}
	return k.String()
}

func idKeyStr(k crypto.IdentifiedKey) string {
	if k == nil || (reflect.ValueOf(k).Kind() == reflect.Ptr && reflect.ValueOf(k).IsNil()) {
		return "<nil>"
	}
	return fmt.Sprintf("key=%x expiry=%d sig=%x", k.SignedPublicKeyBytes(), k.ExpiryTemporal().UnixMilli(), k.Signature())
}

func actionSetStr(s []playerinfo.UpsertAction) string {
	set := map[string]bool{}
	for _, a := range s {
		set[reflect.TypeOf(a).Elem().Name()] = true
	}
	var names []string
	for n := range set {
		names = append(names, n)
	}
	sort.Strings(names)
	return strings.Join(names, ",")
}

func trimZeros(b []byte) []byte {
	for len(b) > 0 && b[len(b)-1] == 0 {
		b = b[:len(b)-1]
	}
	return b
}

func diffValue(tn string, a, b reflect.Value, p Path, out *[]Diff) {
	t := a.Type()
	if Derived[tn+"."+p.Norm()] {
		return
	}
	// --- special kinds ---
	switch t {
	case tHolder:
		ha, hb := a.Interface().(chat.ComponentHolder), b.Interface().(chat.ComponentHolder)
		if x, y := holderJSON(&ha), holderJSON(&hb); x != y {
			add(out, p, x, y)
		}
		return
	case tHolderPtr:
		if x, y := holderJSON(a.Interface().(*chat.ComponentHolder)), holderJSON(b.Interface().(*chat.ComponentHolder)); x != y {
			add(out, p, x, y)
		}
		return
	case tComponent:
		var ca, cb component.Component
		if !a.IsNil() {
			ca = a.Interface().(component.Component)
		}
		if !b.IsNil() {
			cb = b.Interface().(component.Component)
		}
		x, e1 := compJSON(ca)
		y, e2 := compJSON(cb)
		if e1 != nil || e2 != nil || x != y {
			add(out, p, fmt.Sprint(x, e1), fmt.Sprint(y, e2))
		}
		return
	case tKey:
		var ka, kb key.Key
		if !a.IsNil() {
			ka = a.Interface().(key.Key)
		}
		if !b.IsNil() {
			kb = b.Interface().(key.Key)
		}
		if x, y := keyStr(ka), keyStr(kb); x != y {
			add(out, p, x, y)
		}
		return
	case tIDKey:
		var ka, kb crypto.IdentifiedKey
		if !a.IsNil() {
			ka = a.Interface().(crypto.IdentifiedKey)
		}
		if !b.IsNil() {
			kb = b.Interface().(crypto.IdentifiedKey)
		}
		if x, y := idKeyStr(ka), idKeyStr(kb); x != y {
			add(out, p, x, y)
		}
		return
	case tTime:
		x, y := a.Interface().(time.Time).UnixMilli(), b.Interface().(time.Time).UnixMilli()
		if x != y {
			add(out, p, fmt.Sprint(x, "ms"), fmt.Sprint(y, "ms"))
		}
		return
	case tNBT:
		na, nb := a.Interface().(nbt.RawMessage), b.Interface().(nbt.RawMessage)
		if na.Type != nb.Type || !bytes.Equal(na.Data, nb.Data) {
			add(out, p, fmt.Sprintf("nbt type=%d data=%x", na.Type, na.Data), fmt.Sprintf("nbt type=%d data=%x", nb.Type, nb.Data))
		}
		return
	case tBitSet:
		x, y := trimZeros(a.Field(0).Bytes()), trimZeros(b.Field(0).Bytes())
		if !bytes.Equal(x, y) {
			add(out, p, fmt.Sprintf("bits %x", x), fmt.Sprintf("bits %x", y))
		}
		return
	case tRootPtr:
		x, y := DumpTree(a.Interface().(*brigodier.RootCommandNode)), DumpTree(b.Interface().(*brigodier.RootCommandNode))
		if x != y {
			add(out, p, x, y)
		}
		return
	case tActions:
		x, y := actionSetStr(a.Interface().([]playerinfo.UpsertAction)), actionSetStr(b.Interface().([]playerinfo.UpsertAction))
		if x != y {
			add(out, p, x, y)
		}
		return
	case tStrings, tUUIDs:
		if a.Len() != b.Len() || (a.Len() > 0 && !reflect.DeepEqual(a.Interface(), b.Interface())) {
			add(out, p, fmt.Sprintf("%v", a.Interface()), fmt.Sprintf("%v", b.Interface()))
		}
		return
	case tKeys:
		ka, kb := a.Interface().([]key.Key), b.Interface().([]key.Key)
		x, y := "", ""
		for _, k := range ka {
			x += keyStr(k) + ","
		}
		for _, k := range kb {
			y += keyStr(k) + ","
		}
		if x != y {
			add(out, p, x, y)
		}
		return
	case tBytes:
		if !bytes.Equal(a.Bytes(), b.Bytes()) {
			add(out, p, fmt.Sprintf("%d bytes %x", a.Len(), a.Bytes()), fmt.Sprintf("%d bytes %x", b.Len(), b.Bytes()))
		}
		return
	}
	switch t.Kind() {
	case reflect.Struct:
		for i := 0; i < t.NumField(); i++ {
			f := t.Field(i)
			if !f.IsExported() {
				continue
			}
			q := p.with(f.Name, -1)
			if ignoredPaths[tn+"."+q.Norm()] {
				continue
			}
			diffValue(tn, a.Field(i), b.Field(i), q, out)
		}
	case reflect.Ptr:
		if a.IsNil() != b.IsNil() {
			add(out, p, fmt.Sprintf("nil=%v", a.IsNil()), fmt.Sprintf("nil=%v", b.IsNil()))
			return
		}
		if a.IsNil() {
			return
		}
		diffValue(tn, a.Elem(), b.Elem(), p, out)
	case reflect.Slice:
		if a.Len() != b.Len() {
			add(out, p, fmt.Sprintf("len=%d", a.Len()), fmt.Sprintf("len=%d", b.Len()))
			return
		}
		for i := 0; i < a.Len(); i++ {
			q := append(Path(nil), p...)
			if len(q) > 0 {
				q[len(q)-1].Index = i
			}
			diffValue(tn, a.Index(i), b.Index(i), q, out)
		}
	case reflect.Map:
		if a.Len() != b.Len() {
			add(out, p, fmt.Sprintf("map len=%d %v", a.Len(), a.Interface()), fmt.Sprintf("map len=%d %v", b.Len(), b.Interface()))
			return
		}
		for _, k := range a.MapKeys() {
			bv := b.MapIndex(k)
			if !bv.IsValid() {
				add(out, p, fmt.Sprintf("key %v present", k), "missing")
				return
			}
			var sub []Diff
			diffValue(tn, a.MapIndex(k), bv, p, &sub)
			if len(sub) > 0 {
				add(out, p, fmt.Sprintf("[%v] %s", k, sub[0].A), fmt.Sprintf("[%v] %s", k, sub[0].B))
				return
			}
		}
	case reflect.Float32, reflect.Float64:
		if math.Float64bits(a.Float()) != math.Float64bits(b.Float()) {
			add(out, p, fmt.Sprintf("%x", a.Float()), fmt.Sprintf("%x", b.Float()))
		}
	case reflect.Array, reflect.String, reflect.Bool, reflect.Int, reflect.Int8, reflect.Int16, reflect.Int32, reflect.Int64,
		reflect.Uint, reflect.Uint8, reflect.Uint16, reflect.Uint32, reflect.Uint64:
		if !reflect.DeepEqual(a.Interface(), b.Interface()) {
			add(out, p, fmt.Sprintf("%v", a.Interface()), fmt.Sprintf("%v", b.Interface()))
		}
	case reflect.Interface:
		if a.IsNil() != b.IsNil() {
			add(out, p, fmt.Sprintf("nil=%v", a.IsNil()), fmt.Sprintf("nil=%v", b.IsNil()))
		}
	default:
		panic("pktgen: diff: unhandled kind " + t.String())
	}
}

// HasMap reports whether the packet type contains map-typed data (its encoding order is not
// deterministic, see CustomReportDetails / TagsUpdate / KeyedPlayerCommand).
func HasMap(t reflect.Type) bool { return hasMap(t, 0) }

func hasMap(t reflect.Type, depth int) bool {
	if depth > 6 || specialLeaf[t] && t.Kind() != reflect.Map {
		return false
	}
	switch t.Kind() {
	case reflect.Map:
		return true
	case reflect.Ptr, reflect.Slice:
		return hasMap(t.Elem(), depth+1)
	case reflect.Struct:
		for i := 0; i < t.NumField(); i++ {
			if t.Field(i).IsExported() && hasMap(t.Field(i).Type, depth+1) {
				return true
			}
		}
	}
	return false
}
