package pktgen

import (
	"bytes"

	"go.minekube.com/gate/pkg/edition/java/proto/util"
	"go.minekube.com/gate/pkg/edition/java/proto/version"
)

// Structural hostile generator for packets whose decoder builds a graph from wire indices.
// Byte mutations of valid encodings practically never produce index cycles, so the node graphs
// are enumerated outright. The only such decoder in the registry is AvailableCommands (nodes
// reference children, a redirect target and the root by index).

// IsIndexGraphPacket reports whether the cell's decoder builds a graph from wire indices.
func IsIndexGraphPacket(c Cell) bool { return TypeName(c.Type) == "packet.AvailableCommands" }

type gnode struct {
	typ      byte  // 0 root, 1 literal, 2 argument
	children []int // wire indices
	redirect int   // -2: flag off; otherwise the index written after the children
	name     string
}

func (n gnode) encode(b *bytes.Buffer, c Cell) {
	flags := n.typ
	if n.redirect != -2 {
		flags |= 0x08
	}
	b.WriteByte(flags)
	_ = util.WriteVarInt(b, len(n.children))
	for _, ch := range n.children {
		_ = util.WriteVarInt(b, ch)
	}
	if n.redirect != -2 {
		_ = util.WriteVarInt(b, n.redirect)
	}
	switch n.typ {
	case 1:
		_ = util.WriteString(b, n.name)
	case 2:
		_ = util.WriteString(b, n.name)
		if c.Protocol.GreaterEqual(version.Minecraft_1_19) {
			_ = util.WriteVarInt(b, 0) // brigadier:bool, no properties
		} else {
			_ = util.WriteString(b, "brigadier:bool")
		}
	}
}

// nodeChoices lists every shape of node number self in a graph of n nodes.
//
//	full=true : type in {root, literal, argument(bool)}; children = every subset of {0..n-1} (ascending),
//	            the out-of-range list [n] and the duplicate list [self, self]; redirect flag off, or on
//	            with index 0..n (self, forward, backward, n = out of range)
//	full=false: as above without argument nodes and without the duplicate list
func nodeChoices(self, n int, full bool, name string) []gnode {
	var childLists [][]int
	for mask := 0; mask < 1<<n; mask++ {
		var l []int
		for i := 0; i < n; i++ {
			if mask&(1<<i) != 0 {
				l = append(l, i)
			}
		}
		childLists = append(childLists, l)
	}
	childLists = append(childLists, []int{n})
	if full {
		childLists = append(childLists, []int{self, self})
	}
	types := []byte{0, 1}
	if full {
		types = append(types, 2)
	}
	redirects := []int{-2}
	for r := 0; r <= n; r++ {
		redirects = append(redirects, r)
	}
	var out []gnode
	for _, t := range types {
		for _, cl := range childLists {
			for _, r := range redirects {
				out = append(out, gnode{typ: t, children: cl, redirect: r, name: name})
			}
		}
	}
	return out
}

// GraphPayloads enumerates ALL node graphs of 1..maxNodes nodes (node shapes see nodeChoices; graphs
// of up to 2 nodes use the full shapes and both equal and different sibling names, 3-node graphs the
// restricted shapes with names a,b,a) x every root index 0..n (n = out of range) and calls fn with the
// packet data. fn returns false to stop. The count is returned.
func GraphPayloads(c Cell, maxNodes int, fn func(data []byte) bool) int {
	count := 0
	var buf bytes.Buffer
	emit := func(nodes []gnode) bool {
		n := len(nodes)
		for root := 0; root <= n; root++ {
			buf.Reset()
			_ = util.WriteVarInt(&buf, n)
			for _, nd := range nodes {
				nd.encode(&buf, c)
			}
			_ = util.WriteVarInt(&buf, root)
			count++
			if !fn(buf.Bytes()) {
				return false
			}
		}
		return true
	}
	for n := 1; n <= maxNodes; n++ {
		full := n <= 2
		nameSets := [][]string{{"a", "b", "a"}}
		if n == 2 {
			nameSets = [][]string{{"a", "a"}, {"a", "b"}}
		}
		for _, names := range nameSets {
			choices := make([][]gnode, n)
			for i := 0; i < n; i++ {
				choices[i] = nodeChoices(i, n, full, names[i])
			}
			idx := make([]int, n)
			nodes := make([]gnode, n)
			for {
				for i := 0; i < n; i++ {
					nodes[i] = choices[i][idx[i]]
				}
				if !emit(nodes) {
					return count
				}
				k := n - 1
				for k >= 0 {
					idx[k]++
					if idx[k] < len(choices[k]) {
						break
					}
					idx[k] = 0
					k--
				}
				if k < 0 {
					break
				}
			}
		}
	}
	return count
}

// ExtraSeeds returns valid encodings of wire shapes that NO value of the generator encodes to, because the proxy's
// encoder never produces them although its decoder accepts them: they can only come from the peer. Currently: a
// command tree with a crossstitch "mod argument" (the wrapper modded servers use for argument types the proxy does not
// know: parser crossstitch:mod_argument (id -256 from 1.19), then the wrapped parser's id (VarInt from 1.19, String
// before), then a length-prefixed blob). The proxy re-encodes such a node WITHOUT the wrapper, so the generator's trees
// can never reach brigadier.ModArgumentPropertyCodec's decoder; C05 mutates these seeds like every other seed.
func ExtraSeeds(c Cell) []Seed {
	if TypeName(c.Type) != "packet.AvailableCommands" {
		return nil
	}
	mk := func(label string, inner func(b *bytes.Buffer), blob []byte, flags byte) Seed {
		var b bytes.Buffer
		_ = util.WriteVarInt(&b, 2) // two nodes
		b.WriteByte(0x00)           // root
		_ = util.WriteVarInt(&b, 1)
		_ = util.WriteVarInt(&b, 1)
		b.WriteByte(0x02 | flags) // argument node
		_ = util.WriteVarInt(&b, 0)
		_ = util.WriteString(&b, "modarg")
		if c.Protocol.GreaterEqual(version.Minecraft_1_19) {
			_ = util.WriteVarInt(&b, -256)
		} else {
			_ = util.WriteString(&b, "crossstitch:mod_argument")
		}
		inner(&b)
		_ = util.WriteVarInt(&b, len(blob))
		b.Write(blob)
		if flags&0x10 != 0 {
			_ = util.WriteString(&b, "minecraft:ask_server")
		}
		_ = util.WriteVarInt(&b, 0) // root index
		return Seed{Label: "hand-made{" + label + "}", Data: append([]byte(nil), b.Bytes()...)}
	}
	if c.Protocol.GreaterEqual(version.Minecraft_1_19) {
		return []Seed{
			mk("mod-argument idx=5 blob=3", func(b *bytes.Buffer) { _ = util.WriteVarInt(b, 5) }, []byte{1, 2, 3}, 0x04),
			mk("mod-argument idx=-3 blob=0 +suggestions", func(b *bytes.Buffer) { _ = util.WriteVarInt(b, -3) }, nil, 0x10),
		}
	}
	return []Seed{
		mk("mod-argument id=mymod:thing blob=3", func(b *bytes.Buffer) { _ = util.WriteString(b, "mymod:thing") }, []byte{1, 2, 3}, 0x04),
		mk("mod-argument id=empty blob=0 +suggestions", func(b *bytes.Buffer) { _ = util.WriteString(b, "") }, nil, 0x10),
	}
}
