package pktgen

import (
	"go.minekube.com/gate/pkg/edition/java/proto/packet"
	"go.minekube.com/gate/pkg/edition/java/proto/packet/chat"
	"go.minekube.com/gate/pkg/edition/java/proto/packet/tablist/legacytablist"
	"go.minekube.com/gate/pkg/edition/java/proto/state/states"
	"go.minekube.com/gate/pkg/edition/java/proto/version"
	"go.minekube.com/gate/pkg/gate/proto"
)

// Per-field constraints. Everything in this file is taken from the protocol documentation
// (wiki.vg / minecraft.wiki "Java Edition protocol") and Velocity's packet classes, NOT from what
// Gate's decoders happen to accept: where the Go field type is wider than the wire type or the
// protocol bounds a length, the alphabet is narrowed to the values the protocol permits.
// A value inside these alphabets that does not round-trip is a finding.

// discriminators: positions whose value selects which other fields are on the wire. The
// generator enumerates them as modes (every value x both bases x all deviations of the rest).
var discriminators = map[string][]string{
	"title.Legacy":                 {"Action"},
	"bossbar.BossBar":              {"Action"},
	"legacytablist.PlayerListItem": {"Action"},
	"packet.DialogShow":            {"ID"},
	"packet.SoundEntityPacket":     {"SoundID"},
	"chat.KeyedPlayerChat":         {"Unsigned"},
	"chat.KeyedPlayerCommand":      {"Unsigned"},
}

// ignoredPaths are not packet data: context set by the registry.
var ignoredPaths = map[string]bool{
	"packet.DialogShow.State": true,
}

// Derived lists fields that the decoder computes from other fields (they are not independent
// wire data); the value oracle does not compare them.
var Derived = map[string]bool{
	// decoded as "salt == 0 && no previous messages" / "signature empty"
	"chat.KeyedPlayerCommand.Unsigned": true,
	"chat.KeyedPlayerChat.Unsigned":    true,
	// copy of Entry.ProfileID
	"playerinfo.Upsert.Entries.Profile.ID": true,
}

// Invalid reports cross-field combinations the protocol does not permit (and Encode does not
// reject); such cases are skipped and counted.
func Invalid(c Cell, pk proto.Packet) string {
	switch p := pk.(type) {
	case *chat.KeyedPlayerChat:
		if p.Unsigned && p.SignedPreview {
			return "unsigned message cannot request a signed preview"
		}
	case *chat.KeyedPlayerCommand:
		if p.Unsigned && p.SignedPreview {
			return "unsigned command cannot request a signed preview"
		}
	}
	return ""
}

// NotApplicable lists, for a concrete packet value, the fields that carry no independent wire data
// in this cell although changing them may change the encoding (documented lossy legacy formats
// and "unsigned" modes that blank other fields). Keys are normalised paths.
func NotApplicable(c Cell, pk proto.Packet) map[string]bool {
	switch p := pk.(type) {
	case *chat.KeyedPlayerChat:
		if p.Unsigned { // expiry is the send time, salt 0, signature empty
			return map[string]bool{"Expiry": true, "Salt": true, "Signature": true}
		}
	case *chat.KeyedPlayerCommand:
		if p.Unsigned { // salt 0, argument signatures blanked
			return map[string]bool{"Salt": true, "Arguments": true}
		}
	case *legacytablist.PlayerListItem:
		if c.Protocol.Lower(version.Minecraft_1_8) {
			// 1.7: one entry, "name, online, ping"; the display name (legacy text, cut to 16) replaces the name
			return map[string]bool{"Items": true, "Items.DisplayName": true, "Items.Name": true}
		}
	}
	return nil
}

// MaskEncoding blanks bytes of an encoding that legitimately hold wall-clock data, so that two
// encodings of the same value can be compared (KeyedPlayerChat writes time.Now for unsigned
// messages).
func MaskEncoding(c Cell, pk proto.Packet, enc []byte) []byte {
	if p, ok := pk.(*packet.SoundEntityPacket); ok && p.Seed == 0 && len(enc) >= 8 {
		// Seed 0 means "pick a random seed" in Encode (reported by the value oracle as a finding);
		// blank it here so that the other fields can still be compared
		out := append([]byte(nil), enc...)
		for i := len(out) - 8; i < len(out); i++ {
			out[i] = 0
		}
		return out
	}
	if p, ok := pk.(*chat.KeyedPlayerChat); ok && p.Unsigned {
		// VarInt length + message, then 8 bytes of timestamp
		n, l := 0, 0
		for l < len(enc) && l < 5 {
			b := enc[l]
			n |= int(b&0x7F) << (7 * l)
			l++
			if b&0x80 == 0 {
				break
			}
		}
		off := l + n
		if off+8 <= len(enc) {
			out := append([]byte(nil), enc...)
			for i := 0; i < 8; i++ {
				out[off+i] = 0
			}
			return out
		}
	}
	return enc
}

// LegitEncodeRejections are the documented constraints for which Encode returns an error: a
// required field is absent, an enum value does not exist (in this version), a key is not a
// valid resource location, an array exceeds the documented wire limit. Any other Encode error
// on a generated value is reported as "encode-rejects-permitted-value".
var LegitEncodeRejections = []string{
	"no reason specified", "username not specified", "no username specified", "command is not specified",
	"resource pack id is missing", "url is missing", "no component found", "action bars are only supported on 1.11+",
	"unknown action", "UUID-less entry serialization attempt", "items must not be empty",
	"dimension info level name must not be nil", "no level type specified", "key is nil", "invalid key",
	"UI sound-source is only supported", "invalid chat type", "unknown PlayerListItemAction",
	"action bar needs to have a name specified", "command arguments incorrect size", "cannot write byte array longer than",
	"don't know how to encode",
}

// sliceCounts: element counts enumerated for a struct-slice position besides 0/1/2. Default: 127 and 128 (the count is
// a VarInt everywhere; 127 is the last one-byte count). Where the protocol documentation bounds the collection, the
// documented maximum (and the value below it) is used instead; nil = the position has a fixed small domain.
var sliceCounts = map[string]func(c Cell) []int{
	// serverbound "select known packs": at most 64 packs; clientbound unbounded
	"config.KnownPacks.Packs": func(c Cell) []int {
		if c.Direction == proto.ServerBound {
			return []int{63, 64}
		}
		return []int{127, 128}
	},
	// game profile properties: at most 16
	"packet.ServerLoginSuccess.Properties":          func(Cell) []int { return []int{15, 16} },
	"playerinfo.Upsert.Entries.Profile.Properties":  func(Cell) []int { return []int{15, 16} },
	"legacytablist.PlayerListItem.Items.Properties": func(Cell) []int { return []int{15, 16} },
	// 1.19.1 signed chat: at most 5 previous messages
	"chat.KeyedPlayerChat.PreviousMessages":    func(Cell) []int { return []int{4, 5} },
	"chat.KeyedPlayerCommand.PreviousMessages": func(Cell) []int { return []int{4, 5} },
	// signed command arguments: at most 8
	"chat.SessionPlayerCommand.ArgumentSignatures.Entries":                       func(Cell) []int { return []int{7, 8} },
	"chat.UnsignedPlayerCommand.SessionPlayerCommand.ArgumentSignatures.Entries": func(Cell) []int { return []int{7, 8} },
	// 1.7 tab list packets carry exactly one item
	"legacytablist.PlayerListItem.Items": func(c Cell) []int {
		if c.Protocol.Lower(version.Minecraft_1_8) {
			return nil
		}
		return []int{127, 128}
	},
}

func sliceCountsFor(c Cell, key string) []int {
	if f, ok := sliceCounts[key]; ok {
		return f(c)
	}
	return []int{127, 128}
}

type ov = func(c Cell) []Val

func fixed(vs []Val) ov { return func(Cell) []Val { return vs } }
func strMax(n int) ov   { return func(Cell) []Val { return stringVals(n) } }
func bytesMax(n int) ov { return func(Cell) []Val { return bytesVals(n) } }

func ge(c Cell, v *proto.Version) bool { return c.Protocol.GreaterEqual(v) }
func lt(c Cell, v *proto.Version) bool { return c.Protocol.Lower(v) }

func soundSources(c Cell) []Val {
	if ge(c, version.Minecraft_1_21_5) {
		return enumVals(0, 10)
	}
	return enumVals(0, 9)
}

var gamemodes = intVals(0, 1, 2, 3)

var overrides = map[string]ov{
	// --- handshake / status / login ---
	"packet.Handshake.Port":          fixed(alphaUint16), // unsigned short
	"packet.Handshake.ServerAddress": strMax(255),
	"packet.Handshake.NextStatus":    fixed(intVals(1, 2, 3)),
	"packet.ServerLogin.Username":    strMax(16),
	"packet.ServerLogin.PlayerKey": func(c Cell) []Val {
		// only sent in 1.19 - 1.19.2
		return identifiedKeyVals()
	},
	"packet.ServerLoginSuccess.Username": strMax(16),
	"packet.EncryptionRequest.ServerID":  strMax(20),
	"packet.EncryptionRequest.PublicKey": func(c Cell) []Val {
		return bytesVals(256)
	},
	"packet.EncryptionRequest.VerifyToken": bytesMax(16),
	"packet.EncryptionResponse.SharedSecret": func(c Cell) []Val {
		return bytesVals(128)
	},
	"packet.EncryptionResponse.VerifyToken": func(c Cell) []Val {
		if ge(c, version.Minecraft_1_19) {
			return bytesVals(256)
		}
		return bytesVals(128)
	},
	"packet.LoginPluginMessage.Channel": fixed([]Val{v("chan:velocity", "velocity:player_info"), v("chan:ns", "a:b"), v("chan:empty", ""), v("chan:long", "ns:"+rep("c", 16384))}),

	// --- play / config misc ---
	"packet.ClientSettings.Locale":         strMax(16),
	"packet.ClientSettings.ChatVisibility": fixed(enumVals(0, 2)),
	"packet.ClientSettings.MainHand":       fixed(enumVals(0, 1)),
	"packet.ClientSettings.ParticleStatus": fixed(enumVals(0, 2)),
	"plugin.Message.Channel": func(c Cell) []Val {
		vs := []Val{v("chan:brand", "minecraft:brand"), v("chan:ns", "a:b"), v("chan:bungee", "bungeecord:main"),
			v("chan:long", "ns:"+rep("c", 16384))}
		if lt(c, version.Minecraft_1_13) {
			// legacy channel names are sent unchanged before 1.13 (max 20 characters)
			vs = append(vs, v("chan:legacy-MC|Brand", "MC|Brand"), v("chan:legacy-REGISTER", "REGISTER"), v("chan:legacy-BungeeCord", "BungeeCord"))
		}
		return vs
	},
	"plugin.Message.Data": func(c Cell) []Val {
		// serverbound payloads are limited to 32767 bytes; 1.7 uses a short length prefix
		return bytesVals(0)
	},
	"packet.ResourcePackRequest.Hash":  strMax(40),
	"packet.ResourcePackResponse.Hash": strMax(40),
	"packet.ResourcePackResponse.Status": func(c Cell) []Val {
		return enumVals(0, 7)
	},
	"packet.TabCompleteRequest.Command": strMax(2048), // vanilla limit for the pre-1.13 form; 32500 since 1.13 is not used by Gate
	"packet.Transfer.Port":              fixed(alphaNonNegVarInt),
	"packet.SetCompression.Threshold":   fixed(alphaInt32),
	"packet.KeepAlive.RandomID": func(c Cell) []Val {
		if ge(c, version.Minecraft_1_12_2) {
			return alphaInt64
		}
		return alphaInt32 // VarInt (1.8+) / int (1.7)
	},
	"packet.ServerData.Favicon": func(c Cell) []Val { return faviconVals(c.Protocol) },
	"packet.ServerLinks.ServerLinks.ID": fixed(append(intVals(0, -1), // sparse: built-in type 0; rich: custom (-1)
		intVals(1, 9, 127, 128)...)),
	"packet.PlayerChatCompletion.Action": fixed(enumVals(0, 2)),
	"packet.DialogShow.ID":               fixed(intVals(0, 1, 128)),
	"packet.SoundEntityPacket.SoundID":   fixed(intVals(0, 1, 128)),
	"packet.SoundEntityPacket.SoundSource": func(c Cell) []Val {
		return soundSources(c)
	},
	"packet.StopSoundPacket.Source": func(c Cell) []Val {
		out := []Val{v("ptr:nil", nil)}
		for _, s := range soundSources(c) {
			s := s
			out = append(out, vf("ptr:"+s.Label, func() any { return s.Make() }))
		}
		return out
	},
	"packet.StopSoundPacket.SoundName":   fixed(keyVals()[:3]),
	"packet.SoundEntityPacket.SoundName": fixed(keyVals()[:3]),

	// --- chat ---
	"chat.LegacyChat.Message": func(c Cell) []Val {
		if c.Direction == proto.ClientBound {
			return stringVals(0) // JSON up to 262144
		}
		if ge(c, version.Minecraft_1_11) {
			return stringVals(256)
		}
		return stringVals(100)
	},
	"chat.LegacyChat.Type":                                           fixed(enumVals(0, 2)),
	"chat.SystemChat.Type":                                           fixed(intVals(1, 2, 0)),
	"chat.SessionPlayerChat.Message":                                 strMax(256),
	"chat.SessionPlayerChat.Signature":                               fixed(fixedBytesVals(256)),
	"chat.SessionPlayerChat.LastSeenMessages.Offset":                 fixed(alphaNonNegVarInt),
	"chat.SessionPlayerCommand.LastSeenMessages.Offset":              fixed(alphaNonNegVarInt),
	"chat.ChatAcknowledgement.Offset":                                fixed(alphaNonNegVarInt),
	"chat.SessionPlayerCommand.ArgumentSignatures.Entries.Name":      strMax(16),
	"chat.SessionPlayerCommand.ArgumentSignatures.Entries.Signature": fixed(fixedBytesVals(256)),
	"chat.SessionPlayerCommand.Command": func(c Cell) []Val {
		if ge(c, version.Minecraft_1_20_5) {
			return stringVals(0)
		}
		return stringVals(256)
	},
	"chat.UnsignedPlayerCommand.SessionPlayerCommand.Command": strMax(0),
	"chat.KeyedPlayerChat.Message":                            strMax(256),
	"chat.KeyedPlayerCommand.Command":                         strMax(256),
	// 1.19-1.19.2 signed chat: salt is 8 bytes, signature non-empty when signed
	"chat.KeyedPlayerChat.Salt": fixed([]Val{
		vf("salt:8", func() any { return []byte{0, 0, 0, 0, 0, 0, 0, 1} }),
		vf("salt:8b", func() any { return []byte{0x80, 2, 3, 4, 5, 6, 7, 8} }),
	}),
	"chat.KeyedPlayerChat.Signature": fixed([]Val{
		vf("sig:256", func() any { return seqBytes(256) }),
		vf("sig:256b", func() any { return seqBytes(256) }),
		vf("sig:1", func() any { return []byte{9} }),
	}),
	"chat.KeyedPlayerChat.Unsigned":    fixed([]Val{v("signed", false), v("unsigned", true)}),
	"chat.KeyedPlayerCommand.Unsigned": fixed([]Val{v("signed", false), v("unsigned", true)}),
	"chat.KeyedPlayerCommand.Salt":     fixed(intVals(1, 5, -1, 1<<62)),

	// --- join game / respawn (byte-sized fields) ---
	"packet.JoinGame.Gamemode":         fixed(gamemodes),
	"packet.JoinGame.PreviousGamemode": fixed(intVals(0, 1, -1, 2, 3)), // signed byte, -1 = none
	"packet.JoinGame.Difficulty":       fixed(intVals(0, 1, 2, 3)),
	"packet.JoinGame.LevelType":        ptrStrMax(16),
	"packet.JoinGame.MaxPlayers": func(c Cell) []Val {
		if ge(c, version.Minecraft_1_16_2) {
			return alphaInt32
		}
		return alphaUint8
	},
	"packet.JoinGame.Dimension": func(c Cell) []Val {
		if ge(c, version.Minecraft_1_20_5) {
			return alphaNonNegVarInt // registry id
		}
		if ge(c, version.Minecraft_1_9_1) {
			return intVals(0, 1, -1, 2, math32max, math32min) // int
		}
		return intVals(0, 1, -1, 127, -128) // signed byte
	},
	"packet.JoinGame.DimensionInfo.RegistryIdentifier": fixed(identVals),
	"packet.JoinGame.DimensionInfo.LevelName":          ptrIdent,
	"packet.Respawn.DimensionInfo.RegistryIdentifier":  fixed(identVals),
	"packet.Respawn.DimensionInfo.LevelName":           ptrIdent,
	"packet.JoinGame.LastDeathPosition.Key":            fixed(identVals),
	"packet.Respawn.LastDeathPosition.Key":             fixed(identVals),
	"packet.JoinGame.Registry":                         fixed(nbtVals(true)),
	"packet.JoinGame.CurrentDimensionData":             fixed(nbtVals(true)),
	"packet.Respawn.CurrentDimensionData":              fixed(nbtVals(true)),
	"packet.Respawn.Gamemode":                          fixed(gamemodes),
	"packet.Respawn.PreviousGamemode":                  fixed(intVals(0, 1, -1, 2, 3)),
	"packet.Respawn.Difficulty":                        fixed(intVals(0, 1, 2, 3)),
	"packet.Respawn.LevelType":                         strMax(16),
	"packet.Respawn.Dimension": func(c Cell) []Val {
		if ge(c, version.Minecraft_1_20_5) {
			return alphaNonNegVarInt
		}
		return intVals(0, 1, -1, 2, math32max, math32min)
	},
	"packet.Respawn.DataToKeep": func(c Cell) []Val {
		if lt(c, version.Minecraft_1_19_3) {
			return intVals(0, 1) // boolean "copy metadata"
		}
		return intVals(0, 1, 2, 3)
	},

	// --- titles / boss bar / tab list ---
	"title.Legacy.Action":     fixed(enumVals(0, 5)),
	"title.Clear.Action":      fixed(intVals(4, 5)),
	"bossbar.BossBar.Action":  fixed(enumVals(0, 5)),
	"bossbar.BossBar.Color":   fixed(enumVals(0, 6)),
	"bossbar.BossBar.Overlay": fixed(enumVals(0, 4)),
	"legacytablist.PlayerListItem.Action": func(c Cell) []Val {
		if lt(c, version.Minecraft_1_8) {
			return intVals(0, 4) // 1.7 only knows add (online=true) and remove
		}
		return enumVals(0, 4)
	},
	"legacytablist.PlayerListItem.Items.Name": strMax(16),
	"legacytablist.PlayerListItem.Items.Latency": func(c Cell) []Val {
		if lt(c, version.Minecraft_1_8) {
			return alphaInt16 // short
		}
		return alphaInt32
	},
	"legacytablist.PlayerListItem.Items.GameMode": fixed(intVals(0, 1, 2, 3)),
	"playerinfo.Upsert.Entries.Profile.Name":      strMax(16),
	"playerinfo.Upsert.Entries.GameMode":          fixed(intVals(0, 1, 2, 3, 128)),

	// --- config ---
	"cookie.CookieResponse.Payload": bytesMax(5120),
	"cookie.CookieStore.Payload":    bytesMax(5120),
	"cookie.CookieRequest.Key":      fixed(keyVals()),
}

// identifiers (resource locations) sent as plain strings
var identVals = []Val{v("ident:overworld", "minecraft:overworld"), v("ident:the_nether", "minecraft:the_nether"), v("ident:ns", "a:b/c.d-e_f"),
	v("ident:long", "ns:"+rep("w", 16384))}

func ptrIdent(c Cell) []Val {
	out := []Val{v("ptr:nil", nil)}
	for _, iv := range identVals {
		iv := iv
		out = append(out, vf("ptr:"+iv.Label, func() any { x := iv.Make().(string); return &x }))
	}
	return out
}

const (
	math32max = 2147483647
	math32min = -2147483648
)

func ptrStrMax(n int) ov {
	return func(c Cell) []Val {
		out := []Val{v("ptr:nil", nil)}
		vs := stringVals(n)
		idx := []int{1, 0}
		for i := 2; i < len(vs); i++ {
			idx = append(idx, i)
		}
		for _, i := range idx {
			s := vs[i]
			out = append(out, vf("ptr:"+s.Label, func() any { x := s.Make().(string); return &x }))
		}
		return out
	}
}

var _ = states.PlayState
