package refvanilla

import (
	"fmt"
	"unicode/utf8"
)

// ---------------------------------------------------------------------------------------------------------------
// Handshake (serverbound 0x00, all versions): VarInt protocol, String(255) address, Unsigned Short port,
// VarInt next state (1 status, 2 login, 3 transfer since 1.20.5).

type Handshake struct {
	Protocol int32
	Address  string
	Port     uint16
	Next     int32
}

func DecodeHandshake(body []byte) (p Handshake, err error) {
	err = run(body, func(r *R) {
		p.Protocol = r.VarInt("protocol version")
		p.Address = r.String(255, "server address")
		p.Port = r.U16("server port")
		p.Next = r.VarInt("next state")
	})
	return
}

// ---------------------------------------------------------------------------------------------------------------
// Login Start (serverbound login 0x00)
//   <= 1.18.2        name String(16)
//   1.19 (759)       name, Boolean hasSigData [Long expiry, ByteArray(512) key, ByteArray(4096) signature]
//   1.19.1/2 (760)   as 1.19, then Boolean hasUUID [UUID]
//   1.19.3 – 1.20.1  name, Boolean hasUUID [UUID]
//   >= 1.20.2        name, UUID

type SigData struct {
	Expiry    int64
	PublicKey []byte
	Signature []byte
}

type LoginStart struct {
	Name    string
	Sig     *SigData
	HasUUID bool
	UUID    UUID
}

func (r *R) sigData() *SigData {
	return &SigData{
		Expiry:    r.I64("key expiry"),
		PublicKey: r.ByteArray(512, "public key"),
		Signature: r.ByteArray(4096, "key signature"),
	}
}

func DecodeLoginStart(protocol int, body []byte) (p LoginStart, err error) {
	err = run(body, func(r *R) {
		p.Name = r.String(16, "name")
		if protocol >= V1_19 && protocol < V1_19_3 {
			if r.Bool("has sig data") {
				p.Sig = r.sigData()
			}
		}
		switch {
		case protocol >= V1_20_2:
			p.HasUUID = true
			p.UUID = r.UUID("player uuid")
		case protocol >= V1_19_1:
			if p.HasUUID = r.Bool("has player uuid"); p.HasUUID {
				p.UUID = r.UUID("player uuid")
			}
		}
	})
	return
}

// ---------------------------------------------------------------------------------------------------------------
// Login Success (clientbound login 0x02)
//   1.7.2 (4)        String uuid WITHOUT dashes, String(16) name
//   1.7.6 – 1.15.2   String(36) uuid with dashes, name
//   1.16 – 1.18.2    UUID as 4 ints (same 16 bytes), name
//   >= 1.19          UUID, name, properties: VarInt n, n x (String name, String value, Boolean signed [String sig])
//   1.20.5 – 1.21.1  ... + Boolean strictErrorHandling
//   26.2 (776)       ... + UUID session id  (layout as recorded in the project's VELOCITY_SYNC.md; the author has no
//                    independent documentation for 26.2 — stated as an assumption of C07)

type Property struct {
	Name, Value string
	Signed      bool
	Signature   string
}

type LoginSuccess struct {
	UUID       UUID
	Name       string
	Properties []Property
	HasStrict  bool
	Strict     bool
	HasSession bool
	Session    UUID
}

func (r *R) properties(maxN int) []Property {
	n := int(r.VarInt("property count"))
	if n < 0 || n > maxN {
		fail("property count %d out of range 0..%d", n, maxN)
	}
	var out []Property
	for i := 0; i < n; i++ {
		var p Property
		p.Name = r.String(32767, "property name")
		p.Value = r.String(32767, "property value")
		if p.Signed = r.Bool("property is signed"); p.Signed {
			p.Signature = r.String(32767, "property signature")
		}
		out = append(out, p)
	}
	return out
}

func DecodeLoginSuccess(protocol int, body []byte) (p LoginSuccess, err error) {
	err = run(body, func(r *R) {
		switch {
		case protocol >= V1_16:
			p.UUID = r.UUID("uuid")
		default:
			dashed := protocol >= V1_7_6
			s := r.String(36, "uuid text")
			u, e := ParseUUIDText(s, dashed)
			if e != nil {
				fail("%v", e)
			}
			p.UUID = u
		}
		p.Name = r.String(16, "name")
		if protocol >= V1_19 {
			p.Properties = r.properties(16)
		}
		if protocol == V1_20_5 || protocol == V1_21 {
			p.HasStrict = true
			p.Strict = r.Bool("strict error handling")
		}
		if protocol >= V26_2 {
			p.HasSession = true
			p.Session = r.UUID("session id")
		}
	})
	return
}

// ---------------------------------------------------------------------------------------------------------------
// Encryption Request (clientbound login 0x01)
//   1.7            String(20) server id, Short-prefixed public key, Short-prefixed verify token
//   >= 1.8         String(20), VarInt-prefixed public key, VarInt-prefixed verify token
//   >= 1.20.5      ... + Boolean shouldAuthenticate

type EncryptionRequest struct {
	ServerID           string
	PublicKey          []byte
	VerifyToken        []byte
	HasAuthFlag        bool
	ShouldAuthenticate bool
}

func DecodeEncryptionRequest(protocol int, body []byte) (p EncryptionRequest, err error) {
	err = run(body, func(r *R) {
		p.ServerID = r.String(20, "server id")
		if protocol < V1_8 {
			p.PublicKey = r.ShortByteArray("public key")
			p.VerifyToken = r.ShortByteArray("verify token")
			return
		}
		p.PublicKey = r.ByteArray(1<<20, "public key")
		p.VerifyToken = r.ByteArray(1<<20, "verify token")
		if protocol >= V1_20_5 {
			p.HasAuthFlag = true
			p.ShouldAuthenticate = r.Bool("should authenticate")
		}
	})
	return
}

// ---------------------------------------------------------------------------------------------------------------
// Encryption Response (serverbound login 0x01)
//   1.7              Short-prefixed shared secret, Short-prefixed verify token
//   1.8 – 1.18.2     VarInt-prefixed shared secret, verify token
//   1.19 – 1.19.2    shared secret, Boolean hasVerifyToken, then EITHER verify token OR (Long salt, signature)
//   >= 1.19.3        shared secret, verify token

type EncryptionResponse struct {
	SharedSecret   []byte
	HasVerifyToken bool
	VerifyToken    []byte
	Salt           int64
	Signature      []byte
}

func DecodeEncryptionResponse(protocol int, body []byte) (p EncryptionResponse, err error) {
	err = run(body, func(r *R) {
		p.HasVerifyToken = true
		if protocol < V1_8 {
			p.SharedSecret = r.ShortByteArray("shared secret")
			p.VerifyToken = r.ShortByteArray("verify token")
			return
		}
		p.SharedSecret = r.ByteArray(1<<20, "shared secret")
		if protocol >= V1_19 && protocol < V1_19_3 {
			if p.HasVerifyToken = r.Bool("has verify token"); !p.HasVerifyToken {
				p.Salt = r.I64("salt")
				p.Signature = r.ByteArray(1<<20, "message signature")
				return
			}
		}
		p.VerifyToken = r.ByteArray(1<<20, "verify token")
	})
	return
}

// ---------------------------------------------------------------------------------------------------------------
// Set Compression (clientbound login 0x03, >= 1.8): VarInt threshold.

func DecodeSetCompression(body []byte) (threshold int32, err error) {
	err = run(body, func(r *R) { threshold = r.VarInt("threshold") })
	return
}

// ---------------------------------------------------------------------------------------------------------------
// Plugin message (play both directions; configuration since 1.20.2)
//   1.7      String channel, Short length, data     (forge=true: FML's 2-or-3-byte "var short" length)
//   >= 1.8   String/Identifier channel, data = rest of the packet

type PluginMessage struct {
	Channel string
	Data    []byte
}

func DecodePluginMessage(protocol int, forge bool, body []byte) (p PluginMessage, err error) {
	err = run(body, func(r *R) {
		p.Channel = r.String(32767, "channel")
		switch {
		case protocol >= V1_8:
			p.Data = r.Rest()
		case forge:
			p.Data = r.ForgeVarShortByteArray("data")
		default:
			p.Data = r.ShortByteArray("data")
		}
	})
	return
}

// ---------------------------------------------------------------------------------------------------------------
// Login plugin request (clientbound login 0x04, >= 1.13): VarInt message id, Identifier channel, data = rest.
// Login plugin response (serverbound login 0x02, >= 1.13): VarInt message id, Boolean successful, data = rest
// (the rest is only meaningful when successful).

type LoginPluginRequest struct {
	ID      int32
	Channel string
	Data    []byte
}

type LoginPluginResponse struct {
	ID      int32
	Success bool
	Data    []byte
}

func DecodeLoginPluginRequest(body []byte) (p LoginPluginRequest, err error) {
	err = run(body, func(r *R) {
		p.ID = r.VarInt("message id")
		p.Channel = r.String(32767, "channel")
		p.Data = r.Rest()
		if len(p.Data) > 1048576 {
			fail("payload of %d bytes exceeds 1048576", len(p.Data))
		}
	})
	return
}

func DecodeLoginPluginResponse(body []byte) (p LoginPluginResponse, err error) {
	err = run(body, func(r *R) {
		p.ID = r.VarInt("message id")
		p.Success = r.Bool("successful")
		p.Data = r.Rest()
		if len(p.Data) > 1048576 {
			fail("payload of %d bytes exceeds 1048576", len(p.Data))
		}
	})
	return
}

// ---------------------------------------------------------------------------------------------------------------
// Disconnect. Login state: JSON text component as String(262144) in every version. Configuration / play: JSON string
// before 1.20.3, network NBT (nameless root) from 1.20.3 on.

type Disconnect struct {
	IsNBT bool
	JSON  string
	NBT   *Tag
	Text  Text
}

func (r *R) component(nbt bool) (isNBT bool, js string, tag *Tag, txt Text) {
	var e error
	if nbt {
		tag = r.NetworkNBT(false)
		if tag.Kind == 0 {
			fail("component is TAG_End")
		}
		txt, e = ComponentTextNBT(tag)
	} else {
		js = r.String(262144, "component json")
		txt, e = ComponentTextJSON(js)
	}
	if e != nil {
		fail("%v", e)
	}
	return nbt, js, tag, txt
}

func DecodeDisconnect(protocol int, loginState bool, body []byte) (p Disconnect, err error) {
	err = run(body, func(r *R) {
		p.IsNBT, p.JSON, p.NBT, p.Text = r.component(!loginState && protocol >= V1_20_3)
	})
	return
}

// ---------------------------------------------------------------------------------------------------------------
// Keep alive: Int (1.7), VarInt (1.8 – 1.12.1), Long (>= 1.12.2).

func DecodeKeepAlive(protocol int, body []byte) (id int64, err error) {
	err = run(body, func(r *R) {
		switch {
		case protocol >= V1_12_2:
			id = r.I64("keep alive id")
		case protocol >= V1_8:
			id = int64(r.VarInt("keep alive id"))
		default:
			id = int64(r.I32("keep alive id"))
		}
	})
	return
}

// ---------------------------------------------------------------------------------------------------------------
// Status: request (empty), response String(32767) JSON, ping/pong Long.

func DecodeStatusRequest(body []byte) error { return run(body, func(r *R) {}) }

func DecodeStatusResponse(body []byte) (js string, err error) {
	err = run(body, func(r *R) { js = r.String(32767, "status json") })
	return
}

func DecodeStatusPing(body []byte) (payload int64, err error) {
	err = run(body, func(r *R) { payload = r.I64("payload") })
	return
}

// ---------------------------------------------------------------------------------------------------------------
// Transfer (clientbound configuration / play, >= 1.20.5): String host, VarInt port.

type Transfer struct {
	Host string
	Port int32
}

func DecodeTransfer(body []byte) (p Transfer, err error) {
	err = run(body, func(r *R) {
		p.Host = r.String(32767, "host")
		p.Port = r.VarInt("port")
	})
	return
}

// ---------------------------------------------------------------------------------------------------------------
// Player Info Update (clientbound play, >= 1.19.3)
//   EnumSet<Action> as a fixed bit set of N bits (N = number of actions of the version: 6 up to 1.21.1, 7 in
//   1.21.2/3, 8 from 1.21.4), i.e. ceil(N/8) = 1 byte, bit i = action with ordinal i;
//   VarInt entry count; per entry: UUID, then FOR EACH ACTION PRESENT, IN ORDINAL ORDER, that action's data:
//     0 ADD_PLAYER          String(16) name, properties (max 16)
//     1 INITIALIZE_CHAT     Boolean present [UUID session, Long expiry, ByteArray(512) key, ByteArray(4096) signature]
//     2 UPDATE_GAME_MODE    VarInt
//     3 UPDATE_LISTED       Boolean
//     4 UPDATE_LATENCY      VarInt
//     5 UPDATE_DISPLAY_NAME Boolean present [component: JSON string before 1.20.3, NBT after]
//     6 UPDATE_LIST_ORDER   VarInt            (>= 1.21.2)
//     7 UPDATE_HAT          Boolean           (>= 1.21.4)

const (
	ActAddPlayer = iota
	ActInitializeChat
	ActUpdateGameMode
	ActUpdateListed
	ActUpdateLatency
	ActUpdateDisplayName
	ActUpdateListOrder
	ActUpdateHat
)

var ActionNames = []string{"ADD_PLAYER", "INITIALIZE_CHAT", "UPDATE_GAME_MODE", "UPDATE_LISTED", "UPDATE_LATENCY", "UPDATE_DISPLAY_NAME", "UPDATE_LIST_ORDER", "UPDATE_HAT"}

// ActionCount is the number of player-info actions that exist in a protocol version (0 = packet does not exist).
func ActionCount(protocol int) int {
	switch {
	case protocol >= V1_21_4:
		return 8
	case protocol >= V1_21_2:
		return 7
	case protocol >= V1_19_3:
		return 6
	}
	return 0
}

type ChatSession struct {
	ID  UUID
	Sig SigData
}

type InfoEntry struct {
	UUID UUID
	// one field group per action; only those whose action bit is set are filled
	Name           string
	Properties     []Property
	HasChatSession bool
	ChatSession    ChatSession
	GameMode       int32
	Listed         bool
	Latency        int32
	HasDisplayName bool
	DisplayName    Text
	ListOrder      int32
	ShowHat        bool
}

type PlayerInfoUpdate struct {
	Actions uint8 // bit i = action ordinal i (only bits below ActionCount)
	Entries []InfoEntry
}

func DecodePlayerInfoUpdate(protocol int, body []byte) (p PlayerInfoUpdate, err error) {
	n := ActionCount(protocol)
	if n == 0 {
		return p, ErrNotInVersion
	}
	err = run(body, func(r *R) {
		raw := r.U8("action bit set")
		p.Actions = raw & uint8(1<<uint(n)-1)
		cnt := int(r.VarInt("entry count"))
		if cnt < 0 || cnt > r.Left() {
			fail("entry count %d with %d bytes left", cnt, r.Left())
		}
		for i := 0; i < cnt; i++ {
			var e InfoEntry
			e.UUID = r.UUID("profile id")
			for a := 0; a < n; a++ {
				if p.Actions&(1<<uint(a)) == 0 {
					continue
				}
				w := fmt.Sprintf("entry %d %s", i, ActionNames[a])
				switch a {
				case ActAddPlayer:
					e.Name = r.String(16, w+" name")
					e.Properties = r.properties(16)
				case ActInitializeChat:
					if e.HasChatSession = r.Bool(w + " present"); e.HasChatSession {
						e.ChatSession.ID = r.UUID(w + " session id")
						e.ChatSession.Sig = *r.sigData()
					}
				case ActUpdateGameMode:
					e.GameMode = r.VarInt(w)
				case ActUpdateListed:
					e.Listed = r.Bool(w)
				case ActUpdateLatency:
					e.Latency = r.VarInt(w)
				case ActUpdateDisplayName:
					if e.HasDisplayName = r.Bool(w + " present"); e.HasDisplayName {
						_, _, _, e.DisplayName = r.component(protocol >= V1_20_3)
					}
				case ActUpdateListOrder:
					e.ListOrder = r.VarInt(w)
				case ActUpdateHat:
					e.ShowHat = r.Bool(w)
				}
			}
			p.Entries = append(p.Entries, e)
		}
	})
	return
}

// Player Info Remove (clientbound play, >= 1.19.3): VarInt count, UUIDs.
func DecodePlayerInfoRemove(protocol int, body []byte) (ids []UUID, err error) {
	if protocol < V1_19_3 {
		return nil, ErrNotInVersion
	}
	err = run(body, func(r *R) {
		n := int(r.VarInt("count"))
		if n < 0 || n*16 > r.Left() {
			fail("count %d with %d bytes left", n, r.Left())
		}
		for i := 0; i < n; i++ {
			ids = append(ids, r.UUID("profile id"))
		}
	})
	return
}

// ---------------------------------------------------------------------------------------------------------------
// Well-known plugin channel payloads (what a vanilla peer does with the data of a plugin message).
//   brand (MC|Brand / minecraft:brand): >= 1.8 one String(32767) filling the payload exactly; 1.7 the raw UTF-8 bytes.
//   REGISTER / minecraft:register (and UNREGISTER): channel names separated by a single NUL byte, no terminator.

func DecodeBrandPayload(protocol int, data []byte) (brand string, err error) {
	err = run(data, func(r *R) {
		if protocol >= V1_8 {
			brand = r.String(32767, "brand")
			return
		}
		b := r.Rest()
		if !utf8.Valid(b) {
			fail("brand: invalid UTF-8")
		}
		brand = string(b)
	})
	return
}

func DecodeRegisterPayload(data []byte) (channels []string, err error) {
	if len(data) == 0 {
		return nil, nil
	}
	start := 0
	for i := 0; i <= len(data); i++ {
		if i == len(data) || data[i] == 0 {
			seg := data[start:i]
			if !utf8.Valid(seg) {
				return nil, &DecodeError{"register: invalid UTF-8 in a channel name"}
			}
			channels = append(channels, string(seg))
			start = i + 1
		}
	}
	return channels, nil
}
