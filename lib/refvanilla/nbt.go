package refvanilla

import (
	"encoding/json"
	"fmt"
	"math"
	"sort"
	"strings"
)

// Tag is a decoded NBT value. Kind is the tag type id (1 byte, 2 short, 3 int, 4 long, 5 float, 6 double,
// 7 byte array, 8 string, 9 list, 10 compound, 11 int array, 12 long array).
type Tag struct {
	Kind     byte
	Int      int64
	Float    float64
	Str      string
	List     []*Tag
	Compound map[string]*Tag
	Bytes    []byte
}

// modified UTF-8 as written by java.io.DataOutput.writeUTF: u16 byte length; NUL as C0 80; supplementary characters
// as surrogate pairs of 3 bytes each.
func (r *R) nbtString(what string) string {
	n := int(r.U16(what + " length"))
	b := r.Bytes(n, what)
	var units []uint16
	for i := 0; i < len(b); {
		c := b[i]
		switch {
		case c&0x80 == 0:
			units = append(units, uint16(c))
			i++
		case c&0xE0 == 0xC0:
			if i+1 >= len(b) {
				fail("%s: truncated modified UTF-8", what)
			}
			units = append(units, uint16(c&0x1F)<<6|uint16(b[i+1]&0x3F))
			i += 2
		case c&0xF0 == 0xE0:
			if i+2 >= len(b) {
				fail("%s: truncated modified UTF-8", what)
			}
			units = append(units, uint16(c&0x0F)<<12|uint16(b[i+1]&0x3F)<<6|uint16(b[i+2]&0x3F))
			i += 3
		default:
			fail("%s: invalid modified UTF-8 lead byte %#x", what, c)
		}
	}
	var sb strings.Builder
	for i := 0; i < len(units); i++ {
		u := rune(units[i])
		if u >= 0xD800 && u < 0xDC00 && i+1 < len(units) && units[i+1] >= 0xDC00 && units[i+1] < 0xE000 {
			sb.WriteRune(0x10000 + (u-0xD800)<<10 + (rune(units[i+1]) - 0xDC00))
			i++
			continue
		}
		sb.WriteRune(u)
	}
	return sb.String()
}

func (r *R) nbtPayload(kind byte, depth int) *Tag {
	if depth > 512 {
		fail("nbt: nesting deeper than 512")
	}
	t := &Tag{Kind: kind}
	switch kind {
	case 1:
		t.Int = int64(int8(r.U8("nbt byte")))
	case 2:
		t.Int = int64(int16(r.U16("nbt short")))
	case 3:
		t.Int = int64(r.I32("nbt int"))
	case 4:
		t.Int = r.I64("nbt long")
	case 5:
		t.Float = float64(math.Float32frombits(uint32(r.I32("nbt float"))))
	case 6:
		t.Float = math.Float64frombits(uint64(r.I64("nbt double")))
	case 7:
		n := int(r.I32("nbt byte array length"))
		t.Bytes = r.Bytes(n, "nbt byte array")
	case 8:
		t.Str = r.nbtString("nbt string")
	case 9:
		ek := r.U8("nbt list element type")
		n := int(r.I32("nbt list length"))
		if n < 0 {
			n = 0
		}
		if ek == 0 && n > 0 {
			fail("nbt: list of TAG_End with %d elements", n)
		}
		if ek > 12 {
			fail("nbt: list element type %d", ek)
		}
		r.need(0, "nbt list")
		if n > r.Left() { // every element takes at least one byte
			fail("nbt: list length %d exceeds remaining %d bytes", n, r.Left())
		}
		for i := 0; i < n; i++ {
			t.List = append(t.List, r.nbtPayload(ek, depth+1))
		}
	case 10:
		t.Compound = map[string]*Tag{}
		for {
			k := r.U8("nbt compound entry type")
			if k == 0 {
				break
			}
			if k > 12 {
				fail("nbt: tag type %d", k)
			}
			name := r.nbtString("nbt entry name")
			t.Compound[name] = r.nbtPayload(k, depth+1)
		}
	case 11:
		n := int(r.I32("nbt int array length"))
		r.need(n*4, "nbt int array")
		for i := 0; i < n; i++ {
			t.List = append(t.List, &Tag{Kind: 3, Int: int64(r.I32("nbt int array"))})
		}
	case 12:
		n := int(r.I32("nbt long array length"))
		r.need(n*8, "nbt long array")
		for i := 0; i < n; i++ {
			t.List = append(t.List, &Tag{Kind: 4, Int: r.I64("nbt long array")})
		}
	default:
		fail("nbt: tag type %d", kind)
	}
	return t
}

// NetworkNBT reads one tag in the network form used since 1.20.2: type byte, NO name, payload. (Before 1.20.2 the
// root carried a u16-prefixed name; named=true reads that form.)
func (r *R) NetworkNBT(named bool) *Tag {
	k := r.U8("nbt root type")
	if k == 0 {
		return &Tag{Kind: 0}
	}
	if k > 12 {
		fail("nbt: root tag type %d", k)
	}
	if named {
		_ = r.nbtString("nbt root name")
	}
	return r.nbtPayload(k, 0)
}

// Text is the loose, layout-independent content of a chat component: the concatenation of the literal texts of the
// component and of its "extra" children in order, plus the style keys that were set anywhere (sorted "key=value").
type Text struct {
	Plain  string
	Styles []string
}

func (t Text) String() string { return fmt.Sprintf("%q %v", t.Plain, t.Styles) }

var styleKeys = []string{"color", "bold", "italic", "underlined", "strikethrough", "obfuscated"}

// ComponentTextNBT extracts Text from an NBT-encoded component (1.20.3+): a string tag is a plain text; a compound
// has "text" (string), optional "extra" (list of components), and style keys.
func ComponentTextNBT(t *Tag) (Text, error) {
	var out Text
	var walk func(t *Tag) error
	walk = func(t *Tag) error {
		switch t.Kind {
		case 8:
			out.Plain += t.Str
		case 10:
			if tx, ok := t.Compound["text"]; ok {
				if tx.Kind != 8 {
					return fmt.Errorf("component \"text\" is NBT type %d, not a string", tx.Kind)
				}
				out.Plain += tx.Str
			} else if tx, ok := t.Compound[""]; ok && tx.Kind == 8 {
				out.Plain += tx.Str
			}
			for _, k := range styleKeys {
				if v, ok := t.Compound[k]; ok {
					switch v.Kind {
					case 8:
						out.Styles = append(out.Styles, k+"="+v.Str)
					case 1, 2, 3, 4:
						// vanilla reads booleans through DynamicOps.getBooleanValue = any numeric tag, byteValue() != 0
						out.Styles = append(out.Styles, fmt.Sprintf("%s=%v", k, int8(v.Int) != 0))
					case 5, 6:
						out.Styles = append(out.Styles, fmt.Sprintf("%s=%v", k, int8(v.Float) != 0))
					default:
						return fmt.Errorf("component style %q is NBT type %d", k, v.Kind)
					}
				}
			}
			if ex, ok := t.Compound["extra"]; ok {
				if ex.Kind != 9 {
					return fmt.Errorf("component \"extra\" is NBT type %d, not a list", ex.Kind)
				}
				for _, c := range ex.List {
					if err := walk(c); err != nil {
						return err
					}
				}
			}
		default:
			return fmt.Errorf("component is NBT type %d (neither string nor compound)", t.Kind)
		}
		return nil
	}
	err := walk(t)
	sort.Strings(out.Styles)
	return out, err
}

// ComponentTextJSON extracts Text from a JSON-encoded component (before 1.20.3, and login disconnect always).
func ComponentTextJSON(s string) (Text, error) {
	var out Text
	var v any
	dec := json.NewDecoder(strings.NewReader(s))
	if err := dec.Decode(&v); err != nil {
		return out, fmt.Errorf("component JSON does not parse: %v", err)
	}
	if dec.More() {
		return out, fmt.Errorf("component JSON has trailing data")
	}
	var walk func(v any) error
	walk = func(v any) error {
		switch x := v.(type) {
		case string:
			out.Plain += x
		case []any:
			for _, c := range x {
				if err := walk(c); err != nil {
					return err
				}
			}
		case map[string]any:
			if tx, ok := x["text"]; ok {
				s, ok := tx.(string)
				if !ok {
					return fmt.Errorf("component \"text\" is %T, not a string", tx)
				}
				out.Plain += s
			}
			for _, k := range styleKeys {
				if sv, ok := x[k]; ok {
					switch y := sv.(type) {
					case string: // colour names, and booleans written as strings by old versions
						out.Styles = append(out.Styles, k+"="+y)
					case bool:
						out.Styles = append(out.Styles, fmt.Sprintf("%s=%v", k, y))
					default:
						return fmt.Errorf("component style %q is %T", k, sv)
					}
				}
			}
			if ex, ok := x["extra"]; ok {
				l, ok := ex.([]any)
				if !ok {
					return fmt.Errorf("component \"extra\" is %T, not an array", ex)
				}
				for _, c := range l {
					if err := walk(c); err != nil {
						return err
					}
				}
			}
		default:
			return fmt.Errorf("component JSON is %T", v)
		}
		return nil
	}
	err := walk(v)
	sort.Strings(out.Styles)
	return out, err
}
