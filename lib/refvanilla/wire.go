// Package refvanilla is an independent decoder for the parts of the vanilla Minecraft: Java Edition wire format that
// the proxy produces itself. It is written from the public protocol documentation (per-version packet layouts) and
// deliberately shares no code with the project under test: own VarInt, strings, UUIDs, byte arrays, NBT.
// It is the reference side of check C07 (and may be used by other checks that need vanilla-encoded input).
package refvanilla

import (
	"errors"
	"fmt"
	"unicode/utf16"
	"unicode/utf8"
)

// Protocol numbers used for version gates (release protocol numbers from the public version list).
const (
	V1_7_2  = 4
	V1_7_6  = 5
	V1_8    = 47
	V1_12_2 = 340
	V1_13   = 393
	V1_16   = 735
	V1_19   = 759
	V1_19_1 = 760
	V1_19_3 = 761
	V1_20_2 = 764
	V1_20_3 = 765
	V1_20_5 = 766
	V1_21   = 767
	V1_21_2 = 768
	V1_21_4 = 769
	V26_2   = 776
)

// DecodeError is what every reader method panics with; Decode* functions turn it into an error.
type DecodeError struct{ Msg string }

func (e *DecodeError) Error() string { return e.Msg }

func fail(format string, a ...any) { panic(&DecodeError{fmt.Sprintf(format, a...)}) }

// R is a cursor over one packet body.
type R struct {
	b   []byte
	pos int
}

func NewR(b []byte) *R { return &R{b: b} }

func (r *R) Left() int { return len(r.b) - r.pos }

func (r *R) need(n int, what string) {
	if n < 0 || r.Left() < n {
		fail("%s: need %d bytes, %d left (offset %d)", what, n, r.Left(), r.pos)
	}
}

func (r *R) U8(what string) byte {
	r.need(1, what)
	v := r.b[r.pos]
	r.pos++
	return v
}

// Bool: vanilla (netty ByteBuf.readBoolean) treats any non-zero byte as true.
func (r *R) Bool(what string) bool { return r.U8(what) != 0 }

func (r *R) U16(what string) uint16 {
	r.need(2, what)
	v := uint16(r.b[r.pos])<<8 | uint16(r.b[r.pos+1])
	r.pos += 2
	return v
}

func (r *R) I32(what string) int32 {
	r.need(4, what)
	var v uint32
	for i := 0; i < 4; i++ {
		v = v<<8 | uint32(r.b[r.pos+i])
	}
	r.pos += 4
	return int32(v)
}

func (r *R) I64(what string) int64 {
	r.need(8, what)
	var v uint64
	for i := 0; i < 8; i++ {
		v = v<<8 | uint64(r.b[r.pos+i])
	}
	r.pos += 8
	return int64(v)
}

// VarInt: 7 bits per byte, least significant group first, at most 5 bytes, two's complement 32 bit.
func (r *R) VarInt(what string) int32 {
	var res uint32
	for i := 0; ; i++ {
		if i == 5 {
			fail("%s: VarInt longer than 5 bytes", what)
		}
		c := r.U8(what)
		res |= uint32(c&0x7F) << (7 * uint(i))
		if c&0x80 == 0 {
			break
		}
	}
	return int32(res)
}

func (r *R) Bytes(n int, what string) []byte {
	r.need(n, what)
	out := append([]byte{}, r.b[r.pos:r.pos+n]...)
	r.pos += n
	return out
}

func (r *R) Rest() []byte { return r.Bytes(r.Left(), "rest") }

// String: VarInt byte length, UTF-8, at most maxChars UTF-16 code units (and at most 3*maxChars bytes).
func (r *R) String(maxChars int, what string) string {
	n := int(r.VarInt(what + " length"))
	if n < 0 {
		fail("%s: negative string length %d", what, n)
	}
	if n > maxChars*3 {
		fail("%s: encoded string of %d bytes exceeds %d*3", what, n, maxChars)
	}
	b := r.Bytes(n, what)
	if !utf8.Valid(b) {
		fail("%s: invalid UTF-8", what)
	}
	s := string(b)
	if units := len(utf16.Encode([]rune(s))); units > maxChars {
		fail("%s: string of %d chars exceeds %d", what, units, maxChars)
	}
	return s
}

// ByteArray: VarInt length + bytes, at most max bytes.
func (r *R) ByteArray(max int, what string) []byte {
	n := int(r.VarInt(what + " length"))
	if n < 0 || n > max {
		fail("%s: byte array length %d out of range 0..%d", what, n, max)
	}
	return r.Bytes(n, what)
}

// ShortByteArray is the 1.7 layout: signed big-endian short length + bytes.
func (r *R) ShortByteArray(what string) []byte {
	n := int(int16(r.U16(what + " length")))
	if n < 0 {
		fail("%s: negative short length %d", what, n)
	}
	return r.Bytes(n, what)
}

// ForgeVarShortByteArray is FML's extension of the 1.7 layout (readVarShort): an unsigned short whose top bit says a
// third byte with bits 15.. follows.
func (r *R) ForgeVarShortByteArray(what string) []byte {
	low := int(r.U16(what + " length"))
	high := 0
	if low&0x8000 != 0 {
		low &= 0x7FFF
		high = int(r.U8(what + " length high byte"))
	}
	return r.Bytes(high<<15|low, what)
}

type UUID [16]byte

func (u UUID) String() string {
	const hex = "0123456789abcdef"
	out := make([]byte, 0, 36)
	for i, c := range u {
		if i == 4 || i == 6 || i == 8 || i == 10 {
			out = append(out, '-')
		}
		out = append(out, hex[c>>4], hex[c&15])
	}
	return string(out)
}

// UUID: 128 bit, most significant 64 bits first.
func (r *R) UUID(what string) UUID {
	var u UUID
	copy(u[:], r.Bytes(16, what))
	return u
}

// ParseUUIDText parses the textual form used by login success before 1.16: 32 hex digits, with dashes (8-4-4-4-12)
// when dashed is true and without otherwise.
func ParseUUIDText(s string, dashed bool) (UUID, error) {
	var u UUID
	hexv := func(c byte) (byte, bool) {
		switch {
		case c >= '0' && c <= '9':
			return c - '0', true
		case c >= 'a' && c <= 'f':
			return c - 'a' + 10, true
		case c >= 'A' && c <= 'F':
			return c - 'A' + 10, true
		}
		return 0, false
	}
	if dashed {
		if len(s) != 36 || s[8] != '-' || s[13] != '-' || s[18] != '-' || s[23] != '-' {
			return u, fmt.Errorf("uuid %q is not in 8-4-4-4-12 form", s)
		}
		s = s[0:8] + s[9:13] + s[14:18] + s[19:23] + s[24:]
	}
	if len(s) != 32 {
		return u, fmt.Errorf("uuid %q does not have 32 hex digits", s)
	}
	for i := 0; i < 16; i++ {
		h, ok1 := hexv(s[2*i])
		l, ok2 := hexv(s[2*i+1])
		if !ok1 || !ok2 {
			return u, fmt.Errorf("uuid %q has a non-hex digit", s)
		}
		u[i] = h<<4 | l
	}
	return u, nil
}

// run executes f and converts reader panics into an error; it also insists that the body is consumed completely
// (vanilla: "Packet was larger than I expected, found N bytes extra").
func run(body []byte, f func(r *R)) (err error) {
	r := NewR(body)
	defer func() {
		if v := recover(); v != nil {
			if de, ok := v.(*DecodeError); ok {
				err = de
				return
			}
			panic(v)
		}
	}()
	f(r)
	if r.Left() != 0 {
		return &DecodeError{fmt.Sprintf("%d bytes left over after the packet was read (%d consumed)", r.Left(), r.pos)}
	}
	return nil
}

// Frame splits one uncompressed frame: VarInt length, VarInt packet id, body. It returns what follows the frame.
func Frame(b []byte) (id int32, body, rest []byte, err error) {
	err = func() (e error) {
		defer func() {
			if v := recover(); v != nil {
				if de, ok := v.(*DecodeError); ok {
					e = de
					return
				}
				panic(v)
			}
		}()
		r := NewR(b)
		n := int(r.VarInt("frame length"))
		if n <= 0 || n > 1<<21-1 {
			fail("frame length %d out of range", n)
		}
		fr := NewR(r.Bytes(n, "frame"))
		id = fr.VarInt("packet id")
		body = fr.Rest()
		rest = r.Rest()
		return nil
	}()
	return
}

var ErrNotInVersion = errors.New("packet does not exist in this protocol version")
