// Package refframe is an independent reference for the Minecraft Java frame layer, written from the
// statement of property C02 and from Velocity's MinecraftVarintFrameDecoder + MinecraftCompressDecoder
// (NOT from gate's decoder.go):
//
//	frame      := VarInt21 length, body[length]      length 0 = ignored ("skip runs of 0x00"), no limit on how many
//	              a length prefix that does not end within 3 bytes is rejected ("VarInt too big") => max 2^21-1
//	compressed := VarInt claimed, data
//	   claimed == 0 : data is the payload as is; rejected when len(data) > threshold (== threshold tolerated)
//	   claimed != 0 : rejected when claimed < threshold (so every negative value), rejected when claimed > cap
//	                  (2 MiB for data coming from clients, 8 MiB for data coming from servers); data must be a
//	                  complete zlib stream (RFC 1950: header, deflate stream, matching Adler-32) that inflates
//	                  to exactly `claimed` bytes; bytes after the end of the zlib stream are ignored, as both
//	                  Velocity and vanilla do
//	an empty payload (after decompression handling) is dropped, as Velocity's MinecraftDecoder does.
//
// The reference also tells whether the stream is inside the domain the property compares on (every VarInt it
// had to read was minimally encoded) and gives an upper bound for what a conforming decoder has to allocate.
package refframe

import (
	"bytes"
	"compress/flate"
	"fmt"
	"hash/adler32"
	"io"
	"sync"
)

const (
	MaxFrame      = 1<<21 - 1       // largest frame length a 21-bit VarInt can announce
	CapFromClient = 2 * 1024 * 1024 // claimed-size cap for serverbound data
	CapFromServer = 8 * 1024 * 1024 // claimed-size cap for clientbound data
)

type Config struct {
	Compression bool
	Threshold   int  // meaningful when Compression
	FromClient  bool // direction of the data: from a client (serverbound) or from a server (clientbound)
}

func (c Config) Cap() int {
	if c.FromClient {
		return CapFromClient
	}
	return CapFromServer
}

type End int

const (
	EndClean      End = iota // stream exhausted exactly at a frame boundary
	EndIncomplete            // stream ends inside a length prefix or a frame body: nothing more can be yielded
	EndReject                // the decoder must reject here (connection is closed; nothing after is looked at)
	EndUndefined             // a non-minimal VarInt was met: outside the comparison domain from here on
)

func (e End) String() string {
	return [...]string{"clean", "incomplete", "reject", "undefined"}[e]
}

type Result struct {
	Payloads    [][]byte // non-empty payloads yielded, in order, before End
	PayloadTags []string // parallel to Payloads: which acceptance rule yielded it (stable, value-free names)
	EmptyBefore []int    // parallel to Payloads: ignored empty frames met before it since the previous payload
	End         End
	Tag         string // stable, value-free name of the rule that ended the stream (for classes / violation keys)
	Reason      string // why rejected / undefined, with the concrete values
	Frames      int    // frames fully processed (including ignored empty ones)
	EmptyFrames int    // frames ignored because they (or their payload) were empty
	// Budget is an upper bound on the bytes a conforming decoder needs to allocate for buffers whose size
	// the PEER chooses: the announced frame length when it is admissible (<= MaxFrame) plus the claimed size
	// when it passed the threshold/cap checks. Fixed-size working memory (inflater window etc.) is not
	// included; the caller adds slack for it.
	Budget int64
}

// readVarInt reads a VarInt of at most max bytes. ok=false when the bytes run out (incomplete=true) or
// the VarInt does not end within max bytes. minimal reports whether the encoding is the shortest for its value.
func readVarInt(b []byte, max int) (v int32, n int, ok, incomplete, minimal bool) {
	var u uint32
	for i := 0; i < max; i++ {
		if i >= len(b) {
			return 0, i, false, true, false
		}
		c := b[i]
		u |= uint32(c&0x7F) << (7 * uint(i))
		if c&0x80 == 0 {
			n = i + 1
			v = int32(u)
			// shortest encoding: last byte non-zero unless single byte; for the 5th byte only the low 4 bits count
			minimal = n == 1 || c != 0
			if n == 5 && c&0x70 != 0 {
				minimal = false // bits beyond 32 set: not a canonical encoding of any int32
			}
			return v, n, true, false, minimal
		}
	}
	return 0, max, false, false, false
}

// Decode runs the reference over a whole in-memory stream.
func Decode(stream []byte, cfg Config) Result {
	var res Result
	pos := 0
	emptyRun := 0
	for {
		if pos == len(stream) {
			res.End = EndClean
			res.Tag = "clean-end"
			return res
		}
		length, n, ok, incomplete, minimal := readVarInt(stream[pos:], 3)
		if !ok {
			if incomplete {
				res.End = EndIncomplete
				res.Tag = "incomplete-length-prefix"
				res.Reason = "stream ends inside a length prefix"
				return res
			}
			// three bytes with the continuation bit: announced length >= 2^21 (or negative) when minimal.
			res.End = EndReject
			res.Tag = "frame-length-over-21-bits"
			res.Reason = "length prefix longer than 21 bits"
			if _, _, ok5, _, min5 := readVarInt(stream[pos:], 5); ok5 && !min5 {
				// e.g. 80 80 80 00: a padded small value; Velocity still rejects it but the property
				// only speaks about minimally encoded prefixes
				res.End = EndUndefined
				res.Tag = "nonminimal-length-prefix"
				res.Reason = "length prefix not minimally encoded (padded beyond 3 bytes)"
			}
			return res
		}
		if !minimal {
			res.End = EndUndefined
			res.Tag = "nonminimal-length-prefix"
			res.Reason = "length prefix not minimally encoded"
			return res
		}
		pos += n
		if length == 0 {
			res.Frames++
			res.EmptyFrames++
			emptyRun++
			continue
		}
		res.Budget += int64(length)
		if len(stream)-pos < int(length) {
			res.End = EndIncomplete
			res.Tag = "incomplete-frame-body"
			res.Reason = fmt.Sprintf("stream ends inside a frame body (announced %d, have %d)", length, len(stream)-pos)
			return res
		}
		body := stream[pos : pos+int(length)]
		pos += int(length)
		res.Frames++

		payload, end, tag, reason, extra := decodeBody(body, cfg)
		res.Budget += extra
		if end != EndClean {
			res.End, res.Tag, res.Reason = end, tag, reason
			return res
		}
		if len(payload) == 0 {
			res.EmptyFrames++
			emptyRun++
			continue
		}
		res.Payloads = append(res.Payloads, payload)
		res.PayloadTags = append(res.PayloadTags, tag)
		res.EmptyBefore = append(res.EmptyBefore, emptyRun)
		emptyRun = 0
	}
}

func decodeBody(body []byte, cfg Config) (payload []byte, end End, tag, reason string, budget int64) {
	if !cfg.Compression {
		return body, EndClean, "plain-frame", "", 0
	}
	claimed, n, ok, _, minimal := readVarInt(body, 5)
	if !ok {
		return nil, EndReject, "claimed-size-varint-malformed", "claimed-size VarInt malformed or cut off by the frame end", 0
	}
	if !minimal {
		return nil, EndUndefined, "nonminimal-claimed-size", "claimed-size VarInt not minimally encoded", 0
	}
	data := body[n:]
	if claimed == 0 {
		if len(data) > cfg.Threshold {
			return nil, EndReject, "uncompressed-above-threshold", fmt.Sprintf("uncompressed frame of %d bytes is larger than threshold %d", len(data), cfg.Threshold), 0
		}
		if len(data) == cfg.Threshold && len(data) > 0 {
			return data, EndClean, "uncompressed-equal-threshold", "", 0
		}
		return data, EndClean, "uncompressed-below-threshold", "", 0
	}
	if claimed < 0 {
		return nil, EndReject, "claimed-negative", fmt.Sprintf("claimed size %d negative (below threshold %d)", claimed, cfg.Threshold), 0
	}
	if int(claimed) < cfg.Threshold {
		return nil, EndReject, "claimed-below-threshold", fmt.Sprintf("claimed size %d below threshold %d", claimed, cfg.Threshold), 0
	}
	if int(claimed) > cfg.Cap() {
		return nil, EndReject, "claimed-above-cap", fmt.Sprintf("claimed size %d above cap %d", claimed, cfg.Cap()), 0
	}
	out, itag, err := inflate(data, int(claimed))
	if err != nil {
		return nil, EndReject, itag, "bad compressed body: " + err.Error(), int64(claimed)
	}
	return out, EndClean, "inflated-exact", "", int64(claimed)
}

var inflaters sync.Pool // of flate readers (Reset before every use): saves ~80 KiB of zeroing per call

// Inflate decodes a complete RFC 1950 stream at the start of data and requires it to produce exactly want bytes.
func Inflate(data []byte, want int) ([]byte, error) {
	out, _, err := inflate(data, want)
	return out, err
}

func inflate(data []byte, want int) ([]byte, string, error) {
	if len(data) < 2 {
		return nil, "zlib-header-bad", fmt.Errorf("zlib header missing")
	}
	cmf, flg := data[0], data[1]
	if cmf&0x0F != 8 || cmf>>4 > 7 {
		return nil, "zlib-header-bad", fmt.Errorf("zlib header: bad method/window %#x", cmf)
	}
	if (uint(cmf)<<8|uint(flg))%31 != 0 {
		return nil, "zlib-header-bad", fmt.Errorf("zlib header: bad check bits")
	}
	if flg&0x20 != 0 {
		return nil, "zlib-header-bad", fmt.Errorf("zlib header: preset dictionary requested")
	}
	src := bytes.NewReader(data[2:]) // an io.ByteReader: flate consumes exactly the deflate stream, no read-ahead
	fr, _ := inflaters.Get().(io.ReadCloser)
	if fr == nil {
		fr = flate.NewReader(src)
	} else if err := fr.(flate.Resetter).Reset(src, nil); err != nil {
		return nil, "deflate-stream-corrupt", err
	}
	defer inflaters.Put(fr)
	out, err := io.ReadAll(io.LimitReader(fr, int64(want)+1))
	if err != nil {
		if len(out) > want {
			return nil, "inflates-to-more-than-claimed", fmt.Errorf("inflates to more than the claimed %d bytes", want)
		}
		if err == io.ErrUnexpectedEOF {
			return nil, "deflate-stream-truncated", fmt.Errorf("deflate stream truncated after %d of %d bytes", len(out), want)
		}
		return nil, "deflate-stream-corrupt", fmt.Errorf("deflate stream: %v (after %d bytes)", err, len(out))
	}
	if len(out) != want {
		if len(out) > want {
			return nil, "inflates-to-more-than-claimed", fmt.Errorf("inflates to more than the claimed %d bytes", want)
		}
		return nil, "inflates-to-less-than-claimed", fmt.Errorf("inflates to %d bytes, claimed %d", len(out), want)
	}
	rest := data[len(data)-src.Len():]
	if len(rest) < 4 {
		return nil, "adler32-missing", fmt.Errorf("Adler-32 trailer missing")
	}
	sum := uint32(rest[0])<<24 | uint32(rest[1])<<16 | uint32(rest[2])<<8 | uint32(rest[3])
	if sum != adler32.Checksum(out) {
		return nil, "adler32-mismatch", fmt.Errorf("Adler-32 mismatch")
	}
	return out, "", nil
}

// ---- independent encoders used by harnesses to build streams ----

// VarInt is the minimal encoding of v.
func VarInt(v int32) []byte {
	u := uint32(v)
	var out []byte
	for u >= 0x80 {
		out = append(out, byte(u)|0x80)
		u >>= 7
	}
	return append(out, byte(u))
}

// VarIntPadded encodes v in exactly n bytes (n >= minimal length, n <= 5) using continuation padding.
func VarIntPadded(v int32, n int) []byte {
	u := uint32(v)
	out := make([]byte, n)
	for i := 0; i < n; i++ {
		out[i] = byte(u & 0x7F)
		u >>= 7
		if i < n-1 {
			out[i] |= 0x80
		}
	}
	return out
}

// Zlib builds an RFC 1950 stream for content made of stored (uncompressed) deflate blocks or, with level != 0,
// of whatever compress/flate produces at that level. It does not use compress/zlib.
func Zlib(content []byte, level int) []byte {
	var b bytes.Buffer
	b.WriteByte(0x78)
	b.WriteByte(0x9C) // 0x789C % 31 == 0
	fw, err := flate.NewWriter(&b, level)
	if err != nil {
		panic(err)
	}
	fw.Write(content)
	fw.Close()
	s := adler32.Checksum(content)
	b.Write([]byte{byte(s >> 24), byte(s >> 16), byte(s >> 8), byte(s)})
	return b.Bytes()
}

// Frame prefixes body with its minimal length VarInt.
func Frame(body []byte) []byte {
	return append(VarInt(int32(len(body))), body...)
}
