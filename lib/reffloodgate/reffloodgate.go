// Package reffloodgate is a reference implementation of the wire format of GeyserMC Floodgate's
// identity data, written for the /verif C39 check. It shares no code with
// /repo/pkg/edition/bedrock/geyser/floodgate; only the AES and GCM primitives come from the Go standard
// library (crypto/aes, crypto/cipher). Base64 is hand-written here so that the decoder can follow the
// semantics of java.util.Base64.getDecoder() (what Floodgate's Base64Topping calls) instead of Go's.
//
// Format, as implemented by Floodgate (org.geysermc.floodgate.crypto.AesCipher + Base64Topping +
// FloodgateCipher, org.geysermc.floodgate.util.BedrockData) and as restated by the comments in
// the repo's cipher.go / floodgate.go:
//
//	hostname   = original_host 0x00 data
//	data       = HEADER base64(iv) 0x21 base64(ciphertext||tag)
//	HEADER     = "^Floodgate^" byte(0x3E + VERSION), VERSION = 0   -> "^Floodgate^>"
//	cipher     = AES/GCM/NoPadding, 96-bit IV chosen at random by the encoder, 128-bit tag, no AAD,
//	             key = the raw 16/24/32 bytes of key.pem
//	base64     = RFC 4648 standard alphabet with padding (java.util.Base64.getEncoder())
//	plaintext  = 12 fields joined by 0x00:
//	             version, username, xuid, deviceOs, language, uiProfile, inputMode, ip,
//	             linkedPlayer ("null" when absent), fromProxy (1/0), subscribeId, verifyCode
//
// What is TRUSTED from the author's recollection of Floodgate's Java source rather than from anything
// checkable offline: that Floodgate's decoder splits at the FIRST 0x21, that it does not constrain the IV
// length itself (javax.crypto accepts any non-empty GCM IV), that the Base64 decoder is the lenient
// "basic" one (padding optional, trailing bits ignored), and that BedrockData.fromString uses
// String.split("\0") which drops trailing empty fields (reported by JavaSplitLen, never used as an oracle
// by itself). Header, splitter, IV length 12, tag length 128, base64 and the 12-field order are all
// stated in the repo's own constants and comments as well.
package reffloodgate

import (
	"bytes"
	"crypto/aes"
	"crypto/cipher"
	"errors"
	"fmt"
	"strings"
)

const (
	IVLength = 12
	Splitter = 0x21
	Version  = 0
	Magic    = 0x3E
	Fields   = 12
)

// Header returns "^Floodgate^" followed by the version byte.
func Header() []byte { return append([]byte("^Floodgate^"), byte(Magic+Version)) }

const b64alphabet = "ABCDEFGHIJKLMNOPQRSTUVWXYZabcdefghijklmnopqrstuvwxyz0123456789+/"

// B64Encode is RFC 4648 standard base64 with padding.
func B64Encode(in []byte) []byte {
	out := make([]byte, 0, (len(in)+2)/3*4)
	for i := 0; i < len(in); i += 3 {
		var v uint32
		n := len(in) - i
		if n > 3 {
			n = 3
		}
		for j := 0; j < 3; j++ {
			v <<= 8
			if j < n {
				v |= uint32(in[i+j])
			}
		}
		out = append(out, b64alphabet[v>>18&63], b64alphabet[v>>12&63])
		if n > 1 {
			out = append(out, b64alphabet[v>>6&63])
		} else {
			out = append(out, '=')
		}
		if n > 2 {
			out = append(out, b64alphabet[v&63])
		} else {
			out = append(out, '=')
		}
	}
	return out
}

// B64DecodeJava follows java.util.Base64.getDecoder().decode(byte[]): standard alphabet only, no
// whitespace, padding optional but if present it must complete the final quantum and end the input,
// a final quantum of a single character is an error, unused trailing bits are ignored.
func B64DecodeJava(in []byte) ([]byte, error) {
	var out []byte
	var v uint32
	n := 0
	for i := 0; i < len(in); i++ {
		c := in[i]
		if c == '=' {
			// padding: legal only as xx== or xxx=
			switch n {
			case 2:
				if i+1 >= len(in) || in[i+1] != '=' || i+2 != len(in) {
					return nil, errors.New("base64: wrong 4-byte ending unit")
				}
				return append(out, byte(v>>4)), nil
			case 3:
				if i+1 != len(in) {
					return nil, errors.New("base64: incorrect ending byte")
				}
				return append(out, byte(v>>10), byte(v>>2)), nil
			default:
				return nil, errors.New("base64: wrong 4-byte ending unit")
			}
		}
		d := strings.IndexByte(b64alphabet, c)
		if d < 0 {
			return nil, fmt.Errorf("base64: illegal character %#x", c)
		}
		v = v<<6 | uint32(d)
		n++
		if n == 4 {
			out = append(out, byte(v>>16), byte(v>>8), byte(v))
			v, n = 0, 0
		}
	}
	switch n {
	case 0:
		return out, nil
	case 2:
		return append(out, byte(v>>4)), nil
	case 3:
		return append(out, byte(v>>10), byte(v>>2)), nil
	}
	return nil, errors.New("base64: last unit does not have enough valid bits")
}

func gcmFor(key []byte, ivLen int) (cipher.AEAD, error) {
	if len(key) != 16 && len(key) != 24 && len(key) != 32 {
		return nil, fmt.Errorf("invalid AES key length %d", len(key))
	}
	block, err := aes.NewCipher(key)
	if err != nil {
		return nil, err
	}
	if ivLen == IVLength {
		return cipher.NewGCM(block)
	}
	if ivLen < 1 {
		return nil, errors.New("GCM IV must not be empty")
	}
	return cipher.NewGCMWithNonceSize(block, ivLen)
}

// Encrypt is AesCipher.encrypt with the Base64Topping, with the IV supplied by the caller (Floodgate
// draws 12 random bytes). Other IV lengths are supported so that a harness can build well-formed
// messages that a javax.crypto based decoder would accept.
func Encrypt(key, iv, plaintext []byte) ([]byte, error) {
	g, err := gcmFor(key, len(iv))
	if err != nil {
		return nil, err
	}
	ct := g.Seal(nil, iv, plaintext, nil)
	return Assemble(iv, ct), nil
}

// Assemble puts header, base64(iv), splitter and base64(ct) together.
func Assemble(iv, ct []byte) []byte {
	out := Header()
	out = append(out, B64Encode(iv)...)
	out = append(out, Splitter)
	return append(out, B64Encode(ct)...)
}

// Split undoes Assemble following AesCipher.decrypt: header check, first splitter, Java base64.
func Split(data []byte) (iv, ct []byte, err error) {
	h := Header()
	if len(data) < len(h) || !bytes.Equal(data[:len(h)], h) {
		return nil, nil, errors.New("header not found")
	}
	rest := data[len(h):]
	i := bytes.IndexByte(rest, Splitter)
	if i < 0 {
		return nil, nil, errors.New("splitter not found")
	}
	if iv, err = B64DecodeJava(rest[:i]); err != nil {
		return nil, nil, fmt.Errorf("iv: %w", err)
	}
	if ct, err = B64DecodeJava(rest[i+1:]); err != nil {
		return nil, nil, fmt.Errorf("ciphertext: %w", err)
	}
	return iv, ct, nil
}

// Decrypt is AesCipher.decrypt with the Base64Topping.
func Decrypt(key, data []byte) ([]byte, error) {
	iv, ct, err := Split(data)
	if err != nil {
		return nil, err
	}
	g, err := gcmFor(key, len(iv))
	if err != nil {
		return nil, err
	}
	return g.Open(nil, iv, ct, nil)
}

// Record is the 12-field BedrockData record in wire order.
type Record [Fields]string

const (
	FVersion = iota
	FUsername
	FXuid
	FDeviceOS
	FLanguage
	FUIProfile
	FInputMode
	FIP
	FLinkedPlayer
	FFromProxy
	FSubscribeID
	FVerifyCode
)

var FieldNames = [Fields]string{"Version", "Username", "Xuid", "DeviceOS", "Language", "UIProfile", "InputMode", "IP",
	"LinkedPlayer", "Proxy", "SubscribeID", "VerifyCode"}

// String is BedrockData.toString().
func (r Record) String() string { return strings.Join(r[:], "\x00") }

// ParseRecord splits the plaintext at every NUL and requires exactly 12 fields.
func ParseRecord(s string) (Record, error) {
	var r Record
	parts := strings.Split(s, "\x00")
	if len(parts) != Fields {
		return r, fmt.Errorf("expected %d fields, got %d", Fields, len(parts))
	}
	copy(r[:], parts)
	return r, nil
}

// JavaSplitLen is the length of s.split("\0") in Java: trailing empty strings are dropped (and an
// input without any non-empty field yields 1 for "" / 0 for only separators).
func JavaSplitLen(s string) int {
	parts := strings.Split(s, "\x00")
	n := len(parts)
	if len(s) == 0 {
		return 1
	}
	for n > 0 && parts[n-1] == "" {
		n--
	}
	return n
}

// EncodeHostname is what Geyser puts into the handshake: host, NUL, encrypted record.
func EncodeHostname(host string, key, iv []byte, r Record) (string, error) {
	enc, err := Encrypt(key, iv, []byte(r.String()))
	if err != nil {
		return "", err
	}
	return host + "\x00" + string(enc), nil
}

// DecodeHostname is the receiving side of a Floodgate installation: split at the NUL, decrypt, parse.
func DecodeHostname(key []byte, hostname string) (host string, r Record, err error) {
	parts := strings.Split(hostname, "\x00")
	if len(parts) != 2 {
		return "", r, fmt.Errorf("expected host NUL data, got %d parts", len(parts))
	}
	plain, err := Decrypt(key, []byte(parts[1]))
	if err != nil {
		return "", r, err
	}
	r, err = ParseRecord(string(plain))
	return parts[0], r, err
}
