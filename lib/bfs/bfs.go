// Package bfs is engine B of /verif: explicit-state breadth-first search over operation
// histories. Live Go objects do not clone, so a state IS the history that reaches it: every
// successor is built by replaying the history on a fresh real object and applying one more
// operation. The harness's Run callback does that, checks the invariant / reference model and
// returns a canonical state key used for deduplication.
package bfs

import (
	"fmt"
	"hash/fnv"
	"time"
)

// Outcome of running one history on a fresh object.
type Outcome struct {
	Key      string // canonical state (sorted, property-relevant fields only); "" = use the history itself
	Terminal bool   // do not extend this history (e.g. connection closed)
	FailKey  string // non-empty = violation (stable identity of the failing call site / behaviour)
	FailDesc string
	Obs      string // optional: observable outcome, counted as distinct outcomes
}

type Config[Op any] struct {
	Name      string
	Ops       []Op // alphabet, simplest first
	Depth     int
	Run       func(history []Op) Outcome
	Enabled   func(history []Op, op Op) bool // optional filter
	Shard     int
	NShards   int
	Deadline  time.Time
	MaxStates int
}

type Failure[Op any] struct {
	Key     string
	Desc    string
	History []Op
	Count   int
}

type Result[Op any] struct {
	States      int
	Transitions int
	MaxDepth    int
	Outcomes    map[string]int
	Failures    map[string]*Failure[Op]
	Exhaustive  bool
	Reason      string
	Sample      []Op
	StateKeys   []string // hashed, for cross-shard union
}

func hashHist(s string) uint32 {
	h := fnv.New32a()
	h.Write([]byte(s))
	return h.Sum32()
}

// Explore runs the search. Sharding: depth-1 successors of the root are dealt round-robin to
// shards (each shard deduplicates within its own subtrees only, which costs time, not soundness).
func Explore[Op any](c Config[Op]) *Result[Op] {
	res := &Result[Op]{Outcomes: map[string]int{}, Failures: map[string]*Failure[Op]{}, Exhaustive: true}
	if c.NShards <= 0 {
		c.NShards = 1
	}
	seen := map[string]bool{}
	type node struct{ h []Op }
	frontier := []node{{nil}}
	rootIdx := 0
	for depth := 0; depth < c.Depth && len(frontier) > 0; depth++ {
		var next []node
		for _, n := range frontier {
			for _, op := range c.Ops {
				if c.Enabled != nil && !c.Enabled(n.h, op) {
					continue
				}
				if depth == 0 {
					rootIdx++
					if (rootIdx-1)%c.NShards != c.Shard {
						continue
					}
				}
				if !c.Deadline.IsZero() && time.Now().After(c.Deadline) {
					res.Exhaustive, res.Reason = false, fmt.Sprintf("soft deadline at depth %d", depth+1)
					return res
				}
				if c.MaxStates > 0 && res.States >= c.MaxStates {
					res.Exhaustive, res.Reason = false, fmt.Sprintf("state cap %d at depth %d", c.MaxStates, depth+1)
					return res
				}
				h := append(append(make([]Op, 0, len(n.h)+1), n.h...), op)
				out := c.Run(h)
				res.Transitions++
				if depth+1 > res.MaxDepth {
					res.MaxDepth = depth + 1
				}
				if out.Obs != "" {
					res.Outcomes[out.Obs]++
				}
				if out.FailKey != "" {
					if f, ok := res.Failures[out.FailKey]; ok {
						f.Count++
					} else {
						res.Failures[out.FailKey] = &Failure[Op]{Key: out.FailKey, Desc: out.FailDesc, History: h, Count: 1}
					}
					continue
				}
				key := out.Key
				if key == "" {
					key = fmt.Sprint(h)
				}
				if seen[key] {
					continue
				}
				seen[key] = true
				res.States++
				if res.Sample == nil && len(h) >= 3 {
					res.Sample = h
				}
				if !out.Terminal {
					next = append(next, node{h})
				}
			}
		}
		frontier = next
	}
	for k := range seen {
		res.StateKeys = append(res.StateKeys, k)
	}
	return res
}

type Reporter interface {
	Eval(int)
	Distinct(string)
	States(int)
	Transitions(int)
	Traces(int)
	ClassN(string, int)
	NotExhaustive(string)
	Violation(key, desc string, replay any)
	Sample(any)
	Note(string)
}

// ReplayData is stored with a violation so that the driver can replay the history.
type ReplayData[Op any] struct {
	Scenario string `json:"scenario"`
	History  []Op   `json:"history"`
}

// Merge reports the result: every transition replayed a history on the real implementation, so
// transitions are also the validated traces.
func (res *Result[Op]) Merge(r Reporter, scenario string) {
	r.Eval(res.Transitions)
	r.States(res.States)
	r.Transitions(res.Transitions)
	r.Traces(res.Transitions)
	r.ClassN("scenario:"+scenario, res.Transitions)
	for _, k := range res.StateKeys {
		r.Distinct(scenario + "|" + k)
	}
	if !res.Exhaustive {
		r.NotExhaustive(scenario + ": " + res.Reason)
	}
	for k, f := range res.Failures {
		r.Violation(scenario+"/"+k, fmt.Sprintf("scenario %s, history %v (seen %d×)\n%s", scenario, f.History, f.Count, f.Desc), ReplayData[Op]{Scenario: scenario, History: f.History})
	}
	if res.Sample != nil {
		r.Sample(map[string]any{"scenario": scenario, "history": fmt.Sprint(res.Sample), "states": res.States, "transitions": res.Transitions, "max_depth": res.MaxDepth, "distinct_outcomes": len(res.Outcomes)})
	}
	r.Note(fmt.Sprintf("%s: states=%d transitions=%d depth=%d outcomes=%d exhaustive=%v", scenario, res.States, res.Transitions, res.MaxDepth, len(res.Outcomes), res.Exhaustive))
}
