// Package refpaperfwd is an independent reference for Velocity "modern forwarding" as a Paper
// backend consumes it (io.papermc.paper.proxy / com.destroystokyo.paper.proxy.VelocityProxy)
// and for Velocity's choice of the forwarding version (PlayerDataForwarding
// .findForwardingVersion + LoginSessionHandler's signed byte read). Stdlib only; it shares no
// code with the repo.
package refpaperfwd

import (
	"crypto/hmac"
	"crypto/sha256"
	"encoding/binary"
	"errors"
	"fmt"
	"net/netip"
	"unicode/utf16"
	"unicode/utf8"
)

const (
	Default     = 1 // MODERN_DEFAULT
	WithKey     = 2 // MODERN_FORWARDING_WITH_KEY
	WithKeyV2   = 3 // MODERN_FORWARDING_WITH_KEY_V2
	LazySession = 4 // MODERN_LAZY_SESSION
	MaxVersion  = LazySession

	Protocol1_19_3 = 761
)

// Key revisions as Velocity's IdentifiedKey.Revision.
const (
	NoKey = iota
	GenericV1
	LinkedV2
)

// RequestedFromPayload is LoginSessionHandler: the requested version is MODERN_DEFAULT unless
// the request carries exactly one byte, which is read with ByteBuf.readByte() — a SIGNED byte.
func RequestedFromPayload(data []byte) int {
	if len(data) == 1 {
		return int(int8(data[0]))
	}
	return Default
}

// VelocityVersion is PlayerDataForwarding.findForwardingVersion.
func VelocityVersion(requested int, protocol int, keyRevision int) int {
	if requested > MaxVersion {
		requested = MaxVersion
	}
	if requested > Default {
		if protocol >= Protocol1_19_3 {
			if requested >= LazySession {
				return LazySession
			}
			return Default
		}
		switch keyRevision {
		case GenericV1:
			return WithKey
		case LinkedV2:
			// V2 is not backwards compatible: drop the key if only v1 keys were requested
			if requested >= WithKeyV2 {
				return WithKeyV2
			}
			return Default
		}
		return Default
	}
	return Default
}

type Property struct {
	Name, Value string
	HasSig      bool
	Signature   string
}

// Parsed is what a Paper backend extracts.
type Parsed struct {
	Version    int
	Address    netip.Addr
	AddressRaw string
	UUID       [16]byte
	Name       string
	Properties []Property
	// key data, present for versions 2 and 3
	HasKey    bool
	KeyExpiry int64
	KeyBytes  []byte
	KeySig    []byte
	// version 3 only
	HasSigner bool
	Signer    [16]byte
}

var ErrBadMAC = errors.New("forwarding data: HMAC-SHA256 signature does not verify under the secret")

type rd struct {
	b   []byte
	off int
}

func (r *rd) n(n int) ([]byte, error) {
	if n < 0 || r.off+n > len(r.b) {
		return nil, fmt.Errorf("forwarding data truncated at offset %d (need %d bytes, have %d)", r.off, n, len(r.b)-r.off)
	}
	s := r.b[r.off : r.off+n]
	r.off += n
	return s, nil
}

func (r *rd) varInt() (int, error) {
	var u uint32
	for i := 0; i < 5; i++ {
		c, err := r.n(1)
		if err != nil {
			return 0, err
		}
		u |= uint32(c[0]&0x7f) << (7 * i)
		if c[0]&0x80 == 0 {
			return int(int32(u)), nil
		}
	}
	return 0, errors.New("VarInt too big")
}

// utf is FriendlyByteBuf.readUtf(maxLength).
func (r *rd) utf(max int) (string, error) {
	n, err := r.varInt()
	if err != nil {
		return "", err
	}
	if n > max*3 {
		return "", fmt.Errorf("encoded string length %d longer than allowed %d", n, max*3)
	}
	if n < 0 {
		return "", errors.New("encoded string length is negative")
	}
	b, err := r.n(n)
	if err != nil {
		return "", err
	}
	if !utf8.Valid(b) {
		return "", errors.New("string is not valid UTF-8")
	}
	s := string(b)
	if l := len(utf16.Encode([]rune(s))); l > max {
		return "", fmt.Errorf("string length %d longer than allowed %d", l, max)
	}
	return s, nil
}

func (r *rd) boolean() (bool, error) {
	b, err := r.n(1)
	if err != nil {
		return false, err
	}
	return b[0] != 0, nil
}

func (r *rd) byteArray(max int) ([]byte, error) {
	n, err := r.varInt()
	if err != nil {
		return nil, err
	}
	if n < 0 || n > max {
		return nil, fmt.Errorf("byte array length %d out of range (max %d)", n, max)
	}
	return r.n(n)
}

// Verify is VelocityProxy.checkIntegrity: the first 32 bytes are HMAC-SHA256(secret, rest).
func Verify(secret, data []byte) (payload []byte, err error) {
	if len(data) < 32 {
		return nil, fmt.Errorf("forwarding data is %d bytes, shorter than the signature", len(data))
	}
	mac := hmac.New(sha256.New, secret)
	mac.Write(data[32:])
	if !hmac.Equal(mac.Sum(nil), data[:32]) {
		return nil, ErrBadMAC
	}
	return data[32:], nil
}

// Parse verifies and parses the LoginPluginResponse data like a Paper backend
// (ServerLoginPacketListenerImpl.handleCustomQueryPacket): integrity, version <= max supported,
// address, profile (uuid, name<=16, properties), then for version 2/3 the forwarded key and for
// version 3 the optional signer uuid. Trailing bytes are reported (Paper ignores them, a
// faithful payload has none).
func Parse(secret, data []byte) (*Parsed, error) {
	payload, err := Verify(secret, data)
	if err != nil {
		return nil, err
	}
	r := &rd{b: payload}
	p := &Parsed{}
	if p.Version, err = r.varInt(); err != nil {
		return nil, err
	}
	if p.Version > MaxVersion {
		return nil, fmt.Errorf("unsupported forwarding version %d, supported up to %d", p.Version, MaxVersion)
	}
	if p.Version < Default {
		return nil, fmt.Errorf("forwarding version %d below the first version", p.Version)
	}
	if p.AddressRaw, err = r.utf(32767); err != nil {
		return nil, fmt.Errorf("address: %w", err)
	}
	// InetAddresses.forString: an IP literal, never a host name
	if p.Address, err = netip.ParseAddr(p.AddressRaw); err != nil {
		return nil, fmt.Errorf("address %q is not an IP literal: %w", p.AddressRaw, err)
	}
	id, err := r.n(16)
	if err != nil {
		return nil, err
	}
	copy(p.UUID[:], id)
	if p.Name, err = r.utf(16); err != nil {
		return nil, fmt.Errorf("name: %w", err)
	}
	np, err := r.varInt()
	if err != nil {
		return nil, err
	}
	if np < 0 {
		return nil, fmt.Errorf("negative property count %d", np)
	}
	for i := 0; i < np; i++ {
		var pr Property
		if pr.Name, err = r.utf(32767); err != nil {
			return nil, fmt.Errorf("property name: %w", err)
		}
		if pr.Value, err = r.utf(32767); err != nil {
			return nil, fmt.Errorf("property value: %w", err)
		}
		if pr.HasSig, err = r.boolean(); err != nil {
			return nil, err
		}
		if pr.HasSig {
			if pr.Signature, err = r.utf(32767); err != nil {
				return nil, fmt.Errorf("property signature: %w", err)
			}
		}
		p.Properties = append(p.Properties, pr)
	}
	if p.Version == WithKey || p.Version == WithKeyV2 {
		// ProfilePublicKey.Data(FriendlyByteBuf): expiresAt (Instant as epoch millis long),
		// public key (byte array), key signature (byte array, max 4096)
		p.HasKey = true
		e, err := r.n(8)
		if err != nil {
			return nil, fmt.Errorf("key expiry: %w", err)
		}
		p.KeyExpiry = int64(binary.BigEndian.Uint64(e))
		if p.KeyBytes, err = r.byteArray(512); err != nil {
			return nil, fmt.Errorf("public key: %w", err)
		}
		if p.KeySig, err = r.byteArray(4096); err != nil {
			return nil, fmt.Errorf("key signature: %w", err)
		}
		if p.Version == WithKeyV2 {
			if p.HasSigner, err = r.boolean(); err != nil {
				return nil, fmt.Errorf("signer flag: %w", err)
			}
			if p.HasSigner {
				s, err := r.n(16)
				if err != nil {
					return nil, fmt.Errorf("signer uuid: %w", err)
				}
				copy(p.Signer[:], s)
			}
		}
	}
	if r.off != len(payload) {
		return p, fmt.Errorf("%d trailing bytes after the version-%d payload", len(payload)-r.off, p.Version)
	}
	return p, nil
}
