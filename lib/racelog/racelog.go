// Package racelog lets a free-running `-race` companion pass turn the race detector's reports into
// vrt violations. The pass's spec sets `"env": {"GORACE": "log_path=race.log"}` (the driver runs each
// shard in its own directory), the harness runs its rounds and then calls Collect, which parses the
// `race.log.<pid>` file written by THIS process.
//
// Keys are built from the first frame of each of the two conflicting accesses that lies in the repo
// module (harness files and zzverif libs skipped), sorted, so they name the racing code and not the
// goroutine ids/addresses of one run. Stdlib only.
package racelog

import (
	"fmt"
	"os"
	"regexp"
	"sort"
	"strings"
)

// Report is one "WARNING: DATA RACE" block.
type Report struct {
	Key  string // race:<funcA><-><funcB>
	Text string // the block, truncated
}

// Enabled reports whether the binary can produce a race log (GORACE has a log_path).
func Enabled() bool { return logPrefix() != "" }

func logPrefix() string {
	for _, kv := range strings.Fields(os.Getenv("GORACE")) {
		if strings.HasPrefix(kv, "log_path=") {
			return strings.TrimPrefix(kv, "log_path=")
		}
	}
	return ""
}

// Collect returns the reports logged so far by this process, de-duplicated by key (first text kept),
// sorted by key.
func Collect() []Report {
	p := logPrefix()
	if p == "" {
		return nil
	}
	b, err := os.ReadFile(fmt.Sprintf("%s.%d", p, os.Getpid()))
	if err != nil {
		return nil
	}
	return Parse(string(b))
}

var genericRe = regexp.MustCompile(`\[[^\]]*\]`)

// Parse splits a race log into reports.
func Parse(log string) []Report {
	seen := map[string]bool{}
	var out []Report
	for _, blk := range strings.Split(log, "WARNING: DATA RACE") {
		if !strings.Contains(blk, " by goroutine ") && !strings.Contains(blk, " by main goroutine") {
			continue
		}
		if i := strings.Index(blk, "\n=================="); i >= 0 {
			blk = blk[:i]
		}
		stacks := accessStacks(blk)
		if len(stacks) == 0 {
			continue
		}
		var fr []string
		for _, s := range stacks {
			fr = append(fr, topRepoFrame(s))
		}
		sort.Strings(fr)
		key := "race:" + strings.Join(fr, "<->")
		if seen[key] {
			continue
		}
		seen[key] = true
		txt := "WARNING: DATA RACE" + blk
		if len(txt) > 1800 {
			txt = txt[:1800] + "…"
		}
		out = append(out, Report{Key: key, Text: txt})
	}
	sort.Slice(out, func(i, j int) bool { return out[i].Key < out[j].Key })
	return out
}

type frame struct{ fn, file string }

// accessStacks returns the (up to two) stacks of the conflicting accesses of one report.
func accessStacks(blk string) [][]frame {
	var res [][]frame
	lines := strings.Split(blk, "\n")
	for i := 0; i < len(lines) && len(res) < 2; i++ {
		l := strings.TrimSpace(lines[i])
		isAccess := (strings.HasPrefix(l, "Read at ") || strings.HasPrefix(l, "Write at ") ||
			strings.HasPrefix(l, "Previous read at ") || strings.HasPrefix(l, "Previous write at ") ||
			strings.HasPrefix(l, "Atomic read at ") || strings.HasPrefix(l, "Atomic write at ") ||
			strings.HasPrefix(l, "Previous atomic read at ") || strings.HasPrefix(l, "Previous atomic write at "))
		if !isAccess {
			continue
		}
		var st []frame
		j := i + 1
		for ; j+1 < len(lines); j += 2 {
			fn := strings.TrimSpace(lines[j])
			if fn == "" {
				break
			}
			st = append(st, frame{fn: fn, file: strings.TrimSpace(lines[j+1])})
		}
		res = append(res, st)
		i = j
	}
	return res
}

func topRepoFrame(st []frame) string {
	pick := ""
	for _, f := range st {
		if strings.Contains(f.file, "zz_verif") || strings.Contains(f.file, "/zzverif/") || strings.Contains(f.fn, "/zzverif/") {
			continue
		}
		if strings.HasPrefix(f.fn, "go.minekube.com/gate/") {
			pick = f.fn
			break
		}
	}
	if pick == "" && len(st) > 0 {
		pick = st[0].fn
	}
	pick = strings.TrimSuffix(pick, "()")
	pick = genericRe.ReplaceAllString(pick, "")
	pick = strings.TrimPrefix(pick, "go.minekube.com/gate/pkg/")
	// closures: f.func1 -> f
	if i := strings.Index(pick, ".func"); i > 0 {
		pick = pick[:i]
	}
	return pick
}
