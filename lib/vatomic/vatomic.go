// Package vatomic replaces sync/atomic in instrumented copies: same API, each operation is a
// scheduling point when a sched execution is active.
package vatomic

import (
	"sync/atomic"
	"unsafe"

	"go.minekube.com/gate/pkg/edition/java/proxy/zzverif/sched"
)

func pt(kind string, o any) {
	if x := sched.Active(); x != nil && !x.Aborting() {
		x.Wait(kind, o, nil)
	}
}

type Bool struct{ v atomic.Bool }

func (b *Bool) Load() bool                    { pt("atomic.Load", b); return b.v.Load() }
func (b *Bool) Store(x bool)                  { pt("atomic.Store", b); b.v.Store(x) }
func (b *Bool) Swap(x bool) bool              { pt("atomic.Swap", b); return b.v.Swap(x) }
func (b *Bool) CompareAndSwap(o, n bool) bool { pt("atomic.CAS", b); return b.v.CompareAndSwap(o, n) }

type Int32 struct{ v atomic.Int32 }

func (b *Int32) Load() int32                    { pt("atomic.Load", b); return b.v.Load() }
func (b *Int32) Store(x int32)                  { pt("atomic.Store", b); b.v.Store(x) }
func (b *Int32) Swap(x int32) int32             { pt("atomic.Swap", b); return b.v.Swap(x) }
func (b *Int32) Add(x int32) int32              { pt("atomic.Add", b); return b.v.Add(x) }
func (b *Int32) CompareAndSwap(o, n int32) bool { pt("atomic.CAS", b); return b.v.CompareAndSwap(o, n) }

type Int64 struct{ v atomic.Int64 }

func (b *Int64) Load() int64                    { pt("atomic.Load", b); return b.v.Load() }
func (b *Int64) Store(x int64)                  { pt("atomic.Store", b); b.v.Store(x) }
func (b *Int64) Swap(x int64) int64             { pt("atomic.Swap", b); return b.v.Swap(x) }
func (b *Int64) Add(x int64) int64              { pt("atomic.Add", b); return b.v.Add(x) }
func (b *Int64) CompareAndSwap(o, n int64) bool { pt("atomic.CAS", b); return b.v.CompareAndSwap(o, n) }

type Uint32 struct{ v atomic.Uint32 }

func (b *Uint32) Load() uint32         { pt("atomic.Load", b); return b.v.Load() }
func (b *Uint32) Store(x uint32)       { pt("atomic.Store", b); b.v.Store(x) }
func (b *Uint32) Swap(x uint32) uint32 { pt("atomic.Swap", b); return b.v.Swap(x) }
func (b *Uint32) Add(x uint32) uint32  { pt("atomic.Add", b); return b.v.Add(x) }
func (b *Uint32) CompareAndSwap(o, n uint32) bool {
	pt("atomic.CAS", b)
	return b.v.CompareAndSwap(o, n)
}

type Uint64 struct{ v atomic.Uint64 }

func (b *Uint64) Load() uint64         { pt("atomic.Load", b); return b.v.Load() }
func (b *Uint64) Store(x uint64)       { pt("atomic.Store", b); b.v.Store(x) }
func (b *Uint64) Swap(x uint64) uint64 { pt("atomic.Swap", b); return b.v.Swap(x) }
func (b *Uint64) Add(x uint64) uint64  { pt("atomic.Add", b); return b.v.Add(x) }
func (b *Uint64) CompareAndSwap(o, n uint64) bool {
	pt("atomic.CAS", b)
	return b.v.CompareAndSwap(o, n)
}

type Pointer[T any] struct{ v atomic.Pointer[T] }

func (b *Pointer[T]) Load() *T     { pt("atomic.Load", b); return b.v.Load() }
func (b *Pointer[T]) Store(x *T)   { pt("atomic.Store", b); b.v.Store(x) }
func (b *Pointer[T]) Swap(x *T) *T { pt("atomic.Swap", b); return b.v.Swap(x) }
func (b *Pointer[T]) CompareAndSwap(o, n *T) bool {
	pt("atomic.CAS", b)
	return b.v.CompareAndSwap(o, n)
}

type Value struct{ v atomic.Value }

func (b *Value) Load() any                    { pt("atomic.Load", b); return b.v.Load() }
func (b *Value) Store(x any)                  { pt("atomic.Store", b); b.v.Store(x) }
func (b *Value) Swap(x any) any               { pt("atomic.Swap", b); return b.v.Swap(x) }
func (b *Value) CompareAndSwap(o, n any) bool { pt("atomic.CAS", b); return b.v.CompareAndSwap(o, n) }

func AddInt32(a *int32, d int32) int32     { pt("atomic.Add", a); return atomic.AddInt32(a, d) }
func AddInt64(a *int64, d int64) int64     { pt("atomic.Add", a); return atomic.AddInt64(a, d) }
func AddUint32(a *uint32, d uint32) uint32 { pt("atomic.Add", a); return atomic.AddUint32(a, d) }
func AddUint64(a *uint64, d uint64) uint64 { pt("atomic.Add", a); return atomic.AddUint64(a, d) }
func LoadInt32(a *int32) int32             { pt("atomic.Load", a); return atomic.LoadInt32(a) }
func LoadInt64(a *int64) int64             { pt("atomic.Load", a); return atomic.LoadInt64(a) }
func LoadUint32(a *uint32) uint32          { pt("atomic.Load", a); return atomic.LoadUint32(a) }
func LoadUint64(a *uint64) uint64          { pt("atomic.Load", a); return atomic.LoadUint64(a) }
func StoreInt32(a *int32, v int32)         { pt("atomic.Store", a); atomic.StoreInt32(a, v) }
func StoreInt64(a *int64, v int64)         { pt("atomic.Store", a); atomic.StoreInt64(a, v) }
func StoreUint32(a *uint32, v uint32)      { pt("atomic.Store", a); atomic.StoreUint32(a, v) }
func StoreUint64(a *uint64, v uint64)      { pt("atomic.Store", a); atomic.StoreUint64(a, v) }
func SwapInt32(a *int32, v int32) int32    { pt("atomic.Swap", a); return atomic.SwapInt32(a, v) }
func SwapInt64(a *int64, v int64) int64    { pt("atomic.Swap", a); return atomic.SwapInt64(a, v) }
func CompareAndSwapInt32(a *int32, o, n int32) bool {
	pt("atomic.CAS", a)
	return atomic.CompareAndSwapInt32(a, o, n)
}
func CompareAndSwapInt64(a *int64, o, n int64) bool {
	pt("atomic.CAS", a)
	return atomic.CompareAndSwapInt64(a, o, n)
}
func CompareAndSwapUint32(a *uint32, o, n uint32) bool {
	pt("atomic.CAS", a)
	return atomic.CompareAndSwapUint32(a, o, n)
}
func CompareAndSwapUint64(a *uint64, o, n uint64) bool {
	pt("atomic.CAS", a)
	return atomic.CompareAndSwapUint64(a, o, n)
}
func LoadPointer(a *unsafe.Pointer) unsafe.Pointer {
	pt("atomic.Load", a)
	return atomic.LoadPointer(a)
}
func StorePointer(a *unsafe.Pointer, v unsafe.Pointer) {
	pt("atomic.Store", a)
	atomic.StorePointer(a, v)
}
