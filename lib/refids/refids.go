// Package refids holds the reference packet-id table used by check C06: an independently transcribed copy of
// Velocity's StateRegistry (velocity_ids.tsv, TRUSTED BASE) together with its own protocol-number list and its own
// implementation of Velocity's "mapping is valid from its version up to the next mapping" range rule. Nothing here
// imports code from the project under test.
package refids

import (
	_ "embed"
	"fmt"
	"sort"
	"strconv"
	"strings"
)

//go:embed velocity_ids.tsv
var tsv string

// Versions is the reference's own list of release protocol numbers (name of the first release using the number).
// It is written from the public protocol-version list, not taken from the project under test.
var Versions = []struct {
	Protocol int
	Name     string
}{
	{4, "1.7.2"}, {5, "1.7.6"}, {47, "1.8"}, {107, "1.9"}, {108, "1.9.1"}, {109, "1.9.2"}, {110, "1.9.4"},
	{210, "1.10"}, {315, "1.11"}, {316, "1.11.1"}, {335, "1.12"}, {338, "1.12.1"}, {340, "1.12.2"},
	{393, "1.13"}, {401, "1.13.1"}, {404, "1.13.2"}, {477, "1.14"}, {480, "1.14.1"}, {485, "1.14.2"},
	{490, "1.14.3"}, {498, "1.14.4"}, {573, "1.15"}, {575, "1.15.1"}, {578, "1.15.2"}, {735, "1.16"},
	{736, "1.16.1"}, {751, "1.16.2"}, {753, "1.16.3"}, {754, "1.16.4"}, {755, "1.17"}, {756, "1.17.1"},
	{757, "1.18"}, {758, "1.18.2"}, {759, "1.19"}, {760, "1.19.1"}, {761, "1.19.3"}, {762, "1.19.4"},
	{763, "1.20"}, {764, "1.20.2"}, {765, "1.20.3"}, {766, "1.20.5"}, {767, "1.21"}, {768, "1.21.2"},
	{769, "1.21.4"}, {770, "1.21.5"}, {771, "1.21.6"}, {772, "1.21.7"}, {773, "1.21.9"}, {774, "1.21.11"},
}

func protoOf(name string) (int, bool) {
	for _, v := range Versions {
		if v.Name == name {
			return v.Protocol, true
		}
	}
	return 0, false
}

// Mapping is one `map(id, first[, last])` argument.
type Mapping struct {
	ID    int
	First int // protocol number
	Last  int // inclusive protocol number, 0 = open
	Conf  string
	Line  int
}

// Row is one `register(class, mappings...)` call.
type Row struct {
	Class, State, Dir string
	Maps              []Mapping
}

// Key identifies a registration.
func (r *Row) Key() string { return r.State + "/" + r.Dir + "/" + r.Class }

// Table is the parsed reference.
type Table struct {
	Horizon int
	Rows    map[string]*Row
	Order   []string
	Lines   int
}

// Load parses the embedded TSV. Any malformed line is an error (the table is trusted base; it must at least be
// well-formed: known version names, strictly increasing versions inside a registration, `last` only on the final
// mapping, 0 <= id <= 0xFF... (ids above 0x7F are legal VarInts)).
func Load() (*Table, error) {
	t := &Table{Rows: map[string]*Row{}}
	for n, ln := range strings.Split(tsv, "\n") {
		line := n + 1
		if strings.HasPrefix(ln, "#horizon\t") {
			h, err := strconv.Atoi(strings.TrimSpace(strings.TrimPrefix(ln, "#horizon\t")))
			if err != nil {
				return nil, fmt.Errorf("line %d: bad horizon", line)
			}
			t.Horizon = h
			continue
		}
		if strings.TrimSpace(ln) == "" || strings.HasPrefix(ln, "#") {
			continue
		}
		f := strings.Split(ln, "\t")
		if len(f) != 7 {
			return nil, fmt.Errorf("line %d: want 7 tab-separated fields, got %d", line, len(f))
		}
		id, err := strconv.ParseInt(strings.TrimPrefix(f[3], "0x"), 16, 32)
		if err != nil || id < 0 || id > 0x3FFF {
			return nil, fmt.Errorf("line %d: bad id %q", line, f[3])
		}
		first, ok := protoOf(f[4])
		if !ok {
			return nil, fmt.Errorf("line %d: unknown version %q", line, f[4])
		}
		last := 0
		if f[5] != "-" {
			if last, ok = protoOf(f[5]); !ok {
				return nil, fmt.Errorf("line %d: unknown version %q", line, f[5])
			}
			if last < first {
				return nil, fmt.Errorf("line %d: last < first", line)
			}
		}
		if f[1] != "Handshake" && f[1] != "Status" && f[1] != "Login" && f[1] != "Config" && f[1] != "Play" {
			return nil, fmt.Errorf("line %d: bad state %q", line, f[1])
		}
		if f[2] != "SB" && f[2] != "CB" {
			return nil, fmt.Errorf("line %d: bad direction %q", line, f[2])
		}
		if f[6] != "H" && f[6] != "M" {
			return nil, fmt.Errorf("line %d: bad confidence %q", line, f[6])
		}
		key := f[1] + "/" + f[2] + "/" + f[0]
		r := t.Rows[key]
		if r == nil {
			r = &Row{Class: f[0], State: f[1], Dir: f[2]}
			t.Rows[key] = r
			t.Order = append(t.Order, key)
		}
		if k := len(r.Maps); k > 0 {
			if r.Maps[k-1].Last != 0 {
				return nil, fmt.Errorf("line %d: mapping after a last-valid mapping", line)
			}
			if r.Maps[k-1].First >= first {
				return nil, fmt.Errorf("line %d: versions not increasing", line)
			}
		}
		r.Maps = append(r.Maps, Mapping{ID: int(id), First: first, Last: last, Conf: f[6], Line: line})
		t.Lines++
	}
	if t.Horizon == 0 {
		return nil, fmt.Errorf("no #horizon line")
	}
	return t, nil
}

// Lookup says what the reference registers for (state, dir, class) at protocol p.
//
//	known=false: the reference makes no statement (no such registration transcribed, or p beyond the horizon)
//	known=true, present=false: Velocity does not register the class for p in this state/direction
//	known=true, present=true: Velocity registers it with id
func (t *Table) Lookup(state, dir, class string, p int) (id int, present, known bool, m Mapping) {
	r := t.Rows[state+"/"+dir+"/"+class]
	if r == nil || p > t.Horizon {
		return 0, false, false, Mapping{}
	}
	for i, mp := range r.Maps {
		hi := t.Horizon // inclusive
		if mp.Last != 0 {
			hi = mp.Last
		} else if i+1 < len(r.Maps) {
			hi = r.Maps[i+1].First - 1
		}
		if p >= mp.First && p <= hi {
			return mp.ID, true, true, mp
		}
	}
	return 0, false, true, Mapping{}
}

// SelfCheck verifies the table against itself for one list of protocol numbers: in every (state,dir,protocol) no two
// classes may share an id (Velocity's own register() throws on that, so a collision means a transcription error).
// It returns human-readable problems.
func (t *Table) SelfCheck(protocols []int) []string {
	var out []string
	type cell struct {
		sd string
		p  int
		id int
	}
	seen := map[cell]string{}
	keys := append([]string(nil), t.Order...)
	sort.Strings(keys)
	for _, k := range keys {
		r := t.Rows[k]
		for _, p := range protocols {
			id, present, known, _ := t.Lookup(r.State, r.Dir, r.Class, p)
			if !known || !present {
				continue
			}
			c := cell{r.State + "/" + r.Dir, p, id}
			if other, dup := seen[c]; dup {
				out = append(out, fmt.Sprintf("%s protocol %d id %#x: both %s and %s", c.sd, p, id, other, r.Class))
			} else {
				seen[c] = r.Class
			}
		}
	}
	return out
}

// OrderBreaks lists, per (state,dir), the adjacent protocol pairs in which the relative id order of two classes that
// exist in both versions flips. Vanilla numbers packets by registration order, so ids of surviving packets keep their
// relative order across most version steps; the few steps where they do not (full renumberings) are a useful
// fingerprint when reviewing the transcription. Informational only.
func (t *Table) OrderBreaks(protocols []int) map[string]int {
	out := map[string]int{}
	for i := 0; i+1 < len(protocols); i++ {
		a, b := protocols[i], protocols[i+1]
		for _, k1 := range t.Order {
			r1 := t.Rows[k1]
			for _, k2 := range t.Order {
				r2 := t.Rows[k2]
				if k1 >= k2 || r1.State != r2.State || r1.Dir != r2.Dir {
					continue
				}
				a1, p1, _, _ := t.Lookup(r1.State, r1.Dir, r1.Class, a)
				a2, p2, _, _ := t.Lookup(r2.State, r2.Dir, r2.Class, a)
				b1, q1, _, _ := t.Lookup(r1.State, r1.Dir, r1.Class, b)
				b2, q2, _, _ := t.Lookup(r2.State, r2.Dir, r2.Class, b)
				if p1 && p2 && q1 && q2 && (a1 < a2) != (b1 < b2) {
					out[fmt.Sprintf("%s/%s %d->%d", r1.State, r1.Dir, a, b)]++
				}
			}
		}
	}
	return out
}
