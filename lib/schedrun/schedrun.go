// Package schedrun glues engine A (sched) to the vrt runtime: it runs a list of scenarios under
// the preemption bound of the tier, shards each exploration, handles the soft deadline and
// turns recorded violations into replayable choice lists.
package schedrun

import (
	"encoding/json"
	"fmt"
	"time"

	"go.minekube.com/gate/pkg/edition/java/proxy/zzverif/sched"
	"go.minekube.com/gate/pkg/edition/java/proxy/zzverif/vrt"
)

type Scenario struct {
	Name     string
	Quick    int   // preemption bound for the quick tier (-1 = unbounded)
	Thorough int   // preemption bound for the thorough tier
	MaxExec  int64 // optional cap per shard (0 = none)
	Body     func(x *sched.X)
}

// Run explores every scenario. Each exploration is sharded across the driver's processes on
// depth-2 subtrees of the schedule tree.
func Run(r *vrt.R, scs []Scenario) {
	var rp sched.ReplayData
	if r.ReplayInto(&rp) {
		for _, s := range scs {
			if s.Name != rp.Scenario {
				continue
			}
			fails, trace := sched.Replay(sched.Options{Bound: rp.Bound}, rp.Choices, s.Body)
			r.Eval(1)
			for _, f := range fails {
				r.Violation(s.Name+"/"+f.Key, fmt.Sprintf("%s\ntrace:\n%s", f.Desc, joinTrace(trace)), rp)
			}
			return
		}
		r.T.Fatalf("replay: unknown scenario %q", rp.Scenario)
	}
	for _, s := range scs {
		if r.Expired() {
			r.NotExhaustive("scenario " + s.Name + " not started: soft deadline")
			continue
		}
		bound := s.Quick
		if r.Thorough() {
			bound = s.Thorough
		}
		opt := sched.Options{Bound: bound, Shard: r.Shard, NShards: r.NShards, MaxExec: s.MaxExec, Deadline: deadlineOf(r)}
		t0 := time.Now()
		res := sched.Explore(opt, s.Body)
		res.Merge(r, s.Name, bound)
		if r.Shard == 0 {
			r.Note(fmt.Sprintf("%s: bound=%d executions=%d decisions=%d outcomes=%d exhaustive=%v %.1fs", s.Name, bound, res.Executions, res.Decisions, len(res.Outcomes), res.Exhaustive, time.Since(t0).Seconds()))
		}
	}
}

func joinTrace(t []string) string {
	s := ""
	for i, l := range t {
		if i > 400 {
			s += "…\n"
			break
		}
		s += l + "\n"
	}
	return s
}

var _ = json.Marshal

func deadlineOf(r *vrt.R) time.Time { return r.DeadlineTime() }
