// Package vsync is a drop-in replacement for package sync used by instrumented copies of repo
// files. Outside a sched execution every type behaves exactly like the real primitive (it
// delegates to it); inside one, blocking is modelled (a blocked thread is disabled) and every
// operation is a scheduling point.
package vsync

import (
	"fmt"
	"sync"

	"go.minekube.com/gate/pkg/edition/java/proxy/zzverif/sched"
)

type Locker = sync.Locker

// ---------------- Mutex ----------------

type Mutex struct {
	mu    sync.Mutex
	held  bool
	owner int
}

func (m *Mutex) String() string { return fmt.Sprintf("Mutex@%p", m) }

func (m *Mutex) Lock() {
	x := sched.Active()
	if x == nil {
		m.mu.Lock()
		m.held = true
		return
	}
	x.Wait("Lock", m, func() bool { return !m.held })
	m.held, m.owner = true, x.CurID()
}

func (m *Mutex) TryLock() bool {
	x := sched.Active()
	if x == nil {
		if m.mu.TryLock() {
			m.held = true
			return true
		}
		return false
	}
	x.Wait("TryLock", m, nil)
	if m.held {
		return false
	}
	m.held, m.owner = true, x.CurID()
	return true
}

func (m *Mutex) Unlock() {
	x := sched.Active()
	if x == nil {
		m.held = false
		m.mu.Unlock()
		return
	}
	if x.Aborting() {
		m.held = false
		return
	}
	if !m.held {
		panic("vsync: unlock of unlocked mutex")
	}
	m.held = false
	x.Wait("Unlock", m, nil)
}

// Held reports whether the mutex is held (for invariants evaluated at scheduling points).
func (m *Mutex) Held() bool { return m.held }

// ---------------- RWMutex ----------------

type RWMutex struct {
	mu       sync.RWMutex
	w        bool
	r        int
	wWaiting int
}

func (m *RWMutex) String() string { return fmt.Sprintf("RWMutex@%p", m) }

func (m *RWMutex) Lock() {
	x := sched.Active()
	if x == nil {
		m.mu.Lock()
		m.w = true
		return
	}
	// like the real RWMutex a pending writer blocks new readers (this is what turns a
	// recursive read lock into a deadlock)
	m.wWaiting++
	ok := false
	defer func() {
		if !ok {
			m.wWaiting--
		}
	}()
	x.Wait("Lock", m, func() bool { return !m.w && m.r == 0 })
	ok = true
	m.wWaiting--
	m.w = true
}

func (m *RWMutex) TryLock() bool {
	x := sched.Active()
	if x == nil {
		if m.mu.TryLock() {
			m.w = true
			return true
		}
		return false
	}
	x.Wait("TryLock", m, nil)
	if m.w || m.r > 0 {
		return false
	}
	m.w = true
	return true
}

func (m *RWMutex) Unlock() {
	x := sched.Active()
	if x == nil {
		m.w = false
		m.mu.Unlock()
		return
	}
	if x.Aborting() {
		m.w = false
		return
	}
	if !m.w {
		panic("vsync: Unlock of unlocked RWMutex")
	}
	m.w = false
	x.Wait("Unlock", m, nil)
}

func (m *RWMutex) RLock() {
	x := sched.Active()
	if x == nil {
		m.mu.RLock()
		return
	}
	x.Wait("RLock", m, func() bool { return !m.w && m.wWaiting == 0 })
	m.r++
}

func (m *RWMutex) TryRLock() bool {
	x := sched.Active()
	if x == nil {
		return m.mu.TryRLock()
	}
	x.Wait("TryRLock", m, nil)
	if m.w || m.wWaiting > 0 {
		return false
	}
	m.r++
	return true
}

func (m *RWMutex) RUnlock() {
	x := sched.Active()
	if x == nil {
		m.mu.RUnlock()
		return
	}
	if x.Aborting() {
		if m.r > 0 {
			m.r--
		}
		return
	}
	if m.r <= 0 {
		panic("vsync: RUnlock of unlocked RWMutex")
	}
	m.r--
	x.Wait("RUnlock", m, nil)
}

func (m *RWMutex) RLocker() Locker { return (*rlocker)(m) }

type rlocker RWMutex

func (r *rlocker) Lock()   { (*RWMutex)(r).RLock() }
func (r *rlocker) Unlock() { (*RWMutex)(r).RUnlock() }

// Free reports whether nobody holds the lock in any mode.
func (m *RWMutex) Free() bool { return !m.w && m.r == 0 }

// WriteHeld reports whether the write lock is held.
func (m *RWMutex) WriteHeld() bool { return m.w }

// ---------------- Once ----------------

type Once struct {
	once    sync.Once
	done    bool
	running bool
}

func (o *Once) String() string { return fmt.Sprintf("Once@%p", o) }

func (o *Once) Do(f func()) {
	x := sched.Active()
	if x == nil {
		o.once.Do(func() {
			if o.done {
				return
			}
			defer func() { o.done = true }()
			f()
		})
		return
	}
	// callers block while the first call runs; a re-entrant Do is a real deadlock
	x.Wait("Once.Do", o, func() bool { return !o.running })
	if o.done {
		return
	}
	o.running = true
	defer func() { o.running, o.done = false, true }()
	f()
}

func OnceFunc(f func()) func() {
	var o Once
	return func() { o.Do(f) }
}

func OnceValue[T any](f func() T) func() T {
	var o Once
	var v T
	return func() T {
		o.Do(func() { v = f() })
		return v
	}
}

func OnceValues[T1, T2 any](f func() (T1, T2)) func() (T1, T2) {
	var o Once
	var v1 T1
	var v2 T2
	return func() (T1, T2) {
		o.Do(func() { v1, v2 = f() })
		return v1, v2
	}
}

// ---------------- WaitGroup ----------------

type WaitGroup struct {
	wg sync.WaitGroup
	n  int
}

func (w *WaitGroup) String() string { return fmt.Sprintf("WaitGroup@%p", w) }

func (w *WaitGroup) Add(d int) {
	x := sched.Active()
	if x == nil {
		w.wg.Add(d)
		return
	}
	if !x.Aborting() {
		x.Wait("WaitGroup.Add", w, nil)
	}
	w.n += d
	if w.n < 0 {
		panic("vsync: negative WaitGroup counter")
	}
}
func (w *WaitGroup) Done() { w.Add(-1) }
func (w *WaitGroup) Wait() {
	x := sched.Active()
	if x == nil {
		w.wg.Wait()
		return
	}
	x.Wait("WaitGroup.Wait", w, func() bool { return w.n == 0 })
}
func (w *WaitGroup) Go(f func()) {
	x := sched.Active()
	if x == nil {
		w.wg.Add(1)
		go func() { defer w.wg.Done(); f() }()
		return
	}
	w.n++
	sched.Go(func() { defer w.Done(); f() })
}

// ---------------- Cond ----------------

type Cond struct {
	L       Locker
	c       *sync.Cond
	tickets int // tickets handed to waiters
	woken   int // tickets released by Signal/Broadcast
}

func NewCond(l Locker) *Cond { return &Cond{L: l, c: sync.NewCond(l)} }

func (c *Cond) Wait() {
	x := sched.Active()
	if x == nil {
		c.c.Wait()
		return
	}
	my := c.tickets
	c.tickets++
	c.L.Unlock()
	x.Wait("Cond.Wait", c, func() bool { return c.woken > my })
	c.L.Lock()
}
func (c *Cond) Signal() {
	x := sched.Active()
	if x == nil {
		c.c.Signal()
		return
	}
	if !x.Aborting() {
		x.Wait("Cond.Signal", c, nil)
	}
	if c.woken < c.tickets {
		c.woken++
	}
}
func (c *Cond) Broadcast() {
	x := sched.Active()
	if x == nil {
		c.c.Broadcast()
		return
	}
	if !x.Aborting() {
		x.Wait("Cond.Broadcast", c, nil)
	}
	c.woken = c.tickets
}

// ---------------- Map ----------------

// Map wraps sync.Map; each operation is atomic and preceded by a scheduling point. Range
// iterates a snapshot (sync.Map's own Range is weakly consistent; iteration order follows
// insertion order of a side list so that executions are deterministic).
type Map struct {
	m    sync.Map
	mu   sync.Mutex
	keys []any
}

func pt(kind string, o any) {
	if x := sched.Active(); x != nil && !x.Aborting() {
		x.Wait(kind, o, nil)
	}
}

func (m *Map) track(k any) {
	m.mu.Lock()
	for _, e := range m.keys {
		if e == k {
			m.mu.Unlock()
			return
		}
	}
	m.keys = append(m.keys, k)
	m.mu.Unlock()
}
func (m *Map) untrack(k any) {
	m.mu.Lock()
	for i, e := range m.keys {
		if e == k {
			m.keys = append(m.keys[:i:i], m.keys[i+1:]...)
			break
		}
	}
	m.mu.Unlock()
}

func (m *Map) Load(k any) (any, bool) { pt("Map.Load", m); return m.m.Load(k) }
func (m *Map) Store(k, v any)         { pt("Map.Store", m); m.track(k); m.m.Store(k, v) }
func (m *Map) Delete(k any)           { pt("Map.Delete", m); m.untrack(k); m.m.Delete(k) }
func (m *Map) Clear()                 { pt("Map.Clear", m); m.mu.Lock(); m.keys = nil; m.mu.Unlock(); m.m.Clear() }
func (m *Map) LoadOrStore(k, v any) (any, bool) {
	pt("Map.LoadOrStore", m)
	a, loaded := m.m.LoadOrStore(k, v)
	if !loaded {
		m.track(k)
	}
	return a, loaded
}
func (m *Map) LoadAndDelete(k any) (any, bool) {
	pt("Map.LoadAndDelete", m)
	m.untrack(k)
	return m.m.LoadAndDelete(k)
}
func (m *Map) Swap(k, v any) (any, bool) { pt("Map.Swap", m); m.track(k); return m.m.Swap(k, v) }
func (m *Map) CompareAndSwap(k, o, n any) bool {
	pt("Map.CompareAndSwap", m)
	return m.m.CompareAndSwap(k, o, n)
}
func (m *Map) CompareAndDelete(k, o any) bool {
	pt("Map.CompareAndDelete", m)
	ok := m.m.CompareAndDelete(k, o)
	if ok {
		m.untrack(k)
	}
	return ok
}
func (m *Map) Range(f func(k, v any) bool) {
	pt("Map.Range", m)
	m.mu.Lock()
	ks := append([]any{}, m.keys...)
	m.mu.Unlock()
	for _, k := range ks {
		v, ok := m.m.Load(k)
		if !ok {
			continue
		}
		if !f(k, v) {
			return
		}
		pt("Map.Range.next", m)
	}
}

// ---------------- Pool ----------------

// Pool is deterministic under the scheduler: a per-execution LIFO free list (so that reuse
// of a pooled object across operations of one execution is exercised), the real pool otherwise.
type Pool struct {
	New func() any
	p   sync.Pool
}

type poolList struct{ items []any }

func (p *Pool) Get() any {
	x := sched.Active()
	if x == nil {
		if v := p.p.Get(); v != nil {
			return v
		}
		if p.New != nil {
			return p.New()
		}
		return nil
	}
	l := x.Value(p, func() any { return &poolList{} }).(*poolList)
	if n := len(l.items); n > 0 {
		v := l.items[n-1]
		l.items = l.items[:n-1]
		return v
	}
	if p.New != nil {
		return p.New()
	}
	return nil
}

func (p *Pool) Put(v any) {
	x := sched.Active()
	if x == nil {
		p.p.Put(v)
		return
	}
	l := x.Value(p, func() any { return &poolList{} }).(*poolList)
	l.items = append(l.items, v)
}
