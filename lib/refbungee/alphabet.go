package refbungee

import (
	"encoding/hex"
	"fmt"
	"strings"
)

// Alphabets shared by the C26 passes: proxy states and BungeeCord requests.

// ---- proxy states ----

// Servers: lobby, game and hub; hub is never populated (an empty server).

func BaseServers() []Server {
	return []Server{
		{Name: "lobby", Host: "10.0.1.1", Port: 25565},
		{Name: "game", Host: "10.0.1.2", Port: 25566},
		{Name: "hub", Host: "10.0.1.3", Port: 40000}, // port > 32767: ServerIP writes it as a short
	}
}

var PlayerDefs = []Player{
	{Name: "Alice", UUID: "11111111222233334444555555555555", Host: "10.9.0.1", Port: 50001},
	{Name: "bob", UUID: "aaaaaaaabbbbccccddddeeeeeeeeeeee", Host: "10.9.0.2", Port: 65535},
	{Name: "Carol", UUID: "0123456789abcdef0123456789abcdef", Host: "192.168.7.3", Port: 1024},
	{Name: "dave", UUID: "ffffffffffffffffffffffffffffffff", Host: "10.9.0.4", Port: 2},
}

// states: every assignment of nPlayers players to {none, lobby, game} x protocol era of every
// player's backend connection (requester: both; others: opposite of the requester so that a response on the
// wrong connection also shows as a wrong channel id).
func States(nPlayers int) []State {
	var out []State
	place := []string{"", "lobby", "game"}
	n := 1
	for i := 0; i < nPlayers; i++ {
		n *= len(place)
	}
	for code := 0; code < n; code++ {
		for _, modern := range []bool{true, false} {
			st := State{Servers: BaseServers()}
			c := code
			for i := 0; i < nPlayers; i++ {
				p := PlayerDefs[i]
				p.Server = place[c%len(place)]
				c /= len(place)
				p.Modern = modern == (i%2 == 0)
				st.Players = append(st.Players, p)
			}
			out = append(out, st)
		}
	}
	return out
}

// ---- request alphabet ----

type Request struct {
	Label   string
	Payload []byte
}

func ForwardBody(ch string, n int) []byte {
	data := make([]byte, n)
	for i := range data {
		data[i] = byte(i*37 + 1)
	}
	return Cat(UTF(ch), Short(n), data)
}

// Requests returns the request alphabet; withPrefixes adds every strict prefix of every request <= 80 bytes.
func Requests(thorough, withPrefixes bool) []Request {
	var out []Request
	add := func(label string, parts ...[]byte) { out = append(out, Request{label, Cat(parts...)}) }
	players := []string{"Alice", "bob", "Carol", "BOB", "alice", "nobody", "", "ALL", "lobby"}
	servers := []string{"lobby", "game", "hub", "LOBBY", "nowhere", "", "ALL", "all", "ONLINE", "online", "bob"}
	chans := []string{"ch", "my:channel", ""}
	lens := []int{0, 1, 5, 300}
	if thorough {
		players = append(players, "dave", "CAROL", "Bob ", "game")
		servers = append(servers, "Game", "HUB", "All", "Online", "lobby ")
		chans = append(chans, "BungeeCord", strings.Repeat("c", 70))
		lens = append(lens, 2, 127, 128, 255, 256, 32767)
	}
	for _, sub := range []string{"IP", "UUID", "GetServers", "GetServer"} {
		add(sub, UTF(sub))
		add(sub+"+trailing", UTF(sub), UTF("ignored"))
	}
	for _, sub := range []string{"IPOther", "UUIDOther", "GetPlayerServer"} {
		for _, p := range players {
			add(sub+" "+p, UTF(sub), UTF(p))
		}
	}
	for _, sub := range []string{"PlayerCount", "PlayerList", "ServerIP", "Connect"} {
		for _, s := range servers {
			add(sub+" "+s, UTF(sub), UTF(s))
		}
	}
	for _, p := range players {
		for _, s := range servers {
			add("ConnectOther "+p+" "+s, UTF("ConnectOther"), UTF(p), UTF(s))
		}
	}
	for _, p := range append(append([]string{}, players...), "game") {
		for _, m := range []string{"hi", "§chi §lthere", ""} {
			add("Message "+p+" "+m, UTF("Message"), UTF(p), UTF(m))
			add("KickPlayer "+p+" "+m, UTF("KickPlayer"), UTF(p), UTF(m))
		}
		for _, m := range []string{`{"text":"hi"}`, `{"text":""}`, `not json`} {
			add("MessageRaw "+p+" "+m, UTF("MessageRaw"), UTF(p), UTF(m))
			add("KickPlayerRaw "+p+" "+m, UTF("KickPlayerRaw"), UTF(p), UTF(m))
		}
	}
	for _, ch := range chans {
		for _, n := range lens {
			for _, s := range servers {
				add(fmt.Sprintf("Forward %s %q %d", s, ch, n), UTF("Forward"), UTF(s), ForwardBody(ch, n))
			}
			for _, p := range players {
				add(fmt.Sprintf("ForwardToPlayer %s %q %d", p, ch, n), UTF("ForwardToPlayer"), UTF(p), ForwardBody(ch, n))
			}
		}
	}
	if !thorough {
		// the largest body the signed 16-bit length field admits (thorough has it for every target)
		add(`Forward ALL "ch" 32767`, UTF("Forward"), UTF("ALL"), ForwardBody("ch", 32767))
		add(`Forward game "ch" 32767`, UTF("Forward"), UTF("game"), ForwardBody("ch", 32767))
		add(`ForwardToPlayer bob "ch" 32767`, UTF("ForwardToPlayer"), UTF("bob"), ForwardBody("ch", 32767))
	}
	// inner length field that is negative as a Java short / disagrees with the data that follows
	for _, raw := range [][]byte{{0xFF, 0xFF}, {0x80, 0x00}, {0x00, 0x09, 1, 2}, {0x00, 0x01, 1, 2, 3}} {
		add("Forward ALL badlen "+hex.EncodeToString(raw), UTF("Forward"), UTF("ALL"), UTF("ch"), raw)
		add("Forward game badlen "+hex.EncodeToString(raw), UTF("Forward"), UTF("game"), UTF("ch"), raw)
		add("ForwardToPlayer bob badlen "+hex.EncodeToString(raw), UTF("ForwardToPlayer"), UTF("bob"), UTF("ch"), raw)
	}
	add("unknown sub-channel", UTF("NoSuchSubChannel"), UTF("x"))
	add("empty sub-channel", UTF(""))
	add("empty payload")
	// every strict prefix of every request above (duplicates removed below)
	n := len(out)
	if !withPrefixes {
		n = 0
	}
	for i := 0; i < n; i++ {
		p := out[i].Payload
		if len(p) > 80 {
			continue // long data bodies: the prefixes inside the body add nothing
		}
		for k := 0; k < len(p); k++ {
			out = append(out, Request{Label: fmt.Sprintf("%s | prefix %d/%d", out[i].Label, k, len(p)), Payload: p[:k]})
		}
	}
	seen := map[string]bool{}
	uniq := out[:0]
	for _, r := range out {
		k := string(r.Payload)
		if seen[k] {
			continue
		}
		seen[k] = true
		uniq = append(uniq, r)
	}
	return uniq
}

// Describe renders a state compactly: Name@server(era) ... requester=first player.
func Describe(st *State) string {
	var sb strings.Builder
	for i, p := range st.Players {
		if i > 0 {
			sb.WriteString(" ")
		}
		srv := p.Server
		if srv == "" {
			srv = "-"
		}
		era := "legacy"
		if p.Modern {
			era = "modern"
		}
		fmt.Fprintf(&sb, "%s@%s(%s)", p.Name, srv, era)
	}
	return sb.String() + " requester=" + st.Players[0].Name
}
