// Package refbungee is the reference semantics of the BungeeCord plugin messaging channel as ported by
// Velocity (com.velocitypowered.proxy.connection.backend.BungeeCordMessageResponder), written from that
// class — NOT from Gate's implementation. It is a pure function from an abstract proxy state and a request
// payload to the list of effects the request must have.
//
// What is deliberately left undefined (Eval returns defined=false, harnesses assert "no panic" only):
//   - truncated / malformed arguments (Velocity throws inside the Netty handler, BungeeCord throws too; what
//     the backend connection then sees is not part of the plugin-channel contract),
//   - unknown sub-channels (ignored by both),
//   - Forward / ForwardToPlayer payloads whose inner length field disagrees with the bytes that follow
//     (Velocity forwards the rest of the buffer raw, BungeeCord re-frames; they only agree on well-formed
//     payloads),
//   - KickPlayerRaw / MessageRaw with text that is not valid component JSON.
//
// Semantics relied upon (all from Velocity's responder):
//   - player lookup and server lookup by name are case-insensitive, the literals "ALL" / "ONLINE" are
//     case-SENSITIVE (String.equals);
//   - responses to IP, IPOther, UUID, UUIDOther, PlayerCount, PlayerList, GetServers, GetServer, ServerIP and
//     GetPlayerServer go to the REQUESTER's current backend connection (sendResponseOnConnection); the
//     ForwardToPlayer payload goes to the NAMED player's current backend connection;
//   - the plugin channel of a response is "bungeecord:main" if that backend connection speaks >= 1.13,
//     else "BungeeCord";
//   - Forward: target "ALL"/"ONLINE" = every registered server except the requester's current one, otherwise
//     the named server (even if it is the requester's own); RegisteredServer.sendPluginMessage delivers the
//     payload ONCE per server through one player's backend connection and drops it when the server is empty;
//   - the forwarded payload is the rest of the request after the target, byte for byte:
//     UTF(channel) short(len) data;
//   - Message/MessageRaw: target "ALL" = every online player, otherwise the named PLAYER;
//   - GetPlayerServer answers with the NAMED player's current server, nothing if that player has none;
//   - unknown players / servers: no effect at all.
package refbungee

import (
	"encoding/binary"
	"encoding/hex"
	"fmt"
	"sort"
	"strings"
)

type Player struct {
	Name   string
	UUID   string // undashed hex
	Host   string // textual IP of the client's remote address
	Port   int
	Server string // registered name of the current server, "" = none
	Modern bool   // the player's backend connection speaks >= 1.13
}

type Server struct {
	Name string
	Host string
	Port int
}

type State struct {
	Players []Player
	Servers []Server
}

func (s *State) Clone() State {
	return State{Players: append([]Player(nil), s.Players...), Servers: append([]Server(nil), s.Servers...)}
}

func (s *State) player(name string) *Player {
	for i := range s.Players {
		if strings.EqualFold(s.Players[i].Name, name) {
			return &s.Players[i]
		}
	}
	return nil
}

func (s *State) server(name string) *Server {
	for i := range s.Servers {
		if strings.EqualFold(s.Servers[i].Name, name) {
			return &s.Servers[i]
		}
	}
	return nil
}

func (s *State) on(server string) []string {
	var out []string
	for _, p := range s.Players {
		if p.Server == server {
			out = append(out, p.Name)
		}
	}
	return out
}

const (
	Response = "response" // Data written as a plugin message on Channel to the backend connection of Player
	Forward  = "forward"  // Data delivered once to backend Server
	Connect  = "connect"  // Player is sent to Server
	Kick     = "kick"     // Player is disconnected with plain text Text
	Chat     = "chat"     // Player receives chat message with plain text Text
)

type Effect struct {
	Kind    string
	Player  string
	Server  string
	Channel string
	Data    []byte
	Text    string
}

const (
	LegacyChannel = "BungeeCord"
	ModernChannel = "bungeecord:main"
)

func channelFor(p *Player) string {
	if p.Modern {
		return ModernChannel
	}
	return LegacyChannel
}

// ---- wire helpers (java.io.DataOutput) ----

func UTF(s string) []byte {
	b := make([]byte, 2, 2+len(s))
	binary.BigEndian.PutUint16(b, uint16(len(s)))
	return append(b, s...)
}
func Short(v int) []byte { return []byte{byte(v >> 8), byte(v)} }
func Int(v int) []byte   { return []byte{byte(v >> 24), byte(v >> 16), byte(v >> 8), byte(v)} }
func Cat(parts ...[]byte) []byte {
	var out []byte
	for _, p := range parts {
		out = append(out, p...)
	}
	return out
}

type reader struct {
	b   []byte
	bad bool
}

func (r *reader) utf() string {
	if r.bad || len(r.b) < 2 {
		r.bad = true
		return ""
	}
	n := int(binary.BigEndian.Uint16(r.b))
	if len(r.b) < 2+n {
		r.bad = true
		return ""
	}
	s := string(r.b[2 : 2+n])
	r.b = r.b[2+n:]
	return s
}

// wellFormedForward reports whether b is exactly UTF(channel) short(len>=0) data[len].
func wellFormedForward(b []byte) bool {
	r := reader{b: b}
	r.utf()
	if r.bad || len(r.b) < 2 {
		return false
	}
	n := int(int16(binary.BigEndian.Uint16(r.b)))
	return n >= 0 && len(r.b) == 2+n
}

// PlainOfLegacy strips '§x' formatting codes: the plain text of a legacy-section deserialised component.
func PlainOfLegacy(s string) string {
	rs := []rune(s)
	var out []rune
	for i := 0; i < len(rs); i++ {
		if rs[i] == '§' && i+1 < len(rs) && strings.ContainsRune("0123456789abcdefklmnorABCDEFKLMNOR", rs[i+1]) {
			i++
			continue
		}
		out = append(out, rs[i])
	}
	return string(out)
}

// plainOfJSON understands exactly the JSON texts the harness alphabets use: {"text":"..."} without escapes.
func plainOfJSON(s string) (string, bool) {
	const pre, suf = `{"text":"`, `"}`
	if strings.HasPrefix(s, pre) && strings.HasSuffix(s, suf) {
		in := s[len(pre) : len(s)-len(suf)]
		if !strings.ContainsAny(in, `"\`) {
			return in, true
		}
	}
	return "", false
}

// Eval returns the effects the request must have. class is the equivalence class of the request
// ("<SubChannel>[<argument class>]"), used in violation keys and evidence. defined=false: see package doc.
func Eval(st *State, requester string, payload []byte) (effects []Effect, class string, defined bool) {
	me := st.player(requester)
	if me == nil {
		return nil, "no-requester", false
	}
	in := reader{b: payload}
	sub := in.utf()
	if in.bad {
		return nil, "malformed[sub-channel]", false
	}
	respond := func(data []byte) {
		// sendResponseOnConnection: needs the requester's current backend connection.
		if me.Server == "" {
			return
		}
		effects = append(effects, Effect{Kind: Response, Player: me.Name, Server: me.Server, Channel: channelFor(me), Data: data})
	}
	playerClass := func(name string, p *Player) string {
		switch {
		case p == nil:
			return "player=unknown"
		case p.Name == me.Name:
			if name != p.Name {
				return "player=self-othercase"
			}
			return "player=self"
		case name != p.Name:
			return "player=other-othercase"
		case p.Server == "":
			return "player=other-noserver"
		case p.Server == me.Server:
			return "player=other-sameserver"
		default:
			return "player=other"
		}
	}
	serverClass := func(name string, s *Server) string {
		switch {
		case s == nil:
			return "server=unknown"
		case name != s.Name:
			return "server=known-othercase"
		case s.Name == me.Server:
			return "server=current"
		case len(st.on(s.Name)) == 0:
			return "server=empty"
		default:
			return "server=known"
		}
	}
	malformed := func() ([]Effect, string, bool) { return nil, sub + "[malformed]", false }

	switch sub {
	case "ForwardToPlayer":
		name := in.utf()
		if in.bad || !wellFormedForward(in.b) {
			return malformed()
		}
		p := st.player(name)
		class = sub + "[" + playerClass(name, p) + "]"
		if p != nil && p.Server != "" {
			effects = append(effects, Effect{Kind: Response, Player: p.Name, Server: p.Server, Channel: channelFor(p), Data: append([]byte(nil), in.b...)})
		}
		// p online without a server: Velocity throws IllegalStateException -> nothing is delivered.
		return effects, class, true

	case "Forward":
		target := in.utf()
		if in.bad || !wellFormedForward(in.b) {
			return malformed()
		}
		data := append([]byte(nil), in.b...)
		if target == "ALL" || target == "ONLINE" {
			class = sub + "[target=" + target + "]"
			for _, s := range st.Servers {
				if s.Name == me.Server {
					continue
				}
				if len(st.on(s.Name)) > 0 {
					effects = append(effects, Effect{Kind: Forward, Server: s.Name, Data: data})
				}
			}
			return effects, class, true
		}
		s := st.server(target)
		class = sub + "[" + serverClass(target, s) + "]"
		if s == nil && (strings.EqualFold(target, "ALL") || strings.EqualFold(target, "ONLINE")) {
			class = sub + "[target=" + strings.ToUpper(target) + "-othercase]"
		}
		if s != nil && len(st.on(s.Name)) > 0 {
			effects = append(effects, Effect{Kind: Forward, Server: s.Name, Data: data})
		}
		return effects, class, true

	case "Connect":
		name := in.utf()
		if in.bad {
			return malformed()
		}
		s := st.server(name)
		class = sub + "[" + serverClass(name, s) + "]"
		if s != nil {
			effects = append(effects, Effect{Kind: Connect, Player: me.Name, Server: s.Name})
		}
		return effects, class, true

	case "ConnectOther":
		pn := in.utf()
		sn := in.utf()
		if in.bad {
			return malformed()
		}
		p, s := st.player(pn), st.server(sn)
		class = sub + "[" + playerClass(pn, p) + "," + serverClass(sn, s) + "]"
		if p != nil && s != nil {
			effects = append(effects, Effect{Kind: Connect, Player: p.Name, Server: s.Name})
		}
		return effects, class, true

	case "IP":
		respond(Cat(UTF("IP"), UTF(me.Host), Int(me.Port)))
		return effects, sub + "[]", true

	case "IPOther":
		name := in.utf()
		if in.bad {
			return malformed()
		}
		p := st.player(name)
		class = sub + "[" + playerClass(name, p) + "]"
		if p != nil {
			respond(Cat(UTF("IPOther"), UTF(p.Name), UTF(p.Host), Int(p.Port)))
		}
		return effects, class, true

	case "UUID":
		respond(Cat(UTF("UUID"), UTF(me.UUID)))
		return effects, sub + "[]", true

	case "UUIDOther":
		name := in.utf()
		if in.bad {
			return malformed()
		}
		p := st.player(name)
		class = sub + "[" + playerClass(name, p) + "]"
		if p != nil {
			respond(Cat(UTF("UUIDOther"), UTF(p.Name), UTF(p.UUID)))
		}
		return effects, class, true

	case "PlayerCount":
		target := in.utf()
		if in.bad {
			return malformed()
		}
		if target == "ALL" {
			respond(Cat(UTF("PlayerCount"), UTF("ALL"), Int(len(st.Players))))
			return effects, sub + "[target=ALL]", true
		}
		s := st.server(target)
		class = sub + "[" + serverClass(target, s) + "]"
		if s == nil && strings.EqualFold(target, "ALL") {
			class = sub + "[target=ALL-othercase]"
		}
		if s != nil {
			respond(Cat(UTF("PlayerCount"), UTF(s.Name), Int(len(st.on(s.Name)))))
		}
		return effects, class, true

	case "PlayerList":
		target := in.utf()
		if in.bad {
			return malformed()
		}
		if target == "ALL" {
			var names []string
			for _, p := range st.Players {
				names = append(names, p.Name)
			}
			respond(Cat(UTF("PlayerList"), UTF("ALL"), UTF(strings.Join(names, ", "))))
			return effects, sub + "[target=ALL]", true
		}
		s := st.server(target)
		class = sub + "[" + serverClass(target, s) + "]"
		if s == nil && strings.EqualFold(target, "ALL") {
			class = sub + "[target=ALL-othercase]"
		}
		if s != nil {
			respond(Cat(UTF("PlayerList"), UTF(s.Name), UTF(strings.Join(st.on(s.Name), ", "))))
		}
		return effects, class, true

	case "GetServers":
		var names []string
		for _, s := range st.Servers {
			names = append(names, s.Name)
		}
		respond(Cat(UTF("GetServers"), UTF(strings.Join(names, ", "))))
		return effects, sub + "[]", true

	case "GetServer":
		if me.Server != "" {
			respond(Cat(UTF("GetServer"), UTF(me.Server)))
		}
		return effects, sub + "[]", true

	case "Message", "MessageRaw":
		target := in.utf()
		msg := in.utf()
		if in.bad {
			return malformed()
		}
		var text string
		if sub == "Message" {
			text = PlainOfLegacy(msg)
		} else {
			var ok bool
			if text, ok = plainOfJSON(msg); !ok {
				return malformed()
			}
		}
		if target == "ALL" {
			for _, p := range st.Players {
				effects = append(effects, Effect{Kind: Chat, Player: p.Name, Text: text})
			}
			return effects, sub + "[target=ALL]", true
		}
		p := st.player(target)
		class = sub + "[" + playerClass(target, p) + "]"
		if p == nil {
			if s := st.server(target); s != nil {
				// a server name is NOT a valid Message target: it names no player
				class = sub + "[player=unknown,is-server-name]"
			}
		}
		if p != nil {
			effects = append(effects, Effect{Kind: Chat, Player: p.Name, Text: text})
		}
		return effects, class, true

	case "ServerIP":
		name := in.utf()
		if in.bad {
			return malformed()
		}
		s := st.server(name)
		class = sub + "[" + serverClass(name, s) + "]"
		if s != nil {
			respond(Cat(UTF("ServerIP"), UTF(s.Name), UTF(s.Host), Short(s.Port)))
		}
		return effects, class, true

	case "KickPlayer", "KickPlayerRaw":
		name := in.utf()
		if in.bad {
			return malformed()
		}
		p := st.player(name)
		class = sub + "[" + playerClass(name, p) + "]"
		if p == nil {
			return nil, class, true
		}
		reason := in.utf()
		if in.bad {
			return malformed()
		}
		var text string
		if sub == "KickPlayer" {
			text = PlainOfLegacy(reason)
		} else {
			var ok bool
			if text, ok = plainOfJSON(reason); !ok {
				return malformed()
			}
		}
		effects = append(effects, Effect{Kind: Kick, Player: p.Name, Text: text})
		return effects, class, true

	case "GetPlayerServer":
		name := in.utf()
		if in.bad {
			return malformed()
		}
		p := st.player(name)
		class = sub + "[" + playerClass(name, p) + "]"
		if p != nil && p.Server != "" {
			respond(Cat(UTF("GetPlayerServer"), UTF(p.Name), UTF(p.Server)))
		}
		return effects, class, true
	}
	return nil, "unknown-sub-channel", false
}

// Apply returns the state after the effects took place (used by history exploration): connect moves the
// player, kick removes it.
func Apply(st *State, effects []Effect) State {
	n := st.Clone()
	for _, e := range effects {
		switch e.Kind {
		case Connect:
			if p := n.player(e.Player); p != nil {
				p.Server = e.Server
			}
		case Kick:
			for i := range n.Players {
				if n.Players[i].Name == e.Player {
					n.Players = append(n.Players[:i:i], n.Players[i+1:]...)
					break
				}
			}
		}
	}
	return n
}

// NormalizeData makes list-valued responses order-independent (Velocity iterates hash-map views): the
// ", "-joined list of PlayerList / GetServers is sorted. Anything else is returned as hex.
func NormalizeData(data []byte) string {
	r := reader{b: data}
	sub := r.utf()
	if !r.bad {
		switch sub {
		case "PlayerList":
			name, list := r.utf(), r.utf()
			if !r.bad && len(r.b) == 0 {
				return "PlayerList|" + name + "|" + sortList(list)
			}
		case "GetServers":
			list := r.utf()
			if !r.bad && len(r.b) == 0 {
				return "GetServers|" + sortList(list)
			}
		}
	}
	return hex.EncodeToString(data)
}

func sortList(s string) string {
	if s == "" {
		return "{}"
	}
	parts := strings.Split(s, ", ")
	sort.Strings(parts)
	return "{" + strings.Join(parts, ", ") + "}"
}

// String is the canonical form of an effect used for multiset comparison. channelAgnostic forward: the
// identifier handed to the server abstraction may be either id (they are the same channel on the wire).
func (e Effect) String() string {
	switch e.Kind {
	case Response:
		return fmt.Sprintf("response conn=%s@%s channel=%s data=%s", e.Player, e.Server, e.Channel, NormalizeData(e.Data))
	case Forward:
		return fmt.Sprintf("forward server=%s data=%s", e.Server, hex.EncodeToString(e.Data))
	case Connect:
		return fmt.Sprintf("connect player=%s server=%s", e.Player, e.Server)
	case Kick:
		return fmt.Sprintf("kick player=%s text=%q", e.Player, e.Text)
	case Chat:
		return fmt.Sprintf("chat player=%s text=%q", e.Player, e.Text)
	}
	return "?" + e.Kind
}

func Canon(effects []Effect) []string {
	out := make([]string, len(effects))
	for i, e := range effects {
		out[i] = e.String()
	}
	sort.Strings(out)
	return out
}
