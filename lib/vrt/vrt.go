// Package vrt is the runtime shared by every /verif harness: it carries the tier, shard and
// deadline given by the driver (bin/vcheck), collects coverage counters, equivalence classes,
// samples and violations, and writes one JSON result per shard for the driver to merge.
package vrt

import (
	"encoding/json"
	"fmt"
	"hash/fnv"
	"os"
	"sort"
	"strconv"
	"sync"
	"testing"
	"time"
)

type Violation struct {
	Key    string `json:"key"`
	Desc   string `json:"desc"`
	Replay any    `json:"replay,omitempty"`
	Count  int    `json:"count"`
}

type result struct {
	Property    string           `json:"property"`
	Shard       int              `json:"shard"`
	Evaluations int64            `json:"evaluations"`
	Nontrivial  int64            `json:"distinct_nontrivial"`
	States      int64            `json:"states"`
	Transitions int64            `json:"transitions"`
	Traces      int64            `json:"traces_validated_against_impl"`
	Classes     map[string]int64 `json:"classes"`
	Samples     []any            `json:"samples"`
	Violations  []*Violation     `json:"violations"`
	Exhaustive  bool             `json:"exhaustive"`
	Notes       []string         `json:"notes"`
	Extra       map[string]any   `json:"extra"`
	Completed   bool             `json:"completed"`
	Distinct    []uint64         `json:"distinct_hashes"`
	ReplayMode  bool             `json:"replay_mode"`
}

// R is handed to the harness body.
type R struct {
	T        *testing.T
	Tier     string
	Seed     int64
	Shard    int
	NShards  int
	deadline time.Time
	replay   json.RawMessage

	mu      sync.Mutex
	res     result
	vio     map[string]*Violation
	dist    map[uint64]struct{}
	expired bool
}

func envInt(k string, def int) int {
	if v, err := strconv.Atoi(os.Getenv(k)); err == nil {
		return v
	}
	return def
}

// Run executes body and writes the shard result to $VERIF_OUT (or stdout summary when unset).
func Run(t *testing.T, prop string, body func(r *R)) {
	r := &R{T: t, Tier: os.Getenv("VERIF_TIER"), vio: map[string]*Violation{}}
	if r.Tier == "" {
		r.Tier = "quick"
	}
	r.Seed = int64(envInt("VERIF_SEED", 0))
	r.Shard = envInt("VERIF_SHARD", 0)
	r.NShards = envInt("VERIF_NSHARDS", 1)
	if d := envInt("VERIF_DEADLINE_S", 0); d > 0 {
		r.deadline = time.Now().Add(time.Duration(d) * time.Second)
	}
	if p := os.Getenv("VERIF_REPLAY"); p != "" {
		b, err := os.ReadFile(p)
		if err != nil {
			t.Fatalf("replay file: %v", err)
		}
		// the replay file is {"property":..,"key":..,"replay":<data>}
		var f struct {
			Replay json.RawMessage `json:"replay"`
		}
		if err := json.Unmarshal(b, &f); err != nil {
			t.Fatalf("replay file: %v", err)
		}
		r.replay = f.Replay
		r.res.ReplayMode = true
	}
	r.res.Property = prop
	r.res.Shard = r.Shard
	r.res.Exhaustive = true
	r.res.Classes = map[string]int64{}
	r.res.Extra = map[string]any{}
	defer r.flush()
	body(r)
	r.res.Completed = true
}

func (r *R) flush() {
	r.mu.Lock()
	defer r.mu.Unlock()
	keys := make([]string, 0, len(r.vio))
	for k := range r.vio {
		keys = append(keys, k)
	}
	sort.Strings(keys)
	for h := range r.dist {
		r.res.Distinct = append(r.res.Distinct, h)
	}
	r.res.Violations = r.res.Violations[:0]
	for _, k := range keys {
		r.res.Violations = append(r.res.Violations, r.vio[k])
	}
	b, err := json.Marshal(&r.res)
	if err != nil {
		// a sample or replay that does not marshal is a harness bug
		b, _ = json.Marshal(map[string]any{"property": r.res.Property, "marshal_error": err.Error()})
	}
	if out := os.Getenv("VERIF_OUT"); out != "" {
		_ = os.WriteFile(out, b, 0o644)
	} else {
		fmt.Printf("VRT %s\n", b)
	}
}

func (r *R) Quick() bool    { return r.Tier != "thorough" }
func (r *R) Thorough() bool { return r.Tier == "thorough" }

// Mine reports whether work item i belongs to this shard.
func (r *R) Mine(i int) bool { return r.NShards <= 1 || i%r.NShards == r.Shard }

// Replay returns the recorded case when the driver asks for a replay, else nil.
func (r *R) Replay() json.RawMessage { return r.replay }

// ReplayInto unmarshals the replay case into v and reports whether this is a replay run.
func (r *R) ReplayInto(v any) bool {
	if r.replay == nil {
		return false
	}
	if err := json.Unmarshal(r.replay, v); err != nil {
		r.T.Fatalf("replay decode: %v", err)
	}
	return true
}

// Expired reports whether the soft deadline passed; the harness should stop and the run is
// recorded as not exhaustive (never as a violation).
func (r *R) Expired() bool {
	if r.deadline.IsZero() {
		return false
	}
	if r.expired {
		return true
	}
	if time.Now().After(r.deadline) {
		r.mu.Lock()
		r.expired = true
		r.mu.Unlock()
		r.NotExhaustive("soft deadline reached")
		return true
	}
	return false
}

func (r *R) Eval(n int)        { r.mu.Lock(); r.res.Evaluations += int64(n); r.mu.Unlock() }
func (r *R) Nontrivial(n int)  { r.mu.Lock(); r.res.Nontrivial += int64(n); r.mu.Unlock() }
func (r *R) States(n int)      { r.mu.Lock(); r.res.States += int64(n); r.mu.Unlock() }
func (r *R) Transitions(n int) { r.mu.Lock(); r.res.Transitions += int64(n); r.mu.Unlock() }
func (r *R) Traces(n int)      { r.mu.Lock(); r.res.Traces += int64(n); r.mu.Unlock() }

// Class counts one case in an equivalence class; evidence lists every class with its count so
// a reader can see that the interesting shapes were really among the enumerated inputs.
func (r *R) Class(name string)         { r.mu.Lock(); r.res.Classes[name]++; r.mu.Unlock() }
func (r *R) ClassN(name string, n int) { r.mu.Lock(); r.res.Classes[name] += int64(n); r.mu.Unlock() }

// Sample keeps up to 6 samples per shard.
func (r *R) Sample(v any) {
	r.mu.Lock()
	if len(r.res.Samples) < 6 {
		r.res.Samples = append(r.res.Samples, v)
	}
	r.mu.Unlock()
}

func (r *R) NotExhaustive(reason string) {
	r.mu.Lock()
	r.res.Exhaustive = false
	for _, n := range r.res.Notes {
		if n == reason {
			r.mu.Unlock()
			return
		}
	}
	r.res.Notes = append(r.res.Notes, reason)
	r.mu.Unlock()
}

func (r *R) Note(s string) {
	r.mu.Lock()
	if len(r.res.Notes) < 40 {
		r.res.Notes = append(r.res.Notes, s)
	}
	r.mu.Unlock()
}

func (r *R) Extra(k string, v any) { r.mu.Lock(); r.res.Extra[k] = v; r.mu.Unlock() }

// AddExtra adds n to an integer extra counter.
func (r *R) AddExtra(k string, n int64) {
	r.mu.Lock()
	cur, _ := r.res.Extra[k].(int64)
	r.res.Extra[k] = cur + n
	r.mu.Unlock()
}

// Violation records a property violation. key identifies the failing input, call site or
// history in a stable way (it is what known_findings.jsonl matches on); only the first
// occurrence per key keeps its description and replay data, later ones are counted.
func (r *R) Violation(key, desc string, replay any) {
	r.mu.Lock()
	defer r.mu.Unlock()
	if v, ok := r.vio[key]; ok {
		v.Count++
		return
	}
	if len(desc) > 2000 {
		desc = desc[:2000] + "…"
	}
	r.vio[key] = &Violation{Key: key, Desc: desc, Replay: replay, Count: 1}
}

// NViolations returns the number of distinct violation keys so far.
func (r *R) NViolations() int { r.mu.Lock(); defer r.mu.Unlock(); return len(r.vio) }

// Catch runs f and converts a panic into (true, value).
func Catch(f func()) (panicked bool, val any) {
	defer func() {
		if v := recover(); v != nil {
			panicked, val = true, v
		}
	}()
	f()
	return
}

// DeadlineTime returns the soft deadline (zero = none).
func (r *R) DeadlineTime() time.Time { return r.deadline }

// Distinct records a case identity; the driver unions the identities of all shards and adds
// their number to distinct_nontrivial (use it when shards may meet the same case).
func (r *R) Distinct(key string) {
	h := fnv.New64a()
	h.Write([]byte(key))
	r.mu.Lock()
	if r.dist == nil {
		r.dist = map[uint64]struct{}{}
	}
	if len(r.dist) < 200000 {
		r.dist[h.Sum64()] = struct{}{}
	}
	r.mu.Unlock()
}
