package e2e

import (
	"bytes"
	"compress/zlib"
	"errors"
	"fmt"
	"io"
)

// Independent framing (shares no code with /repo): VarInt length prefix, and when compression is
// enabled a VarInt "data length" (0 = not compressed) followed by the (zlib) body.

func PutVarInt(b []byte, v int32) []byte {
	u := uint32(v)
	for u >= 0x80 {
		b = append(b, byte(u)|0x80)
		u >>= 7
	}
	return append(b, byte(u))
}

// GetVarInt returns value, bytes consumed (0 = incomplete, <0 = malformed).
func GetVarInt(b []byte) (int32, int) {
	var u uint32
	for i := 0; i < 5; i++ {
		if i >= len(b) {
			return 0, 0
		}
		u |= uint32(b[i]&0x7F) << (7 * uint(i))
		if b[i]&0x80 == 0 {
			return int32(u), i + 1
		}
	}
	return 0, -1
}

// Frame encodes one packet payload (id + data) for a stream with the given threshold (<0 = off).
func Frame(payload []byte, threshold int) []byte {
	var body []byte
	if threshold >= 0 {
		if len(payload) >= threshold {
			var z bytes.Buffer
			w := zlib.NewWriter(&z)
			w.Write(payload)
			w.Close()
			body = PutVarInt(nil, int32(len(payload)))
			body = append(body, z.Bytes()...)
		} else {
			body = append([]byte{0}, payload...)
		}
	} else {
		body = payload
	}
	return append(PutVarInt(nil, int32(len(body))), body...)
}

// Deframer incrementally splits a byte stream into packet payloads. The threshold can change
// mid-stream (SetCompression): call SetThreshold between frames.
type Deframer struct {
	buf       []byte
	threshold int
}

func NewDeframer() *Deframer { return &Deframer{threshold: -1} }

func (d *Deframer) SetThreshold(t int) { d.threshold = t }
func (d *Deframer) Feed(b []byte)      { d.buf = append(d.buf, b...) }
func (d *Deframer) Pending() int       { return len(d.buf) }

// Next returns the next complete payload, or (nil, nil) when more bytes are needed.
func (d *Deframer) Next() ([]byte, error) {
	l, n := GetVarInt(d.buf)
	if n == 0 {
		return nil, nil
	}
	if n < 0 || l < 0 {
		return nil, errors.New("bad frame length")
	}
	if len(d.buf) < n+int(l) {
		return nil, nil
	}
	body := d.buf[n : n+int(l)]
	d.buf = d.buf[n+int(l):]
	if d.threshold < 0 {
		return append([]byte{}, body...), nil
	}
	dl, m := GetVarInt(body)
	if m <= 0 {
		return nil, errors.New("bad data length")
	}
	if dl == 0 {
		return append([]byte{}, body[m:]...), nil
	}
	zr, err := zlib.NewReader(bytes.NewReader(body[m:]))
	if err != nil {
		return nil, err
	}
	out, err := io.ReadAll(zr)
	if err != nil {
		return nil, err
	}
	if len(out) != int(dl) {
		return nil, fmt.Errorf("inflated %d bytes, claimed %d", len(out), dl)
	}
	return out, nil
}

// SplitID splits a payload into packet id and data.
func SplitID(payload []byte) (int, []byte, error) {
	id, n := GetVarInt(payload)
	if n <= 0 {
		return 0, nil, errors.New("payload without packet id")
	}
	return int(id), payload[n:], nil
}
