// Package e2e holds the pieces of engine D (bubble) shared by the end-to-end harnesses: an
// in-memory net.Conn that is safe inside a testing/synctest bubble, an independent packet
// framer (VarInt length + optional zlib envelope) and small helpers to script a vanilla
// client / backend. The harness injects ONE event at a time, calls synctest.Wait() and then
// inspects what each peer has received: peers are passive buffers, they never block.
package e2e

import (
	"io"
	"net"
	"os"
	"sync"
	"time"
)

// Conn is the proxy-side end of an in-memory connection. Writes by the proxy are appended to
// an unbounded buffer (they never block, so a handler that writes while holding a lock cannot
// wedge synctest.Wait); Reads block on a bubble channel until the harness injects bytes,
// closes the peer side, or the read deadline (fake clock) expires.
type Conn struct {
	mu       sync.Mutex
	in       []byte
	peerEOF  bool
	out      []byte
	closed   bool
	notify   chan struct{}
	rdl      time.Time
	local    net.Addr
	remote   net.Addr
	Writes   int
	failWrite error
}

type Addr struct{ Net, S string }

func (a Addr) Network() string { return a.Net }
func (a Addr) String() string  { return a.S }

// NewConn must be called inside the bubble.
func NewConn(local, remote string) *Conn {
	return &Conn{notify: make(chan struct{}, 1), local: tcpAddr(local), remote: tcpAddr(remote)}
}

func tcpAddr(s string) net.Addr {
	if a, err := net.ResolveTCPAddr("tcp", s); err == nil {
		return a
	}
	return Addr{"tcp", s}
}

func (c *Conn) wake() {
	select {
	case c.notify <- struct{}{}:
	default:
	}
}

func (c *Conn) Read(p []byte) (int, error) {
	for {
		c.mu.Lock()
		if c.closed {
			c.mu.Unlock()
			return 0, net.ErrClosed
		}
		if len(c.in) > 0 {
			n := copy(p, c.in)
			c.in = c.in[n:]
			c.mu.Unlock()
			return n, nil
		}
		if c.peerEOF {
			c.mu.Unlock()
			return 0, io.EOF
		}
		dl := c.rdl
		c.mu.Unlock()
		if dl.IsZero() {
			<-c.notify
			continue
		}
		d := time.Until(dl)
		if d <= 0 {
			return 0, os.ErrDeadlineExceeded
		}
		t := time.NewTimer(d)
		select {
		case <-c.notify:
			t.Stop()
		case <-t.C:
		}
	}
}

func (c *Conn) Write(p []byte) (int, error) {
	c.mu.Lock()
	defer c.mu.Unlock()
	if c.closed {
		return 0, net.ErrClosed
	}
	if c.failWrite != nil {
		return 0, c.failWrite
	}
	c.out = append(c.out, p...)
	c.Writes++
	return len(p), nil
}

func (c *Conn) Close() error {
	c.mu.Lock()
	already := c.closed
	c.closed = true
	c.mu.Unlock()
	c.wake()
	if already {
		return net.ErrClosed
	}
	return nil
}

func (c *Conn) LocalAddr() net.Addr  { return c.local }
func (c *Conn) RemoteAddr() net.Addr { return c.remote }
func (c *Conn) SetDeadline(t time.Time) error {
	return c.SetReadDeadline(t)
}
func (c *Conn) SetReadDeadline(t time.Time) error {
	c.mu.Lock()
	c.rdl = t
	c.mu.Unlock()
	c.wake()
	return nil
}
func (c *Conn) SetWriteDeadline(time.Time) error { return nil }

// ---- harness side ----

// Inject delivers bytes from the peer to the proxy.
func (c *Conn) Inject(b []byte) {
	c.mu.Lock()
	c.in = append(c.in, b...)
	c.mu.Unlock()
	c.wake()
}

// PeerClose makes the proxy's next Read (after buffered data) return io.EOF.
func (c *Conn) PeerClose() {
	c.mu.Lock()
	c.peerEOF = true
	c.mu.Unlock()
	c.wake()
}

// FailWrites makes every later Write by the proxy fail with err.
func (c *Conn) FailWrites(err error) {
	c.mu.Lock()
	c.failWrite = err
	c.mu.Unlock()
}

// Take returns and clears everything the proxy has written so far.
func (c *Conn) Take() []byte {
	c.mu.Lock()
	defer c.mu.Unlock()
	b := c.out
	c.out = nil
	return b
}

// ClosedByProxy reports whether the proxy closed its end.
func (c *Conn) ClosedByProxy() bool {
	c.mu.Lock()
	defer c.mu.Unlock()
	return c.closed
}

// Unread returns how many injected bytes the proxy has not consumed yet.
func (c *Conn) Unread() int {
	c.mu.Lock()
	defer c.mu.Unlock()
	return len(c.in)
}
