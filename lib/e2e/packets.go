package e2e

import (
	"bytes"
	"fmt"

	"go.minekube.com/gate/pkg/edition/java/proto/state"
	"go.minekube.com/gate/pkg/gate/proto"
)

// Encode encodes a packet (id + data) with the repo's own encoder for the given registry cell.
// Scripted peers use it for packets that are not themselves under test.
func Encode(reg *state.Registry, dir proto.Direction, protocol proto.Protocol, p proto.Packet) ([]byte, error) {
	pr := state.FromDirection(dir, reg, protocol)
	id, ok := pr.PacketID(p)
	if !ok {
		return nil, fmt.Errorf("packet %T not registered for %s/%v/%d", p, reg, dir, protocol)
	}
	buf := new(bytes.Buffer)
	buf.Write(PutVarInt(nil, int32(id)))
	ctx := &proto.PacketContext{Direction: dir, Protocol: protocol, PacketID: id, Packet: p}
	if err := p.Encode(ctx, buf); err != nil {
		return nil, err
	}
	return buf.Bytes(), nil
}

// Decode decodes a payload with the repo's registry; unknown ids return (nil, id, data, nil).
func Decode(reg *state.Registry, dir proto.Direction, protocol proto.Protocol, payload []byte) (proto.Packet, int, []byte, error) {
	id, data, err := SplitID(payload)
	if err != nil {
		return nil, 0, nil, err
	}
	pr := state.FromDirection(dir, reg, protocol)
	p := pr.CreatePacket(proto.PacketID(id))
	if p == nil {
		return nil, id, data, nil
	}
	ctx := &proto.PacketContext{Direction: dir, Protocol: protocol, PacketID: proto.PacketID(id), Packet: p, Payload: payload}
	if err := p.Decode(ctx, bytes.NewReader(data)); err != nil {
		return nil, id, data, err
	}
	return p, id, data, nil
}
